"""C19 custom pipeline loader (bare mapping): finds the file with the file loader's own
look-up but returns only the yaml payload, so pypyr wraps it in a plain cascading
PipelineInfo(pipeline_name=name, loader='c19_loader', parent=<parent as passed>)."""
import pypyr.loaders.file as _lf
import pypyr.yaml
from pypyr.config import config


def load_yaml(pipeline_name, parent):
    path = _lf.get_pipeline_path(pipeline_name=pipeline_name, parent=parent)
    with open(path, encoding=config.default_encoding) as f:
        return pypyr.yaml.get_pipeline_yaml(f)


def get_pipeline_definition(pipeline_name, parent):
    return load_yaml(pipeline_name, parent)
