"""C10: drive the real Context.merge / Context.set_defaults / the two steps and observe."""
import collections
from collections.abc import Mapping

import pv


def _cls(name):
    from ruamel.yaml.comments import CommentedMap
    return {'dict': dict, 'CommentedMap': CommentedMap, 'OrderedDict': collections.OrderedDict}[name]


def fresh_strings(o):
    """Rebuild `o` so that every str is its own object (as after a YAML load): the
    formatter memoises by id() within one call, shared str objects would share results."""
    from pypyr.dsl import SpecialTagDirective
    if isinstance(o, str):
        return (o + ' ')[:-1] if len(o) > 1 else o
    if isinstance(o, SpecialTagDirective):
        return o
    if isinstance(o, Mapping):
        return o.__class__((fresh_strings(k), fresh_strings(v)) for k, v in o.items())
    if isinstance(o, (list, tuple)):
        return o.__class__(fresh_strings(x) for x in o)
    return o


def freeze_sets(o):
    if isinstance(o, Mapping):
        for k in list(o.keys()):
            o[k] = freeze_sets(o[k])
        return o
    if isinstance(o, set):
        return frozenset(o)
    return o


def nodes(o, seen=None):
    """every node of a tree (containers and leaves), pre-order"""
    yield o
    if isinstance(o, Mapping):
        for k, x in o.items():
            yield k
            yield from nodes(x)
    elif isinstance(o, (list, tuple)):
        for x in o:
            yield from nodes(x)


def is_cyclic(o, stack=None):
    stack = stack if stack is not None else set()
    if isinstance(o, Mapping):
        kids = list(o.values())
    elif isinstance(o, (list, tuple)):
        kids = list(o)
    else:
        return False
    if id(o) in stack:
        return True
    stack.add(id(o))
    try:
        return any(is_cyclic(x, stack) for x in kids)
    finally:
        stack.discard(id(o))


def shared_objects(root, canon):
    """groups of mapping-paths of the final context that hold the SAME mutable object"""
    by_id = {}

    def walk(o, path):
        if isinstance(o, Mapping):
            if path:
                by_id.setdefault(id(o), []).append(path)
            for k, x in o.items():
                walk(x, path + [canon(k)])
        elif isinstance(o, list):
            by_id.setdefault(id(o), []).append(path)
    walk(root, [])
    return [ps for ps in by_id.values() if len(ps) > 1]


def shares_anywhere(root):
    """is some mutable container reachable twice (also through lists / tuples)?"""
    seen = set()

    def walk(o):
        if isinstance(o, (Mapping, list)):
            if id(o) in seen:
                return True
            seen.add(id(o))
        if isinstance(o, Mapping):
            return any(walk(x) for x in o.values())
        if isinstance(o, (list, tuple)):
            return any(walk(x) for x in o)
        return False
    return walk(root)


def snapshot(o):
    """copy of the containers, same leaf objects (opaque objects keep their identity)"""
    if isinstance(o, Mapping):
        return o.__class__((k, snapshot(v)) for k, v in o.items())
    if isinstance(o, (list, tuple)):
        return o.__class__(snapshot(x) for x in o)
    return o


def first_list_merge(ctx, inc):
    """follow the FIRST item of each incoming level while it is a literal key that merges a mapping
    into an existing mapping; if it ends in list-into-existing-list, return (path, incoming list).
    Nothing has been merged before that item: the context it is formatted against is the one
    the operation started with."""
    path, cur, level = [], ctx, inc
    while isinstance(level, Mapping) and len(level):
        k, v = next(iter(level.items()))
        if not isinstance(k, (str, int)) or isinstance(k, bool) or (isinstance(k, str) and ('{' in k or '}' in k)):
            return None
        if not (isinstance(cur, Mapping) and k in cur):
            return None
        path.append(k)
        if isinstance(v, list) and isinstance(cur[k], list):
            return path, v
        if isinstance(v, Mapping) and isinstance(cur[k], Mapping):
            cur, level = cur[k], v
            continue
        return None
    return None


def step_key(case):
    return 'contextMerge' if case['op'] == 'merge' else 'defaults'


def build(case):
    from pypyr.context import Context
    opaque = {}
    ctxd = pv.to_py({'d': case['ctx']}, opaque, dict_cls=_cls(case.get('ctx_cls', 'dict')))
    if case.get('frozen'):
        freeze_sets(ctxd)
    inc = fresh_strings(pv.to_py({'d': case['inc']}, opaque, dict_cls=_cls(case.get('inc_cls', 'dict'))))
    ctx = Context(ctxd)
    if case['via'] == 'step':
        ctx[step_key(case)] = inc
    return ctx, inc, opaque


def call(case, ctx, inc):
    from pypyr.errors import get_error_name
    try:
        if case['via'] == 'step':
            import importlib
            mod = importlib.import_module('pypyr.steps.contextmerge' if case['op'] == 'merge'
                                          else 'pypyr.steps.default')
            mod.run_step(ctx)
        elif case['op'] == 'merge':
            ctx.merge(inc)
        else:
            ctx.set_defaults(inc)
        return ['ok']
    except RecursionError:
        return ['err', 'RecursionError', '']
    except Exception as e:
        msg = str(e)
        # canonical: the class of a mapping (dict / OrderedDict / CommentedMap) is not observed
        for name in ("'collections.OrderedDict'", "'CommentedMap'", "'ruamel.yaml.comments.CommentedMap'"):
            msg = msg.replace('unhashable type: ' + name, "unhashable type: 'dict'")
        import re
        msg = re.sub(r'passed to (collections\.OrderedDict|OrderedDict|CommentedMap|ordereddict)\.__format__',
                     'passed to dict.__format__', msg)
        msg = msg.replace('passed to frozenset.__format__', 'passed to set.__format__')
        return ['err', get_error_name(e), msg]


def run(case):
    obs = run_once(case)
    if case.get('ctx_cls', 'dict') != 'dict' or case.get('inc_cls', 'dict') != 'dict' or case.get('frozen'):
        import json
        text = json.dumps(obs)
        if any(t in text for t in ('OrderedDict(', 'ordereddict(', 'CommentedMap(', 'frozenset(')):
            # a mapping / set was rendered with str(): the text shows its python class, which the
            # canonical trees do not carry.  Observe the same case with plain dict / set instead.
            obs = run_once(dict(case, ctx_cls='dict', inc_cls='dict', frozen=False))
            obs['class_fallback'] = True
    return obs


def run_once(case):
    # ---- run 1: plain, this is the observation
    ctx, inc, opaque = build(case)
    canon = pv.Canon(opaque)
    before_ctx = canon(dict(ctx))
    before_inc = canon(inc)
    ids_before = [id(x) for x in nodes(inc)]
    pre = None
    if case['op'] == 'merge':
        flm = first_list_merge(ctx, inc)
        if flm is not None:
            from pypyr.context import Context
            try:
                # the incoming members formatted against the context as it is BEFORE the merge
                out = Context(snapshot(dict(ctx))).get_formatted_value(snapshot(flm[1]))
                if not is_cyclic(out):
                    pre = {'path': [canon(k) for k in flm[0]], 'members': canon(out)}
            except Exception:
                pre = None
    res = call(case, ctx, inc)
    obs = {'res': res, 'ctx_before': before_ctx}
    if pre is not None:
        obs['pre_formatted_list'] = pre
    if is_cyclic(dict(ctx)) or is_cyclic(inc):
        obs['cyclic'] = True
        return obs
    obs['ctx_after'] = canon(dict(ctx))
    after_inc = canon(inc)
    obs['inc_same_value'] = pv.pv_equal(before_inc, after_inc)
    obs['inc_same_ids'] = ids_before == [id(x) for x in nodes(inc)]
    if not obs['inc_same_value']:
        obs['inc_after'] = after_inc
    obs['shared'] = shared_objects(ctx, canon)
    obs['shares_anywhere'] = shares_anywhere(dict(ctx))

    # ---- run 2: same case, get_formatted_value wrapped on the instance to log what every
    # formatted input came out as (the monitors need the formatted keys)
    ctx2, inc2, opaque2 = build(case)
    canon2 = pv.Canon(opaque2)
    canon_log = pv.Canon(opaque2)
    real = ctx2.get_formatted_value
    log = []

    inputs = []

    def logged(value):
        if not is_cyclic(value):
            a0 = canon_log(value)
            if not any(pv.pv_equal(a0, x) for x in inputs):
                inputs.append(a0)       # recorded before the call: it may raise
        out = real(value)
        try:
            hash(out)
            hashable = True
        except TypeError:
            hashable = False
        if is_cyclic(out):
            return out
        a, b = canon_log(value), canon_log(out)
        if not any(pv.pv_equal(a, x) and pv.pv_equal(b, y) for x, y, _ in log):
            log.append([a, b, hashable])
        return out
    ctx2.get_formatted_value = logged
    res2 = call(case, ctx2, inc2)
    del ctx2.get_formatted_value
    same = res2 == res and not is_cyclic(dict(ctx2)) and pv.pv_equal(canon2(dict(ctx2)), obs['ctx_after'])
    obs['fmt_log'] = log
    obs['fmt_inputs'] = inputs
    obs['rerun_same'] = same
    return obs
