"""Engine harness shared by C01-C07, C11, C12: pipeline ASTs -> yaml text (run by the real
pypyr through a custom loader) and -> Coq terms (run by Model/Engine.v).

case = {
  'lib': [[pipeline_name, [[group_name, [step, ...] | None], ...]], ...],
  'main': name, 'dict_in': [[k, pv], ...] | None,
  'groups': None | [names], 'success': None | str, 'failure': None | str,
  'jit': [num, den]            # what random.random() returns inside back-off jitter
}
step = {'body': one of BODIES, 'simple': bool, 'in': [[k, pv]...] | None, 'foreach': pv | None,
        'while': {'max','stop','sleep','errorOnMax'} | None, 'retry': {...} | None,
        'run': pv, 'skip': pv, 'swallow': pv, 'onError': pv | None}   (absent key = not written)
"""
import json
from fractions import Fraction

import pv

BODIES = {
    'probe': ('vprobe', 'BProbe'), 'fail': ('vfail', 'BFail'), 'incr': ('vincr', 'BIncr'),
    'stop': ('pypyr.steps.stop', 'BStop'), 'stoppipeline': ('pypyr.steps.stoppipeline', 'BStopPipeline'),
    'stopstepgroup': ('pypyr.steps.stopstepgroup', 'BStopStepGroup'),
    'call': ('pypyr.steps.call', 'BCall'), 'jump': ('pypyr.steps.jump', 'BJump'),
    'switch': ('pypyr.steps.switch', 'BSwitch'), 'set': ('pypyr.steps.set', 'BSet'),
    'clear': ('pypyr.steps.contextclear', 'BClear'), 'clearall': ('pypyr.steps.contextclearall', 'BClearAll'),
    'pype': ('pypyr.steps.pype', 'BPype'),
    'merge': ('pypyr.steps.contextmerge', 'BMerge'), 'default': ('pypyr.steps.default', 'BDefault'),
}
WHILE_KEYS = ['max', 'stop', 'sleep', 'errorOnMax']
RETRY_KEYS = ['max', 'sleep', 'backoff', 'backoffArgs', 'jrc', 'sleepMax', 'stopOn', 'retryOn']

# ---------------------------------------------------------------- yaml emission


def yflow(v):
    """pv -> yaml flow text (JSON syntax plus tags)."""
    if v is None or isinstance(v, (bool, int, str)):
        return json.dumps(v)
    if 'f' in v:
        n, d = v['f']
        return repr(n / d)
    if 'l' in v:
        return '[' + ', '.join(yflow(x) for x in v['l']) + ']'
    if 'd' in v:
        return '{' + ', '.join(f'{yflow(k)}: {yflow(x)}' for k, x in v['d']) + '}'
    if 'py' in v:
        if v.get('iter'):       # a one-shot iterator over the value: to a loop it is the value's items
            return '!py ' + json.dumps('iter(' + pv.render_expr(v['py']) + ')')
        return '!py ' + json.dumps(pv.render_expr(v['py']))
    if 'sic' in v:
        return '!sic ' + json.dumps(v['sic'])
    raise ValueError(f'not yaml-able: {v!r}')


def step_mapping(st):
    """a step written as a mapping -> [[key, pv]...] in the order the block form writes them."""
    d = [['name', BODIES[st['body']][0]]]
    if st.get('description') is not None:
        d.append(['description', st['description']])
    if st.get('in') is not None:
        d.append(['in', {'d': st['in']}])
    if 'foreach' in st:
        d.append(['foreach', st['foreach']])
    if st.get('while') is not None:
        d.append(['while', {'d': [[k, st['while'][k]] for k in WHILE_KEYS if k in st['while']]}])
    if st.get('retry') is not None:
        d.append(['retry', {'d': [[k, st['retry'][k]] for k in RETRY_KEYS if k in st['retry']]}])
    for key in ('run', 'skip', 'swallow', 'onError'):
        if key in st:
            d.append([key, st[key]])
    return d


def emit_pipeline_flow(groups):
    """the whole pipeline on ONE line, flow style (a step can then start on line 1)."""
    text = '{'
    pos = {}
    first = True
    for gname, steps in groups:
        text += '' if first else ', '
        first = False
        if gname == 'context_parser':
            text += 'context_parser: vparser'
            continue
        if steps is None:
            text += f'{gname}: null'
            continue
        text += f'{gname}: ['
        for idx, st in enumerate(steps):
            text += ', ' if idx else ''
            if st.get('simple'):
                text += BODIES[st['body']][0]
                continue
            pos[(gname, idx)] = (1, len(text) + 1)
            text += yflow({'d': step_mapping(st)})
        text += ']'
    return text + '}\n', pos


def emit_pipeline(groups, flow=False):
    """groups: [[name, [steps]|None]...] -> (yaml text, {(group, idx): (line, col)})."""
    if flow:
        return emit_pipeline_flow(groups)
    lines = []
    pos = {}
    for gname, steps in groups:
        if gname == 'context_parser':
            lines.append('context_parser: vparser')
            continue
        if steps is None:
            lines.append(f'{gname}:')
            continue
        if not steps:
            lines.append(f'{gname}: []')
            continue
        lines.append(f'{gname}:')
        for idx, st in enumerate(steps):
            modname = BODIES[st['body']][0]
            if st.get('simple'):
                lines.append(f'  - {modname}')
                continue
            pos[(gname, idx)] = (len(lines) + 1, 5)
            lines.append(f'  - name: {modname}')
            if st.get('description') is not None:
                lines.append('    description: ' + yflow(st['description']))
            if st.get('in') is not None:
                lines.append('    in: ' + yflow({'d': st['in']}))
            if 'foreach' in st:
                lines.append('    foreach: ' + yflow(st['foreach']))
            if st.get('while') is not None:
                lines.append('    while: ' + yflow({'d': [[k, st['while'][k]] for k in WHILE_KEYS if k in st['while']]}))
            if st.get('retry') is not None:
                lines.append('    retry: ' + yflow({'d': [[k, st['retry'][k]] for k in RETRY_KEYS if k in st['retry']]}))
            for key in ('run', 'skip', 'swallow', 'onError'):
                if key in st:
                    style = (st.get('ystyle') or {}).get(key)
                    if style == 'anchor' and isinstance(st[key], str):
                        lines.append(f'    {key}: &a{len(lines)} ' + yflow(st[key]))
                    elif style == 'block' and isinstance(st[key], str):
                        lines.append(f'    {key}: |-')
                        lines.append('      ' + st[key])
                    else:
                        lines.append(f'    {key}: ' + yflow(st[key]))
    return '\n'.join(lines) + '\n', pos

# ---------------------------------------------------------------- Coq emission


def coq_optval(st, key):
    return pv.coq_opt(st[key], pv.coq_val) if key in st and st[key] is not None else 'None'


def coq_step(st, position):
    name, ctor = BODIES[st['body']]
    if st.get('simple'):
        return (f'(mkstep {pv.coq_str(name)} {ctor} None None None None (VBool true) (VBool false) '
                f'(VBool false) None None None)')
    s_in = 'None' if st.get('in') is None else f'(Some {pv.coq_dict(st["in"])})'
    fe = f'(Some {pv.coq_val(st["foreach"])})' if 'foreach' in st else 'None'
    w = st.get('while')
    if w is None:
        wc = 'None'
    else:
        wc = (f'(Some (mkw {coq_opt_key(w, "max")} {coq_opt_key(w, "stop")} '
              f'{pv.coq_val(w.get("sleep", 0))} {pv.coq_val(w.get("errorOnMax", False))}))')
    r = st.get('retry')
    if r is None:
        rc = 'None'
    else:
        rc = (f'(Some (mkr {coq_opt_key(r, "max")} {pv.coq_val(r.get("sleep", 0))} '
              f'{coq_opt_key(r, "backoff")} {coq_opt_key(r, "backoffArgs")} {pv.coq_val(r.get("jrc", 0))} '
              f'{coq_opt_key(r, "sleepMax")} {coq_opt_key(r, "stopOn")} {coq_opt_key(r, "retryOn")}))')
    run = pv.coq_val(st.get('run', True))
    skip = pv.coq_val(st.get('skip', False))
    swallow = pv.coq_val(st.get('swallow', False))
    oe = f'(Some {pv.coq_val(st["onError"])})' if 'onError' in st else 'None'
    line, col = position
    desc = f'(Some {pv.coq_val(st["description"])})' if st.get('description') is not None else 'None'
    return (f'(mkstep {pv.coq_str(name)} {ctor} {s_in} {fe} {wc} {rc} {run} {skip} {swallow} {oe} '
            f'(Some ({line}%Z, {col}%Z)) {desc})')


def coq_opt_key(d, k):
    # dict.get(k, None): an explicit null is the same as absent
    return f'(Some {pv.coq_val(d[k])})' if k in d and d[k] is not None else 'None'


def coq_lib(case):
    pipes = []
    for pname, groups in case['lib']:
        _, pos = emit_pipeline(groups, case.get('flow'))
        gs = []
        for gname, steps in groups:
            if steps is None:
                gs.append(f'({pv.coq_str(gname)}, None)')
            else:
                ss = pv.coq_list([coq_step(s, pos.get((gname, i), (0, 0))) for i, s in enumerate(steps)])
                gs.append(f'({pv.coq_str(gname)}, Some {ss})')
        pipes.append(f'({pv.coq_str(pname)}, {pv.coq_list(gs)})')
    return pv.coq_list(pipes)


def coq_optstr(s):
    return 'None' if s is None else f'(Some {pv.coq_str(s)})'


def coq_run(case):
    groups = 'None' if case.get('groups') is None else \
        '(Some ' + pv.coq_list([pv.coq_val(g) for g in case['groups']]) + ')'
    jn, jd = case.get('jit', [1, 4])
    args = case.get('args_in')
    cargs = 'None' if args is None else '(Some ' + pv.coq_list([pv.coq_str(a) for a in args]) + ')'
    dict_none = pv.coq_bool(case.get('dict_in') is None)
    return (f'(api_run_args EFUEL {coq_lib(case)} {pv.coq_str(case["main"])} {cargs} {dict_none} '
            f'{pv.coq_dict(case.get("dict_in") or [])} {groups} {coq_optstr(case.get("success"))} '
            f'{coq_optstr(case.get("failure"))} {pv.coq_Q(jn, jd)})')


def coq_obs_check(case, obs):
    """nat verdict: model run vs observation."""
    out = obs['outcome']
    o = '(EOk)' if out[0] == 'ok' else f'(EErr {pv.coq_str(out[1])} {pv.coq_str(out[2])})'
    trace = pv.coq_list([pv.coq_val(e) for e in obs['trace']])
    sleeps = pv.coq_list([pv.coq_Q(n, d) for n, d in obs['sleeps']])
    ctx = pv.coq_dict(obs['ctx'])
    pat = pv.coq_list([f'{n}%nat' for n in obs['eid_pattern']])
    return f'(check_run {coq_run(case)} {o} {trace} {sleeps} {ctx} {pat})'

# ---------------------------------------------------------------- running the real code


def strip_exn(v):
    """replace exception identity indices by 0 (identity is compared separately)."""
    if isinstance(v, dict):
        if 'exn' in v:
            return {'exn': [v['exn'][0], v['exn'][1], 0]}
        return {k: strip_exn(x) for k, x in v.items()}
    if isinstance(v, list):
        return [strip_exn(x) for x in v]
    return v


def first_seen_pattern(ids):
    seen = {}
    out = []
    for x in ids:
        if x not in seen:
            seen[x] = len(seen)
        out.append(seen[x])
    return out


def run_case(case, extra=None):
    """Run one case on the real pypyr. Returns the canonical observation."""
    import random
    import vstate
    import pypyr.utils.poll
    import pypyr.pipelinerunner as runner
    from pypyr.cache.loadercache import loader_cache
    from pypyr.context import Context
    from pypyr.errors import get_error_name

    import logging
    if case.get('debuglog'):
        # everything is logged (to nowhere): what a run does must not depend on the log level
        logging.disable(logging.NOTSET)
        root = logging.getLogger()
        root.setLevel(logging.DEBUG)
        if not any(isinstance(h, logging.NullHandler) for h in root.handlers):
            root.addHandler(logging.NullHandler())
    else:
        logging.disable(logging.CRITICAL)
    pv.register_asts(case)
    canon = pv.Canon()
    canon.ids[id(vstate.MISSING)] = -1
    texts = {name: emit_pipeline(groups, case.get('flow'))[0] for name, groups in case['lib']}
    vstate.reset(texts, canon)
    loader_cache.clear_pipes()

    jn, jd = case.get('jit', [1, 4])
    r = jn / jd
    sleeps = []
    real_sleep = pypyr.utils.poll.time.sleep
    real_uniform = random.uniform
    created = []

    class RecordingContext(Context):
        def __init__(self, *a, **k):
            super().__init__(*a, **k)
            created.append(self)

    def fake_sleep(x):
        sleeps.append(Fraction(x))

    pypyr.utils.poll.time.sleep = fake_sleep
    random.uniform = lambda a, b: a + (b - a) * r
    runner.Context = RecordingContext
    exc = None
    try:
        dict_in = pv.to_py({'d': case['dict_in']}) if case.get('dict_in') is not None else None
        try:
            result = runner.run(case['main'], args_in=case.get('args_in'), dict_in=dict_in, groups=case.get('groups'),
                                success_group=case.get('success'), failure_group=case.get('failure'),
                                loader='vloader')
            outcome = ['ok']
        except RecursionError:
            outcome = ['err', 'RecursionError', '']
            result = None
        except Exception as e:
            exc = e
            outcome = ['err', get_error_name(e), str(e)]
            result = None
    finally:
        pypyr.utils.poll.time.sleep = real_sleep
        random.uniform = real_uniform
        runner.Context = Context
    root = created[0] if created else None
    ctx = canon(dict(root)) if root is not None else {'d': []}
    ids = []
    if root is not None and isinstance(root.get('runErrors'), list):
        for entry in root['runErrors']:
            if isinstance(entry, dict) and isinstance(entry.get('exception'), BaseException):
                ids.append(id(entry['exception']))
    if exc is not None:
        ids.append(id(exc))
    obs = {
        'outcome': outcome,
        'trace': [strip_exn(e) for e in vstate.TRACE],
        'sleeps': [[f.numerator, f.denominator] for f in sleeps],
        'ctx': strip_exn(ctx)['d'],
        'eid_pattern': first_seen_pattern(ids),
        'returned_same_context': result is root if result is not None else None,
        'stack_depth_after': root.get_stack_depth() if root is not None else None,
        'loads': list(vstate.LOADS),
    }
    if extra:
        extra(obs, root, canon)
    return obs


def run_errors(obs):
    """runErrors entries of the final context as python dicts."""
    for k, v in obs.get('ctx') or []:
        if k == 'runErrors' and isinstance(v, dict) and 'l' in v:
            return [{kk: vv for kk, vv in e['d']} for e in v['l'] if isinstance(e, dict) and 'd' in e]
    return []
