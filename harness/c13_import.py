"""C13 helper: the get_module layer under the caches.

Thread 0 looks a not-yet-imported user module up through one real pypyr cache (or with
caching disabled); the module's body is held half-way (c13_importgate.park: the module object
is already in sys.modules, its functions are not defined yet).  Threads 1.. then look the
SAME module up through paths that are not serialised by one Cache lock (another cache, the
pyImport namespace cache, or the same cache with no_cache).  The statement: a look-up made
while another thread is still creating the item waits and receives the finished item.

The controller waits - without fixed sleeps - until every follower is either finished or
blocked on importlib's per-module lock (introspected), then lets the import complete.
Observation = op-level events of Model/Cache.v with the import system as the cache
(key = module name, creator = executing the module body), in canonical order."""
import itertools
import os
import shutil
import sys
import tempfile
import threading
import time
from pathlib import Path

import c13_importgate

COUNTER = itertools.count()
MODULE_SRC = '''\
import c13_importgate

# expensive set-up work at import time
c13_importgate.park(__name__)


def run_step(context):
    context['out'] = 1


def get_parsed_context(args):
    return {'a': args}


def get_pipeline_definition(pipeline_name, parent):
    return {'steps': []}


def double(x):
    return x * 2


class Strategy:
    def __call__(self, n):
        return n
'''
SAFETY = 20.0


def lookup(via, mod):
    """-> (item, attribute of the module the item must be)"""
    import pypyr.moduleloader as ml
    if via == 'step':
        from pypyr.cache.stepcache import StepCache
        return StepCache().get_step(mod), 'run_step'
    if via == 'parser':
        from pypyr.cache.parsercache import ContextParserCache
        return ContextParserCache().get_context_parser(mod), 'get_parsed_context'
    if via == 'loader':
        from pypyr.cache.loadercache import LoaderCache
        return LoaderCache().get_pype_loader(mod)._get_pipeline_definition, 'get_pipeline_definition'
    if via == 'backoff':
        from pypyr.cache.backoffcache import BackoffCache
        return BackoffCache().get_backoff(mod + '.Strategy'), 'Strategy'
    if via == 'namespace':
        from pypyr.cache.namespacecache import NamespaceCache
        return NamespaceCache().get_namespace(f'import {mod}')[mod].double, 'double'
    if via == 'get_module':
        return ml.get_module(mod).run_step, 'run_step'
    raise ValueError(via)


def waiting_for_import(mod, idents):
    """-> (set of thread idents that are inside importlib's acquire of the module's lock, bool:
    introspection available).  Thread 0 owns that lock for as long as the body is parked, so a
    thread inside acquire is (about to be) blocked on it."""
    try:
        import importlib._bootstrap as b
        ref = b._module_locks.get(mod)
        lock = ref() if ref is not None else None
        out = set()
        for i in idents:
            held = b._blocking_on.get(i)
            if lock is not None and held is not None and any(x is lock for x in list(held)):
                out.add(i)
        return out, True
    except Exception:   # noqa  (other interpreter: fall back to a bounded wait)
        return set(), False


def run_import(case):
    from pypyr.config import config
    vias = case['vias']
    n = len(vias)
    mod = f'c13_slowmod_{os.getpid()}_{next(COUNTER)}'
    d = Path(tempfile.mkdtemp(prefix='c13imp-'))
    saved_nc = config.no_cache
    results = [None] * n
    gate = c13_importgate.arm(mod)
    try:
        (d / f'{mod}.py').write_text(MODULE_SRC)
        sys.path.insert(0, str(d))
        config.no_cache = bool(case['nc'])

        def worker(t):
            try:
                item, attr = lookup(vias[t], mod)
                results[t] = ['ok', item, attr]
            except BaseException as e:    # noqa
                results[t] = ['raise', type(e).__name__, str(e)[:120]]
        threads = [threading.Thread(target=worker, args=(t,), name=f'c13-{t}', daemon=True) for t in range(n)]
        threads[0].start()
        status = 'ok'
        if not gate['parked'].wait(SAFETY):
            status = 'creator-never-reached-module-body'
        early = []
        if status == 'ok':
            for th in threads[1:]:
                th.start()
            # wait until every follower is finished or blocked on the import lock
            t0 = time.time()
            while time.time() - t0 < SAFETY:
                pending = [t for t in range(1, n) if results[t] is None]
                if not pending:
                    break
                waiting, can_see = waiting_for_import(mod, [threads[t].ident for t in pending])
                if can_see and len(waiting) == len(pending):
                    break
                if not can_see and time.time() - t0 > 0.5:
                    break
                time.sleep(0.0005)
            early = [t for t in range(1, n) if results[t] is not None]
        gate['release'].set()
        for th in threads:
            th.join(SAFETY)
        final = sys.modules.get(mod)
        outcomes = []
        for t in range(n):
            r = results[t]
            if r is None:
                outcomes.append(['hung'])
            elif r[0] == 'ok':
                outcomes.append(['ok', final is not None and r[1] is getattr(final, r[2], None)])
            else:
                outcomes.append(['raise', r[1], r[2]])
        runs = [int(x.split('-')[1]) for x in gate['runs']]
    finally:
        gate['release'].set()
        config.no_cache = saved_nc
        sys.modules.pop(mod, None)
        if str(d) in sys.path:
            sys.path.remove(str(d))
        c13_importgate.STATE.pop(mod, None)
        shutil.rmtree(d, ignore_errors=True)
    # canonical op-level events (import system = the cache; request = (None, module))
    req = [None, 'slowmod']
    events = []
    for k, t in enumerate(runs):
        events.append(['call', t, req])
        events.append(['created', t, req, k])
    for t in range(n):
        o = outcomes[t]
        if o[0] == 'ok':
            events.append(['ret', t, req, 0 if o[1] else -1])
        elif o[0] == 'raise':
            events.append(['raise', t, req, o[1]])
    return {'events': events, 'status': status, 'outcomes': outcomes, 'body_runs': runs,
            'finished_before_creation_completed': early, 'unfinished': [], 'anomalies': []}
