"""C18 — seeded case generators: parser argument lists, (parse_args, args_in, dict_in)
combinations, API calls and command lines with small pipelines ending in every way."""
import json

TMP = '<TMP>'
PARSERS = ['keyvaluepairs', 'argskwargs', 'dict', 'list', 'string', 'keys', 'json']

KEYS = ['a', 'b', 'k', 'key', 'x y', "q'k", '"dq"', 'é', '日本', '', ' k2', 'argList', 'argDict',
        'argString', 'K', 'a.b', '{a}', '🙂']
VALS = ['', '1', 'v', 'value', 'two words', 'a=b', '=', '==x', "it's", 'say "hi"', 'café', '日本語',
        ' lead', 'trail ', 'x=y=z', '{a}', 'true', 'None', '-1', '--x', 'tab\there', 'nl\nnl', '🙂=🙂']
BARE = ['a', 'b', 'word', 'two words', '', ' ', "q'", '"', 'é', '日本', 'argList', 'True', '0',
        'x.y', '{a}', 'dup', 'dup', '🙂', 'k']


def gen_token(rng):
    r = rng.random()
    if r < 0.55:
        return rng.choice(KEYS) + '=' + rng.choice(VALS)
    if r < 0.85:
        return rng.choice(BARE)
    return rng.choice(['=', '=v', 'k=', '==', 'a==b', '= =', 'k= v', ' =', 'k=\n'])


def gen_args(rng, allow_none=True):
    r = rng.random()
    if allow_none and r < 0.06:
        return None
    if r < 0.12:
        return []
    n = rng.choice([1, 1, 2, 2, 3, 3, 4, 5, 6, 8])
    return [gen_token(rng) for _ in range(n)]


# ---------------------------------------------------------------- json texts

def gen_json_value(rng, depth):
    r = rng.random()
    if depth <= 0 or r < 0.5:
        k = rng.random()
        if k < 0.45:
            return rng.choice(VALS + KEYS)
        if k < 0.8:
            return rng.choice([0, 1, -1, 7, 42, 100, -250, 12345678901234567890])
        if k < 0.9:
            return rng.choice([True, False])
        return None
    if r < 0.75:
        return [gen_json_value(rng, depth - 1) for _ in range(rng.randrange(0, 4))]
    return gen_json_object(rng, depth - 1)


def gen_json_object(rng, depth):
    return {rng.choice(KEYS): gen_json_value(rng, depth) for _ in range(rng.randrange(0, 4))}


def render_json(rng, v):
    """json text with random (legal) whitespace and, sometimes, a duplicated key."""
    def ws():
        return rng.choice(['', '', '', ' ', ' ', '  ', '\n', '\t'])

    def go(x):
        if isinstance(x, dict):
            items = [json.dumps(k, ensure_ascii=False) + ws() + ':' + ws() + go(y)
                     for k, y in x.items()]
            if items and rng.random() < 0.25:
                k = rng.choice(list(x))
                items.append(json.dumps(k, ensure_ascii=False) + ':' + go(rng.choice([1, 'again'])))
            return '{' + ws() + (ws() + ',' + ws()).join(items) + ws() + '}'
        if isinstance(x, list):
            return '[' + ws() + (ws() + ',' + ws()).join(go(y) for y in x) + ws() + ']'
        return json.dumps(x, ensure_ascii=False)
    return ws() + go(v) + ws()


def gen_json_args(rng):
    r = rng.random()
    if r < 0.05:
        return rng.choice([None, []])
    if r < 0.70:
        text = render_json(rng, gen_json_object(rng, 2))
    elif r < 0.80:      # top level is not an object
        text = render_json(rng, rng.choice([[1, 2], [], 'str', 3, True, None, [{'a': 1}]]))
    elif r < 0.92:      # malformed
        text = rng.choice(['{', '}', '{"a"}', '{"a":}', '{"a":1,}', '{"a":1 "b":2}', "{'a':1}",
                           '{"a":01}', '{"a":1} x', '{"a":1}}', '[1,]', '{"a":tru}', '{a:1}',
                           '{"a":"\x01"}', '{"a":"x}', '', ' ', '{"a":-}', '{"a":"\\q"}',
                           '{"a":1]', '[1 2]', '{"a" 1}', 'nul', '{"a":--1}'])
    else:               # valid or not, but outside the modelled fragment
        text = rng.choice(['{"a":1.5}', '{"a":1e3}', '{"a":"\\u00e9"}', '{"a":NaN}',
                           '{"a":-Infinity}', '{"a":Infinity}', '{"a":-0.0}', '{"a":1E+2}'])
    return text.split(' ')


# ---------------------------------------------------------------- dict_in

def gen_dict_in(rng):
    r = rng.random()
    if r < 0.3:
        return None
    if r < 0.45:
        return []

    def val(d):
        k = rng.random()
        if d <= 0 or k < 0.6:
            return rng.choice([0, 1, -3, 'x', 'two words', '', True, False, None, 'é', '{a}'])
        if k < 0.8:
            return {'l': [val(d - 1) for _ in range(rng.randrange(0, 3))]}
        return {'d': [[kk, val(d - 1)] for kk in rng.sample(['p', 'q', 'r'], rng.randrange(0, 3))]}
    keys = rng.sample(['a', 'b', 'k', 'argList', 'argDict', 'argString', 'é', 'x y', 'zz', 'key'],
                      rng.randrange(1, 5))
    return [[k, val(2)] for k in keys]


# ---------------------------------------------------------------- command lines

FNAMES = ['p', 'pipe', 'my pipe', 'pípe', 'a=b', 'p.q', "p'q", '日本']
GROUPS = ['g1', 'g2', 'grp three', 'grüppe', 'a=b', 'steps', 'G', "q'g"]
SUCC = ['sg', 'on_success', 'yay group', 'sü']
FAIL = ['fg', 'on_failure', 'my fail', 'fü']
MSGS = ['boom', '', 'two words', 'ünï 日本 🙂', 'line1\nline2', '{braces} {0}', 'a: b', "it's \"q\"",
        ' lead and trail ', '100%', 'x' * 60, '\x1b[0m esc', 'tab\there']
EXC_TYPES = ['ValueError', 'KeyError', 'RuntimeError', 'TypeError', 'OSError', 'C18CustomError',
             'KeyNotInContextError', 'AssertionError', 'Exception', 'ZeroDivisionError',
             'NotImplementedError', 'LookupError']


def probe(tag):
    return {'name': 'c18probe', 'in': {'c18tag': tag}}


def gen_ending(rng, subproc):
    r = rng.random()
    if r < 0.18:
        return {'how': 'complete'}
    if r < 0.28:
        return {'how': 'stop'}
    if r < 0.33:
        return {'how': 'stoppipeline'}
    if r < 0.38:
        return {'how': 'stopstepgroup'}
    if r < 0.42:
        return {'how': 'stop-raised-by-step', 'boom': {'ty': 'Stop', 'msg': 'custom stop'}}
    if r < 0.68:
        return {'how': 'raise', 'boom': {'ty': rng.choice(EXC_TYPES), 'msg': rng.choice(MSGS)}}
    if r < 0.73:
        return {'how': 'raise-then-stop-in-failure-handler',
                'boom': {'ty': rng.choice(EXC_TYPES), 'msg': rng.choice(MSGS)}}
    if r < 0.82:
        return {'how': 'kbd', 'boom': {'ty': 'KeyboardInterrupt'}}
    if r < 0.88:
        return {'how': 'sysexit', 'boom': {'ty': 'SystemExit', 'code': rng.choice([None, 0, 0, 3, 255, 1])}}
    if r < 0.90:
        return {'how': 'otherbase', 'boom': {'ty': rng.choice(['C18BaseError', 'GeneratorExit']),
                                             'msg': 'not an Exception'}}
    if subproc:
        return {'how': 'complete'}
    if r < 0.94:
        return {'how': 'parser-error'}
    if r < 0.97:
        return {'how': 'missing-pipeline'}
    return {'how': 'missing-group'}


def ending_steps(e):
    how = e['how']
    if how == 'complete':
        return []
    if how in ('stop', 'stoppipeline', 'stopstepgroup'):
        return ['pypyr.steps.' + how]
    if how in ('parser-error', 'missing-pipeline', 'missing-group', 'startup-error'):
        return []
    return ['c18boom']


STARTUP = ['bad-local-config-yaml', 'local-config-not-a-mapping', 'missing-global-config',
           'logpath-missing-dir', 'control']


def gen_cli_case(rng, subproc=False, startup=None):
    """startup: a fault while main sets itself up (config look-up, log handlers), before the
    pipeline is even loaded; 'control' = the same start-up path without a fault."""
    fname = rng.choice(FNAMES)
    ending = gen_ending(rng, subproc)
    if startup == 'control':
        ending = {'how': rng.choice(['complete', 'stop'])}
    elif startup:
        ending = {'how': 'startup-error', 'startup': startup}
    how = ending['how']
    # --- options (structured; argv is rendered from them)
    items = []
    groups = success = failure = None
    if rng.random() < 0.55 or how == 'missing-group':
        groups = [rng.choice(GROUPS) for _ in range(rng.choice([0, 1, 1, 2, 2, 3]))]
        items.append(['groups', groups])
    if rng.random() < 0.4:
        success = rng.choice(SUCC)
        items.append(['success', success])
    if rng.random() < 0.4:
        failure = rng.choice(FAIL)
        items.append(['failure', failure])
    use_dir = rng.random() < 0.7
    if use_dir:
        items.append(['dir', TMP + '/mods'])
    lv = rng.random()
    log = 50 if lv < (0.9 if subproc else 0.7) else rng.choice([None, 5, 0, 10, 25, 40, 9, 1])
    if log is not None:
        items.append([rng.choice(['log', 'log', 'loglevel']), str(log)])
    if startup == 'logpath-missing-dir':
        items.append(['logpath', TMP + '/no-such-dir/log.txt'])
    elif rng.random() < 0.04:
        items.append(['logpath', TMP + '/log.txt'])
    rng.shuffle(items)
    if groups is not None and (rng.random() < 0.08 or how == 'missing-group'):
        # a repeated option: the last one wins
        groups = [rng.choice(GROUPS)] + (['no-such-group'] if how == 'missing-group' else [])
        items.append(['groups', groups])
    form = rng.choice(['A', 'A', 'B', 'D'])
    if form == 'D' and (not items or items[-1][0] == 'groups'):
        form = 'B'
    # --- context args and parser
    parser = rng.choice(PARSERS[:6] + [None, 'keyvaluepairs', 'keyvaluepairs', 'json'])
    if how == 'parser-error':
        parser = 'json'
        ctx = rng.choice([['{'], ['not', 'json'], ['[1,2]'], ['"s"'], ['{"a":1}', 'x']])
    elif parser == 'json':
        ctx = render_json(rng, gen_json_object(rng, 1)).split(' ')
        if any(t.startswith('-') for t in ctx):
            ctx = ['{"k":', '"v"}']
    else:
        ctx = [t for t in gen_args(rng, allow_none=False) if t != '--']
        if form != 'B':
            ctx = [t for t in ctx if not t.startswith('-')]
        if rng.random() < 0.03 and form == 'A':
            ctx = ctx + [rng.choice(['-x', '--foo=1', '-5', '-', '-x y', '--succ'])]
    name = TMP + '/pipes/' + fname
    flat = []
    for k, v in items:
        flat.append('--' + k)
        flat.extend(v if isinstance(v, list) else [v])
    if form == 'A':
        argv = [name] + ctx + flat
    elif form == 'B':
        argv = flat + ['--', name] + ctx
    else:
        argv = flat + [name] + ctx
    # --- the pipeline
    run_groups = groups if groups else ['steps']
    body = {}
    if parser:
        body['context_parser'] = 'pypyr.parser.' + parser
    tag = 0
    tags = {}
    for g in dict.fromkeys(run_groups):
        if g == 'no-such-group':
            continue
        body[g] = [probe(tag)]
        tags[str(tag)] = g
        tag += 1
    last = run_groups[-1]
    if last in body:
        body[last] = body[last] + ending_steps(ending) + [probe(99)]
    tags['99'] = 'after-ending'
    defaults = (not groups) and success is None and failure is None
    sname = success if success is not None else ('on_success' if defaults else None)
    fail_name = failure if failure is not None else ('on_failure' if defaults else None)
    if sname is not None and sname not in body and rng.random() < 0.85:
        body[sname] = [probe(tag)]
        tags[str(tag)] = 'success:' + sname
        tag += 1
    if fail_name is not None and fail_name not in body and rng.random() < 0.85:
        body[fail_name] = [probe(tag)]
        tags[str(tag)] = 'failure:' + fail_name
        tag += 1
        if how == 'raise-then-stop-in-failure-handler':
            body[fail_name].append('pypyr.steps.stop')
    if how == 'raise-then-stop-in-failure-handler' and (
            fail_name is None or 'pypyr.steps.stop' not in body.get(fail_name, [])):
        ending = dict(ending, how='raise')
        how = 'raise'
    pipelines = {} if how == 'missing-pipeline' else {fname: body}
    case = {'kind': 'cli', 'mode': 'subproc' if subproc else 'inproc', 'argv': argv,
            'pipelines': pipelines, 'parser': parser, 'ending': ending, 'tags': tags,
            'mods_with_pipes': not use_dir, 'form': form,
            'want': {'name': name, 'ctx': ctx, 'groups': groups, 'success': success,
                     'failure': failure, 'dir': TMP + '/mods' if use_dir else None}}
    if 'boom' in ending:
        case['boom'] = ending['boom']
    if startup:
        case['startup'] = startup
    return case


# ---------------------------------------------------------------- everything

def gen_parse_input_cases(rng):
    out = []
    for pa in (None, True, False):
        for shape_a in ('none', 'empty', 'some'):
            for shape_d in ('none', 'empty', 'some'):
                a = None if shape_a == 'none' else [] if shape_a == 'empty' else gen_args(rng, False) or ['x']
                d = None if shape_d == 'none' else [] if shape_d == 'empty' else (gen_dict_in(rng) or [['a', 1]])
                out.append({'kind': 'parse_input', 'parse_args': pa, 'args_in': a, 'dict_in': d})
    return out


def gen_api_case(rng):
    parser = rng.choice(PARSERS + [None])
    args_in = gen_json_args(rng) if parser == 'json' else gen_args(rng)
    return {'kind': 'api', 'parser': parser, 'parse_args': rng.choice([None, None, True, False]),
            'args_in': args_in, 'dict_in': gen_dict_in(rng)}


def generate(rng, n, tier):
    cases = gen_parse_input_cases(rng)
    n_sub = 24 if tier == 'quick' else 160
    n_sub = min(n_sub, max(4, n // 20))
    for _ in range(n_sub):
        cases.append(gen_cli_case(rng, subproc=True))
    for i in range(10 if tier == 'quick' else 60):      # start-up faults, real child processes
        cases.append(gen_cli_case(rng, subproc=True, startup=STARTUP[i % len(STARTUP)]))
    rest = max(0, n - len(cases))
    for i in range(rest):
        r = rng.random()
        if r < 0.45:
            p = rng.choice(PARSERS)
            args = gen_json_args(rng) if p == 'json' else gen_args(rng)
            cases.append({'kind': 'parser', 'parser': p, 'args': args})
        elif r < 0.65:
            cases.append(gen_api_case(rng))
        else:
            cases.append(gen_cli_case(rng))
    return cases
