"""C16 generators: payload / document trees full of type-ambiguous scalars, format
expressions and awkward keys; write->fetch cases and fileformat cases for json/yaml/toml."""

AMBIG = ['', 'true', 'True', 'false', 'yes', 'no', 'on', 'off', 'y', 'n', '1', '1.0', '0', '-1',
         '+1', '1e3', '1_000', '0x1f', '0o17', '017', '0b11', 'null', 'Null', 'NULL', '~', 'None',
         '.inf', '-.inf', '.nan', '2001-12-14', '2001-12-14T21:59:43Z', '12:30:45', '1:30', '=',
         '<<', ' x ', ' lead', 'trail ', '  ', '\tx', 'x\t', 'a\tb', 'a\nb', 'a\n', '\na', '\n',
         'a\n\nb', 'a\n\n', ' \n', 'a \nb', 'a\n b', '  a\nb', 'a\r\nb', 'a\rb', '- x', '-', '-x',
         'a: b', 'a:', ':a', ': ', '# c', 'a #b', 'a#b', '"q"', "'q'", '"', "'", "it's",
         'say "hi"', "'''", '"""', '|', '>', '|-', '%x', '@x', '`x', '!x', '!!str x', '&x', '*x',
         '? x', '?', '[a]', '[', ']', ',', 'a,b', 'a, b', '\\', '\\n', 'a\\', '\\u00e9',
         '\x00', '\x01', '\x07', '\x08', '\x0b', '\x0c', '\x1b', '\x1f', '\x7f', '\x80', '\x9f',
         '\xa0', 'a\xa0b', 'caf\xe9', '\u65e5\u672c', '\u2028', 'a\u2029b', '\ufeff', 'a\ufeffb',
         '\ufffd', '\ufffe', '\uffff', '\U0001f600', '\ud7ff', '\ue000', '\U0010ffff',
         '---', '--- a', '...', 'a\n---\nb', 'a\n...\nb', 'key: value', 'x' * 100,
         ('word ' * 30).strip(), 'a' * 90 + ' ' + 'b' * 90, 'l1\n' + 'w ' * 60,
         'abc', 'hello world', 'x', 'plain'] + ['NO', 'Yes', 'ON', '190:20:30', '012', '0b101', '.5', '+.inf']
# plain scalars that YAML 1.1 resolves to bool / int / float but YAML 1.2 keeps as strings
YAML11 = ['yes', 'no', 'on', 'off', 'y', 'N', 'NO', 'Yes', 'ON', 'Off', '1:30', '190:20:30', '0o17', '012',
          '1_000', '0b101', '1e3', '.5', '+.inf', '0x_1f', '1_0.5']
PRE_DOCS = {
    'yaml': ['%YAML 1.1\n---\nname: old settings\nlevel: 3\n', '%YAML 1.1\n---\n- yes\n- 1:30\n',
             '%YAML 1.2\n---\na: 1\n', 'x: yes\ny: [1, 2]\n', '%YAML 1.1\n---\nk: v\n'],
    'json': ['{"legacy": true}', '[1, 2, 3]'],
    'toml': ['legacy = true\n[t]\nx = 1\n'],
}
NEL = ['a\x85b', '\x85', 'x\x85', '\x85 y', 'line\x85next line']
DQFOLD = ['a' * 76 + '\x1b' + 'a a', 'b' * 70 + '\x7f' + 'cc dd ee', '\x01' + 'w' * 80 + ' x y',
          'k' * 60 + '\t' + 'k' * 30 + ' tail end']
BRACES = ['{{', '}}', '{{x}}', 'a{{b}}c', '{{}}', '{{{{', 'x}}y{{z',
          # only the closing escape (no '{' at all), only the opening one, and mixtures
          'end of block }} here', 'a }} b', '}} lead', 'tail }}', '}}}}', 'caf\u00e9 }} \u65e5',
          'open {{ only', 'x {{ y {{', '{{ lead', 'both {{ and }} here', '}} then {{', ' }} ', '}}\n{{']
BRACE_KEYS = ['key }} close', '}}', 'k}}', '{{ open key', '{{', 'k }} {{ m', '{{k}}', 'a{{b', '\u00e4 }}']
WORD_KEYS = ['a', 'b', 'c', 'name', 'id', 'sub', 'k', 'v', 'items', 'Z', 'z']
ODD_KEYS = ['', 'true', 'false', '1', '0', 'null', '~', ' x ', 'a.b', 'a b', 'a"b', "a'b", '\xe4',
            'a\nb', '#k', '- k', 'k: v', '?', '\u65e5', 'A', 'yes', '1.5', 'x' * 90, '[k]', 'a=b',
            '\t', '\x7f', '\U0001f600', '\\', '{{k}}',
            'n', 's', 'lst', 'flag']     # collide with context keys: a root merge must overwrite
INTS = [0, 1, -1, 2, 7, 42, 100, -5, 2 ** 31, 2 ** 63 - 1, 2 ** 63, -2 ** 63, -2 ** 63 - 1, 10 ** 30]
FLOATS = [{'f': [3, 2]}, {'f': [1, 8]}, {'f': [-5, 4]}, {'f': [100, 1]}, {'f': [0, 1]},
          {'f': [3602879701896397, 36028797018963968]},      # 0.1
          {'f': list((1e100).as_integer_ratio())}, {'f': [10 ** 16, 1]},
          {'f': list((1e-7).as_integer_ratio())}, {'f': list((123456789.123456789).as_integer_ratio())}]


ROOT_BRACE_KEYS = ['url_{n}', '{{literal}}', '{kname}_id', 'end }} key', '{{ open', 'k{n}{n}', '}}', 'a{{b}}c',
                   '{kname}', 'caf\xe9 {{x}} {n}']
NONFINITE = [{'fx': 'inf'}, {'fx': '-inf'}, {'fx': 'nan'}, {'fx': '-0.0'}]


def gen_ctx(rng):
    """Context pairs.  Always: dir=/T, n (int), kname (plain str usable as a key),
    s (str), lst, dct; plus a chain and some ambiguous strings."""
    pairs = [['dir', '/T'], ['n', rng.choice([0, 3, 7, -2, 12])],
             ['kname', rng.choice(['kk', 'out2', 'true', '1', 'a b', '\xe9'])],
             ['s', pick(rng, AMBIG[:60] + ['v', 'text', '\u4e2d\u6587', 'caf\xe9 \u20ac'])],
             ['lst', {'l': [1, 'two', rng.choice(AMBIG[:40])]}],
             ['dct', {'d': [['in', rng.choice([1, 'x', None, True])], ['deep', {'l': ['{n}', 2]}]]}],
             ['ref', '{s}'], ['mix', 'n={n};s={s}'], ['flag', rng.choice([True, False])],
             ['nothing', None]]
    rng.shuffle(pairs)
    return pairs[:rng.randrange(6, len(pairs) + 1)] if rng.random() < 0.3 else pairs


def gen_fmt(rng, avail):
    r = rng.random()
    have = [k for k in ('n', 's', 'kname', 'lst', 'dct', 'ref', 'mix', 'flag', 'nothing') if k in avail]
    if not have or r < 0.03:
        return rng.choice(['{missing}', 'x{nope}', '{zz[0]}'])
    k = rng.choice(have)
    if r < 0.40:
        if k == 'lst' and rng.random() < 0.5:
            return '{lst[' + str(rng.randrange(3)) + ']}'
        if k == 'dct' and rng.random() < 0.5:
            return rng.choice(['{dct[in]}', '{dct[deep]}', '{dct[deep][0]}'])
        return '{' + k + '}'
    k = rng.choice([x for x in have if x in ('n', 's', 'kname', 'ref', 'mix', 'flag')] or have)
    if r < 0.7:
        return rng.choice(['pre {%s} post', '{%s}!', 'x{%s}', '{%s} ', ' {%s}', '{%s}\n', "'{%s}'",
                           '{{{%s}}}', '{%s}:{%s}']).replace('%s', k)
    if r < 0.8:
        return '{' + k + rng.choice([':>4', ':<3', '!r', '!s']) + '}'
    return rng.choice(BRACES)


SPICE = set()      # which finding-triggering string classes the current case may contain
ENCODINGS = ['utf-8', 'utf-16', 'latin-1', 'utf-8-sig']
DEFAULT_ENCODINGS = ['utf-16', 'utf-32', 'utf-8-sig', 'latin-1', 'utf-8', 'utf-16', 'utf-32']


def _l1(xs):
    out = []
    for x in xs:
        try:
            x.encode('latin-1')
            out.append(x)
        except (UnicodeEncodeError, AttributeError):
            pass
    return out


def pick(rng, xs):
    """rng.choice, restricted to latin-1 encodable strings when the case needs that."""
    if 'latin1' in SPICE:
        ys = _l1(xs)
        if ys:
            return rng.choice(ys)
    return rng.choice(xs)


def set_spice(rng, fmt):
    """Strings known not to survive ruamel (NEL, folded double-quoted) stay in the
    generator, at low frequency: ~4% / ~3% of the YAML cases, ~4% of the others."""
    keep_l1 = 'latin1' in SPICE
    SPICE.clear()
    if keep_l1:
        SPICE.add('latin1')
    r = rng.random()
    if fmt == 'yaml':
        if r < 0.04:
            SPICE.add('nel')
        elif r < 0.07:
            SPICE.add('dqfold')
    elif r < 0.04:
        SPICE.update(['nel', 'dqfold'])


def gen_str(rng, avail, fmt, p_fmt=0.3):
    r = rng.random()
    if r < p_fmt:
        return gen_fmt(rng, avail)
    if r < p_fmt + 0.10:
        return pick(rng, BRACES)
    if 'nel' in SPICE and r < p_fmt + 0.20:
        return pick(rng, NEL)
    if 'dqfold' in SPICE and r < p_fmt + 0.30:
        return pick(rng, DQFOLD)
    return pick(rng, AMBIG)


def gen_scalar(rng, avail, fmt, p_fmt=0.3):
    r = rng.random()
    if r < 0.62:
        return gen_str(rng, avail, fmt, p_fmt)
    if r < 0.78:
        return rng.choice(INTS)
    if r < 0.86:
        return rng.choice([True, False])
    if r < 0.92:
        return None if fmt != 'toml' or rng.random() < 0.08 else rng.choice([0, 'none'])
    if fmt == 'json' and rng.random() < 0.7:
        return rng.choice(INTS)        # the JSON model has no floats: keep most JSON cases inside it
    return rng.choice(NONFINITE) if rng.random() < 0.12 else rng.choice(FLOATS)


def gen_key(rng, avail, fmt, p_fmt=0.12):
    r = rng.random()
    if r < 0.55:
        return rng.choice(WORD_KEYS)
    if r < 0.55 + p_fmt:
        return rng.choice(['{kname}', 'k{n}', '{s}', '{{k}}', '{n}']) if 'kname' in avail and 'n' in avail \
            and 's' in avail else rng.choice(WORD_KEYS)
    if r < 0.55 + p_fmt + 0.07:
        return pick(rng, BRACE_KEYS)
    if r < 0.97:
        return pick(rng, ODD_KEYS)
    if 'nel' in SPICE and rng.random() < 0.5:
        return rng.choice(NEL)
    return rng.choice([1, True, None]) if rng.random() < 0.5 else rng.choice(ODD_KEYS)


def gen_tree(rng, depth, avail, fmt, p_fmt=0.3, root=False):
    r = rng.random()
    if not root and (depth <= 0 or r < 0.35):
        return gen_scalar(rng, avail, fmt, p_fmt)
    n = rng.choice([0, 1, 1, 2, 2, 3, 4])
    if root and n == 0 and rng.random() < 0.8:
        n = rng.choice([1, 2, 3, 5])
    if r < 0.70 or root:
        seen, out = set(), []
        for _ in range(n):
            k = gen_key(rng, avail, fmt)
            if k in seen:            # Python key equality: 1 == True, 0 == False
                continue
            seen.add(k)
            out.append([k, gen_tree(rng, depth - 1, avail, fmt, p_fmt)])
        return {'d': out}
    if r < 0.97:
        return {'l': [gen_tree(rng, depth - 1, avail, fmt, p_fmt) for _ in range(n)]}
    if r < 0.99:
        return {'t': [gen_tree(rng, depth - 1, avail, fmt, p_fmt) for _ in range(n)]}
    return {'s': sorted(set(rng.choice([1, 2, 3]) for _ in range(n)))}


def gen_payload(rng, avail, fmt):
    r = rng.random()
    if r < 0.80:
        return gen_tree(rng, rng.choice([1, 2, 2, 3, 4]), avail, fmt, root=True)
    if r < 0.88:
        return {'l': [gen_tree(rng, 2, avail, fmt) for _ in range(rng.randrange(0, 4))]}
    if r < 0.92:
        return rng.choice(AMBIG)
    if r < 0.95:
        return rng.choice([5, 0, True, False, None, {'f': [3, 2]}])
    if r < 0.97:
        return gen_fmt(rng, avail)         # '{dct}' etc: the payload IS a reference
    return {'d': []}


def gen_wf(rng, fmt):
    SPICE.discard('latin1')
    enc = rng.choice([None, None, None, None, 'utf-8', 'utf-16', 'utf-8-sig', 'latin-1']) if fmt != 'toml' else None
    # pypyr's configured default encoding (config.default_encoding), varied per case
    denc = rng.choice(DEFAULT_ENCODINGS) if rng.random() < 0.3 else None
    if 'latin-1' in (enc, denc) and rng.random() < 0.9:
        SPICE.add('latin1')
    set_spice(rng, fmt)
    ctx = gen_ctx(rng)
    avail = [k for k, _ in ctx]
    ext = {'json': 'json', 'yaml': 'yaml', 'toml': 'toml'}[fmt]
    case = {'kind': 'wf', 'fmt': fmt, 'ctx': ctx}
    case['path'] = rng.choice(['{dir}/o.' + ext, '/T/o.' + ext, '{dir}/sub/deep/o.' + ext,
                               '/T/o {n}.' + ext if 'n' in avail else '/T/o.' + ext])
    if 'dir' not in avail:
        case['path'] = '/T/o.' + ext
    r = rng.random()
    if r < 0.90:
        case['payload'] = gen_payload(rng, avail, fmt)
    else:
        # no payload -> the whole (formatted) context is written: its ROOT keys are string
        # nodes too, so give it root keys with expressions / brace escapes
        if rng.random() < 0.8:
            have = set(avail)
            for _ in range(rng.randrange(1, 4)):
                k = pick(rng, ROOT_BRACE_KEYS)
                if k not in have and ('{n}' not in k or 'n' in have) and ('{kname}' not in k or 'kname' in have):
                    have.add(k)
                    ctx.insert(rng.randrange(len(ctx) + 1),
                               [k, rng.choice([1, 'v', 'x {{y}}', True, {'l': [1, 'a }} b']},
                                               {'d': [['in{{ner', 'z']]}])])
        if fmt == 'toml':
            # a TOML document has no null: keep the dumped context free of None
            ctx[:] = [[k, v] for k, v in ctx if v is not None]
            for kv in ctx:
                if kv[0] == 'dct':
                    kv[1] = {'d': [['in', 1], ['deep', {'l': ['{n}', 2]}]]}
    r = rng.random()
    if r < 0.45:
        case['key'] = 'out'
    elif r < 0.55:
        case['key'] = rng.choice(['{kname}', 'res{n}']) if 'kname' in avail and 'n' in avail else 'out'
    elif r < 0.62:
        case['key'] = rng.choice(['', 0, None, 'n', 'a b', 7])
    # else: no key -> merge at root
    if rng.random() < (0.4 if denc else 0.12):
        case['fetch_form'] = 'str'          # the bare-string input form: just the path
        case.pop('key', None)
    if denc:
        case['default_enc'] = denc
    if fmt != 'toml':
        case['enc'] = enc
    # history: an EARLIER, unrelated document is fetched in the same process first
    if rng.random() < (0.10 if fmt == 'yaml' else 0.03):
        case['pre'] = [rng.choice(PRE_DOCS[fmt]) for _ in range(rng.choice([1, 1, 2]))]
        if fmt == 'yaml' and 'payload' in case and isinstance(case['payload'], dict) and 'd' in case['payload']:
            have = {k for k, _ in case['payload']['d'] if isinstance(k, (str, int, type(None)))}
            for i in range(rng.randrange(1, 5)):
                k = rng.choice(['answer', 'switch', 'ratio', 'mode', rng.choice(YAML11)])
                if k not in have:
                    have.add(k)
                    v = rng.choice(YAML11)
                    case['payload']['d'].append([k, v if rng.random() < 0.7 else {'l': [v, rng.choice(YAML11)]}])
    case['parser'] = rng.random() < 0.5
    if case.get('enc') and case['enc'] != (denc or 'utf-8'):
        # the context parsers and a path-only fetch input cannot name an encoding: they read
        # with the configured default, so only a file written in that default is theirs
        case['parser'] = False
        if case.get('fetch_form') == 'str':
            case['enc'] = None
    r = rng.random()
    if r < 0.015:
        case['path'] = None
    elif r < 0.03:
        case['drop_write_key'] = True
        case['no_write'] = False
    elif r < 0.045:
        case['no_write'] = True
    elif r < 0.055:
        case['write_none'] = True
    elif r < 0.07:
        case['fetch_path'] = '/T/absent.' + ext
    return case


HAND_TEXTS = {
    'json': ['{"a": "{n}", "b": [1, 2.5, 1e3, -0.0, true, null]}', '["\\u00e9\\ud83d\\ude00", "\\/", "{s}"]',
             '  {"k{n}"  :  "x"  }  ', '{"a": "{n}", "a": "{s}"}', '"{n}"', '7', 'null', '[]', '{}',
             '{"a": NaN, "b": Infinity}', '{"a": 1,}', '[1 2]', '', '{"a": "\\ud800"}', '{"t": "a\tb"}',
             '{"nested": {"l": [[["{n}"]]]}}', '\ufeff{"a": 1}'],
    'yaml': ['# comment\na: "{n}"  # trailing\nb:\n  - "{s}"\n  - plain {n}\n', 'a: |\n  line {n}\n  two\nb: >\n  folded\n  {s}\n',
             'x: &anc\n  k: "{n}"\ny: *anc\n', '{a: "{n}", b: [1, "{s}"]}\n', '- "{n}"\n- k: v\n', '"{n}"\n', '7\n',
             'a: 2001-12-14\nb: 0x1F\nc: 1_000\nd: !!str 5\n', 'a: b: c\n', '? [1, 2]\n: x\n', '--- \na: 1\n--- \nb: 2\n',
             '"{kname}": 1\n{s}: 2\n', 'a: ~\nb: null\nc: \n', '%YAML 1.1\n---\na: yes\nb: "{n}"\n'],
    'toml': ['a = "{n}"\n[t]\nb = ["{s}", "x"]\n', '"k{n}" = 1\n[a.b]\nc = "{s}"\n', 'p = { x = "{n}", y = 2 }\n',
             'd = 2001-12-14\ns = "{n}"\n', 'a = 1\na = 2\n', '[[arr]]\nv = "{n}"\n[[arr]]\nv = "{s}"\n',
             'm = """\nmulti {n}\nline"""\n', "lit = '{n}'\n", '', '# only a comment\n', 'f = 1.5\ni = 0x1F\nb = true\n'],
}


def gen_ff_enc(rng):
    """encoding / encodingIn / encodingOut for fileFormatJson / fileFormatYaml: absent,
    one default for both, or separate (equal or different) in / out encodings, optionally
    with a default that the missing one falls back to."""
    r = rng.random()
    if r < 0.25:
        return {}
    if r < 0.45:
        return {'enc': rng.choice(ENCODINGS)}
    e = {}
    r = rng.random()
    if r < 0.25:
        e['enc_in'] = rng.choice(ENCODINGS)
    elif r < 0.5:
        e['enc_out'] = rng.choice(ENCODINGS)
    else:
        e['enc_in'] = rng.choice(ENCODINGS)
        e['enc_out'] = e['enc_in'] if rng.random() < 0.25 else rng.choice(ENCODINGS)
    if rng.random() < 0.3:
        e['enc'] = rng.choice(ENCODINGS)
    return e


def gen_ff(rng, fmt):
    SPICE.discard('latin1')
    encs = gen_ff_enc(rng) if fmt != 'toml' else {}
    if rng.random() < (0.25 if fmt != 'toml' else 0.03):
        # (toml at low frequency only: known finding toml-fileformat-default-encoding)
        encs['default_enc'] = rng.choice(DEFAULT_ENCODINGS)
    if 'latin-1' in encs.values() and rng.random() < 0.9:
        SPICE.add('latin1')
    set_spice(rng, fmt)
    ctx = gen_ctx(rng)
    avail = [k for k, _ in ctx]
    ext = fmt
    case = {'kind': 'ff', 'fmt': fmt, 'ctx': ctx}
    indir = rng.choice(['/T', '/T/src'])
    case['in_real'] = f'{indir}/in.{ext}'
    case['in'] = case['in_real'] if rng.random() < 0.5 or 'dir' not in avail else \
        case['in_real'].replace('/T', '{dir}', 1)
    r = rng.random()
    if r < 0.5:
        case['out'] = None
    elif r < 0.6:
        case['out'] = case['in']                # same file: routed to the in-place path
        case['out_real'] = case['in_real']
    else:
        case['out_real'] = rng.choice([f'/T/out.{ext}', f'/T/made/here/out.{ext}'])
        case['out'] = case['out_real'] if rng.random() < 0.5 or 'dir' not in avail else \
            case['out_real'].replace('/T', '{dir}', 1)
    case.update(encs)
    r = rng.random()
    if r < 0.12:
        case['text'] = rng.choice(HAND_TEXTS[fmt])
        if case['text'].startswith('\ufeff') or 'latin1' in SPICE:
            for k in ('enc', 'enc_in', 'enc_out', 'default_enc'):
                case.pop(k, None)
    else:
        dfmt = fmt
        doc = gen_tree(rng, rng.choice([1, 2, 3, 4]), avail, dfmt, p_fmt=0.4, root=(fmt == 'toml' or rng.random() < 0.8))
        case['doc'] = sanitize_doc(doc, fmt)
        if fmt == 'json':
            case['style'] = {'indent': rng.choice([2, 2, 'none', 0, 4, 1]),
                             'seps': rng.choice([None, None, [',', ':'], [' , ', ' : '], [',\n', ':\t']]),
                             'ascii': rng.random() < 0.3,
                             'lead': rng.choice(['', '', '\n', '  ', '\t\r\n']),
                             'trail': rng.choice(['', '', '\n', ' \n ', '\r\n'])}
        elif fmt == 'yaml':
            case['style'] = {'dumper': rng.choice(['rt', 'rt', 'safe', 'safe-flow', 'safe-block']),
                             'width': rng.choice([None, None, 40, 200]),
                             'lead': rng.choice(['', '', '# header comment\n', '---\n'])}
        else:
            case['style'] = {'multiline': rng.random() < 0.3,
                             'lead': rng.choice(['', '', '# c\n', '\n'])}
    if rng.random() < 0.02:
        case['no_infile'] = True
    return case


def sanitize_doc(v, fmt):
    """Make a generated tree writable as an INPUT document of the format (the input file
    has to exist before the step runs): no tuples/sets, str keys, toml: no None."""
    if isinstance(v, dict):
        if 'l' in v or 't' in v or 's' in v:
            xs = v.get('l') or v.get('t') or v.get('s') or []
            return {'l': [sanitize_doc(x, fmt) for x in xs]}
        if 'd' in v:
            out, seen = [], set()
            for k, x in v['d']:
                if not isinstance(k, str):
                    k = 'k' + str(k)
                if k in seen:
                    continue
                seen.add(k)
                out.append([k, sanitize_doc(x, fmt)])
            return {'d': out}
        if 'fx' in v and fmt == 'json':
            return {'f': [3, 2]}
        return v
    if v is None and fmt == 'toml':
        return 'none'
    return v


def generate(rng, n):
    cases = []
    for i in range(n):
        fmt = ('json', 'yaml', 'toml')[i % 3]
        if rng.random() < 0.64:
            cases.append(gen_wf(rng, fmt))
        else:
            cases.append(gen_ff(rng, fmt))
    return cases
