"""Generic check driver shared by every property.

A property module (harness/props/Cxx.py) defines a class `Prop` with:

  id                 'C18'
  coq_imports        ['PV.Model.Parsers', ...]       modules the case shards import
  props_file         'theories/Props/C18.v'
  n_cases            {'quick': 1500, 'thorough': 50000}
  parallel           True/False  (run implementation cases in a process pool)
  generate(rng, n, tier) -> list of JSON-able cases
  run_impl(case)     -> JSON-able canonical observation of the REAL code in /repo
  coq_check(case, obs) -> Coq term of type nat: 0 = model agrees with obs,
                          1 = disagrees, 2 = case outside the modelled fragment
  coq_model_obs(case) -> (optional) Coq term whose vm_compute value is shown in replays
  monitor(case, obs) -> list of dicts {clause, message, fingerprint}: violations of the
                        property STATEMENT visible in the implementation's observation
  nontrivial(case, obs) -> bool
  describe(case)     -> short feature tags for the generator distribution (list[str])
  trusted_base       list[str]
  widen(rng, case)   -> (optional) list of mutated neighbours of a mismatching case
"""
import hashlib
import json
import multiprocessing
import os
import random
import re
import subprocess
import sys
import time
from collections import Counter
from pathlib import Path

VERIF = Path(__file__).resolve().parent.parent
COQ = VERIF / 'coq'
CASES = COQ / 'cases'
EVIDENCE = VERIF / 'evidence'
REPLAYS = VERIF / 'replays'
CORPUS = VERIF / 'corpus'
KNOWN = VERIF / 'known_findings.json'
SHARD = 300
FORBIDDEN = re.compile(
    r'\b(Admitted|admit|Axiom|Axioms|Parameter|Parameters|Conjecture|Hypothesis|Variable)\b'
    r'|Unset\s+Guard|bypass_check|type-in-type|impredicative-set|Admit\s+Obligations')

COMMON_TRUSTED = [
    'Coq 8.16.1 kernel and its vm_compute evaluator (no native_compute); full .vo build, no -vos',
    'no axioms declared; Print Assumptions output of every property theorem is recorded below',
    'the harness: case generators, canonicaliser, Python->Coq term printer (harness/pv.py), monitors',
    'hand-written Gallina model tied to /repo only by the correspondence check over the generated cases',
]


def sh(cmd, timeout=900, cwd=None):
    p = subprocess.run(cmd, shell=True, cwd=cwd, stdout=subprocess.PIPE,
                       stderr=subprocess.STDOUT, text=True, timeout=timeout)
    return p.returncode, p.stdout


# ------------------------------------------------------------------ proofs

def ensure_makefile():
    if not (COQ / 'Makefile').exists():
        rc, out = sh('flock .build.lock coq_makefile -f _CoqProject -o Makefile', cwd=COQ)
        if rc:
            raise RuntimeError(out)


def scan_forbidden():
    """Grep the whole development for anything that declares an axiom or weakens the kernel.
    `Variable`/`Hypothesis` are allowed only inside a Section (checked textually)."""
    hits = []
    for f in sorted((COQ / 'theories').rglob('*.v')):
        depth = 0
        in_comment = 0
        for i, line in enumerate(f.read_text().splitlines(), 1):
            code = strip_comments(line)
            if re.match(r'\s*Section\b', code):
                depth += 1
            if re.match(r'\s*End\b', code) and depth > 0:
                depth -= 1
            for m in FORBIDDEN.finditer(code):
                w = m.group(0)
                if w in ('Variable', 'Hypothesis') and depth > 0:
                    continue
                hits.append(f'{f.relative_to(COQ)}:{i}: {w}')
    return hits


def strip_comments(line):
    # good enough for one-line comments; multi-line comment text is prose we do not
    # want to scan either, but being conservative (scanning it) is fail-safe.
    return re.sub(r'\(\*.*?\*\)', '', line)


def run_coqchk(prop):
    """independent re-check of the compiled property file and everything it depends on."""
    mod = 'PV.' + prop.props_file[len('theories/'):-2].replace('/', '.')
    t0 = time.time()
    try:
        rc, out = sh(f'timeout 1500 coqchk -silent -o -Q theories PV {mod}', timeout=1600, cwd=COQ)
    except subprocess.TimeoutExpired:
        return dict(ok=False, rc=-1, summary='coqchk timed out', wall=time.time() - t0)
    summ = out[out.find('CONTEXT SUMMARY'):][:1500] if 'CONTEXT SUMMARY' in out else out[-1500:]
    ok = rc == 0 and 'Axioms: <none>' in out
    return dict(ok=ok, rc=rc, summary=summ, wall=round(time.time() - t0, 1),
                cmd=f'cd coq && coqchk -silent -o -Q theories PV {mod}')


def build_proofs(prop, jobs=16):
    """Full .vo build of the property's Props file (and everything it depends on).
    Returns dict(ok, theorems, closed, assumptions_raw, log, cmd)."""
    ensure_makefile()
    target = prop.props_file[:-2] + '.vo'
    (COQ / target).unlink(missing_ok=True)
    # the modules the case shards import must be rebuilt too (they need not be dependencies of Props)
    for m in getattr(prop, 'coq_imports', []):
        target += ' theories/' + (m[3:] if m.startswith('PV.') else m).replace('.', '/') + '.vo'
    # Tie B: regenerate Gen/Leaves.v and Gen/Control.v from the current source (under the same lock as the build)
    cmd = (f"flock .build.lock sh -c 'for t in ../tools/py2coq*.py; do /venv/bin/python $t >/dev/null; done; "
           f"timeout 1500 make -j{jobs} {target}'")
    t0 = time.time()
    rc, out = sh(cmd, timeout=1600, cwd=COQ)
    src = (COQ / prop.props_file).read_text()
    theorems = re.findall(r'^\s*Theorem\s+(\w+)', src, flags=re.M)
    printed = re.findall(r'^\s*Print Assumptions\s+(\w+)', src, flags=re.M)
    closed = out.count('Closed under the global context')
    axioms = re.findall(r'^Axioms:\n((?:.+\n)+)', out, flags=re.M)
    forbidden = scan_forbidden()
    ok = (rc == 0 and not forbidden and set(theorems) <= set(printed))
    return dict(ok=ok, rc=rc, theorems=theorems, printed=printed, closed=closed,
                axioms=axioms, forbidden=forbidden, log=out[-4000:], cmd=f'cd coq && {cmd}',
                wall=time.time() - t0)


# ------------------------------------------------------------------ Coq case evaluation

def write_shard(prop, tag, k, items):
    """items: list of (index, coq_term)."""
    lines = [f'From PV Require Import {m}.' for m in prop.coq_imports_short()]
    lines += ['From Coq Require Import List String ZArith QArith.', 'Import ListNotations.',
              'Open Scope string_scope.', 'Set Printing Width 1000000.', '']
    for idx, term in items:
        lines.append(f'Definition c{idx} : nat := {term}.')
    pairs = '; '.join(f'({idx}%nat, c{idx})' for idx, _ in items)
    lines.append(f'Definition all : list (nat * nat) := [{pairs}].')
    lines.append('Eval vm_compute in (filter (fun p => negb (Nat.eqb (snd p) 0%nat)) all).')
    path = CASES / f'{tag}_{k}.v'
    path.write_text('\n'.join(lines) + '\n')
    return path


def eval_in_coq(prop, tag, terms, jobs=16):
    """terms: list of (index, coq_term). Returns dict index -> code (1 mismatch / 2 unsup),
    absent = 0 (agrees). Raises RuntimeError when a shard does not compile."""
    CASES.mkdir(exist_ok=True)
    for old in CASES.glob(f'{tag}_*'):
        old.unlink()
    for old in CASES.glob(f'.{tag}_*'):
        old.unlink()
    shards = []
    for k in range(0, len(terms), SHARD):
        shards.append(write_shard(prop, tag, k // SHARD, terms[k:k + SHARD]))
    if not shards:
        return {}
    names = ' '.join(p.name for p in shards)
    cmd = (f"printf '%s\\n' {names} | xargs -P{jobs} -I@ sh -c "
           f"'timeout 900 coqc -Q ../theories PV @ > @.out 2>&1 || echo FAIL >> @.out'")
    sh(cmd, timeout=3600, cwd=CASES)
    result = {}
    for p in shards:
        out = Path(str(p) + '.out').read_text()
        if 'FAIL' in out or 'Error' in out:
            raise RuntimeError(f'case shard {p.name} failed to evaluate:\n{out[-3000:]}')
        for m in re.finditer(r'\(\s*(\d+)(?:%nat)?\s*,\s*(\d+)(?:%nat)?\s*\)', out):
            result[int(m.group(1))] = int(m.group(2))
    for old in list(CASES.glob(f'{tag}_*')) + list(CASES.glob(f'.{tag}_*')):
        old.unlink()
    return result


def eval_terms_show(prop, tag, named_terms):
    """Evaluate arbitrary terms and return Coq's printed values (for replay files)."""
    CASES.mkdir(exist_ok=True)
    lines = [f'From PV Require Import {m}.' for m in prop.coq_imports_short()]
    lines += ['From Coq Require Import List String ZArith QArith.', 'Import ListNotations.',
              'Open Scope string_scope.', '']
    for name, term in named_terms:
        lines.append(f'Eval vm_compute in ({term}).')
    p = CASES / f'{tag}_show.v'
    p.write_text('\n'.join(lines) + '\n')
    rc, out = sh(f'timeout 300 coqc -Q ../theories PV {p.name}', cwd=CASES)
    for old in list(CASES.glob(f'{tag}_show*')) + list(CASES.glob(f'.{tag}_show*')):
        old.unlink()
    chunks = re.split(r'^\s*= ', out, flags=re.M)[1:]
    return {name: chunk.strip()[:4000] for (name, _), chunk in zip(named_terms, chunks)} or {'raw': out[-2000:]}


# ------------------------------------------------------------------ implementation runs

_PROP = None


def _init_worker(modname):
    global _PROP
    import importlib
    _PROP = importlib.import_module(modname).Prop()


class CaseTimeout(BaseException):
    pass


def _alarm(signum, frame):
    raise CaseTimeout('implementation run exceeded the per-case time limit')


def _run_one(case):
    import signal
    limit = int(getattr(_PROP, 'case_timeout', 120))
    old = None
    try:
        old = signal.signal(signal.SIGALRM, _alarm)
        signal.alarm(limit)
    except ValueError:
        old = None   # not in the main thread of this process
    try:
        return _PROP.run_impl(case)
    except CaseTimeout:
        return {'__timeout__': True}
    except BaseException as e:  # harness failure, not an observation
        import traceback
        return {'__harness_error__': f'{type(e).__name__}: {e}', 'tb': traceback.format_exc()[-1500:]}
    finally:
        if old is not None:
            signal.alarm(0)
            signal.signal(signal.SIGALRM, old)


def run_impl_all(prop, modname, cases, jobs=16):
    if getattr(prop, 'parallel', True) and len(cases) > 8:
        ctx = multiprocessing.get_context('fork')
        with ctx.Pool(jobs, initializer=_init_worker, initargs=(modname,)) as pool:
            return pool.map(_run_one, cases, chunksize=max(1, len(cases) // (jobs * 8)))
    global _PROP
    _PROP = prop
    return [_run_one(c) for c in cases]


# ------------------------------------------------------------------ known findings

def load_known(pid):
    if not KNOWN.exists():
        return {}
    data = json.loads(KNOWN.read_text())
    return {f['fingerprint']: f for f in data.get('findings', []) if f['property'] == pid}


# ------------------------------------------------------------------ main driver

def case_hash(case):
    return hashlib.sha1(json.dumps(case, sort_keys=True).encode()).hexdigest()[:12]


def load_corpus(pid):
    d = CORPUS / pid
    out = []
    if d.is_dir():
        for f in sorted(d.glob('*.json')):
            out.append(json.loads(f.read_text()))
    return out


def write_replay(pid, name, payload):
    REPLAYS.mkdir(exist_ok=True)
    path = REPLAYS / f'{pid}-{name}.json'
    path.write_text(json.dumps(payload, indent=1, default=str))
    return path


def write_evidence(pid, ev, scratch=False):
    """evidence/<id>.json is rewritten by every registered run (quick / thorough on /repo); self-test runs
    (--skip-proofs, --n, --replay, VERIF_REPO pointing at a scratch copy) write to evidence/scratch/ so that
    they never replace the record of a real run."""
    d = EVIDENCE / 'scratch' if scratch else EVIDENCE
    d.mkdir(parents=True, exist_ok=True)
    (d / f'{pid}.json').write_text(json.dumps(ev, indent=1, default=str))


def check_batch(prop, modname, tag, cases, jobs):
    """Run impl + monitors + Coq correspondence over cases.
    Returns (obs list, monitor failures [(i, failure)], mismatches [i], unsup [i])."""
    obs = run_impl_all(prop, modname, cases, jobs)
    herr = [(i, o) for i, o in enumerate(obs) if isinstance(o, dict) and '__harness_error__' in o]
    if herr:
        i, o = herr[0]
        raise RuntimeError(f'harness error on case {i}: {o["__harness_error__"]}\n{o.get("tb")}\n'
                           f'case={json.dumps(cases[i])[:2000]}')
    failures = []
    beyond_fuel = []
    for i, (c, o) in enumerate(zip(cases, obs)):
        if isinstance(o, dict) and o.get('__timeout__'):
            # a time-out counts only when the model says the run is a short one: a case whose loops
            # outgrow the model's own fuel (e.g. a loop bound that the body keeps raising) is outside
            # the model, and merely slow
            if hasattr(prop, 'coq_model_obs'):
                try:
                    shown = eval_terms_show(prop, f'{tag}_to{i}', [('m', prop.coq_model_obs(c))]).get('m', '')
                except Exception:  # noqa
                    shown = ''
                if shown.lstrip('( \n').startswith('OUnsup'):
                    beyond_fuel.append(i)
                    continue
            failures.append((i, fail('implementation-timeout',
                                     'the implementation did not finish this (terminating by construction) case '
                                     'within the per-case time limit')))
            continue
        for f in prop.monitor(c, o):
            failures.append((i, f))
    terms = [(i, prop.coq_check(c, o)) for i, (c, o) in enumerate(zip(cases, obs))
             if not (isinstance(o, dict) and o.get('__timeout__'))]
    codes = eval_in_coq(prop, tag, terms, jobs)
    mism = sorted(i for i, c in codes.items() if c == 1)
    unsup = sorted([i for i, c in codes.items() if c == 2] + beyond_fuel)
    other = sorted(i for i, c in codes.items() if c not in (1, 2))
    return obs, failures, mism + other, unsup


def run_check(modname, argv):
    import importlib
    import argparse
    ap = argparse.ArgumentParser()
    ap.add_argument('--tier', default=os.environ.get('VERIF_TIER', 'quick'))
    ap.add_argument('--replay')
    ap.add_argument('--n', type=int)
    ap.add_argument('--jobs', type=int, default=16)
    ap.add_argument('--skip-proofs', action='store_true', help='debug only')
    args = ap.parse_args(argv)
    tier = 'thorough' if args.tier.startswith('t') else 'quick'
    seed = int(os.environ.get('VERIF_SEED', '0') or 0)
    prop = importlib.import_module(modname).Prop()
    pid = prop.id
    t0 = time.time()

    if args.replay:
        return do_replay(prop, modname, args.replay)

    known = load_known(pid)
    rng = random.Random(f'{pid}-{seed}-{tier}')

    # 1. proofs
    if args.skip_proofs:
        proofs = dict(ok=True, theorems=[], printed=[], closed=0, axioms=[], forbidden=[],
                      log='', cmd='(skipped)', rc=0, wall=0)
    else:
        proofs = build_proofs(prop, args.jobs)
        if tier == 'thorough' and proofs['ok']:
            chk = run_coqchk(prop)
            proofs['coqchk'] = chk
            if not chk['ok']:
                proofs['ok'] = False
                proofs['log'] += '\ncoqchk: ' + chk['summary']

    # 2. cases: corpus first, then generated
    n = args.n or prop.n_cases[tier]
    corpus = load_corpus(pid)
    cases = corpus + prop.generate(rng, n, tier)

    # 3. implementation, monitors, correspondence
    corr_error = None
    try:
        obs, failures, mism, unsup = check_batch(prop, modname, f'{pid}_{os.getpid()}', cases, args.jobs)
    except RuntimeError as e:
        if 'failed to evaluate' in str(e) and not proofs['ok']:
            # the model itself does not build: correspondence cannot be evaluated
            obs = run_impl_all(prop, modname, cases, args.jobs)
            failures = [(i, f) for i, (c, o) in enumerate(zip(cases, obs)) for f in prop.monitor(c, o)]
            mism, unsup = [], []
            corr_error = str(e)[-1500:]
        else:
            raise

    # 4. when a proof or the correspondence broke and no monitor fired: widened search
    widened = 0
    if (not proofs['ok'] or mism) and not [f for _, f in failures if f['fingerprint'] not in known]:
        extra = []
        if hasattr(prop, 'widen'):
            for i in mism[:20]:
                extra += prop.widen(rng, cases[i])
        extra += prop.generate(rng, min(4 * n, 6000), "thorough")
        widened = len(extra)
        obs2 = run_impl_all(prop, modname, extra, args.jobs)
        for j, (c, o) in enumerate(zip(extra, obs2)):
            if isinstance(o, dict) and ('__harness_error__' in o or o.get('__timeout__')):
                continue
            for f in prop.monitor(c, o):
                cases.append(c)
                obs.append(o)
                failures.append((len(cases) - 1, f))

    # 5. verdict
    lines = []
    exit_code = 0
    new_fail = [(i, f) for i, f in failures if f['fingerprint'] not in known]
    seen_known = Counter(f['fingerprint'] for i, f in failures if f['fingerprint'] in known)
    for fp, cnt in seen_known.items():
        lines.append(f'KNOWN-FINDING: property={pid} {known[fp]["what"]} [{fp}; seen in {cnt} cases]')
    replay_paths = []
    if new_fail:
        exit_code = 1
        by_fp = {}
        for i, f in new_fail:
            by_fp.setdefault(f['fingerprint'], []).append((i, f))
        for fp, lst in by_fp.items():
            i, f = min(lst, key=lambda t: len(json.dumps(cases[t[0]])))
            case = cases[i]
            if hasattr(prop, 'shrink'):
                case, o = prop.shrink(case, fp)
            else:
                o = obs[i]
            path = write_replay(pid, f'{fp}-{case_hash(case)}', dict(
                property=pid, kind='counterexample', seed=seed, tier=tier, case=case,
                impl_observation=o, monitor=f, count=len(lst),
                replay_cmd=f'./check {pid} --replay replays/{pid}-{fp}-{case_hash(case)}.json'))
            replay_paths.append(str(path))
            lines.append(f'VIOLATION property={pid} replay={path}')
    elif not proofs['ok'] or mism or corr_error:
        exit_code = 1
        payload = dict(property=pid, seed=seed, tier=tier, widened_search_cases=widened)
        if not proofs['ok']:
            payload.update(kind='broken-proof', theorem_file=prop.props_file,
                           make_rc=proofs['rc'], forbidden=proofs['forbidden'],
                           log_tail=proofs['log'][-3000:])
            name = 'broken-proof'
        else:
            name = 'broken-correspondence'
            i = mism[0] if mism else None
            payload.update(kind='broken-correspondence', mismatching_cases=len(mism),
                           correspondence=f'{prop.coq_imports[-1]} vs /repo on generated cases',
                           error=corr_error)
            if i is not None:
                payload.update(case=cases[i], impl_observation=obs[i])
                if hasattr(prop, 'coq_model_obs'):
                    try:
                        payload['model_observation'] = eval_terms_show(
                            prop, f'{pid}_{os.getpid()}', [('model', prop.coq_model_obs(cases[i]))])
                    except Exception as e:  # noqa
                        payload['model_observation'] = f'(unavailable: {e})'
                payload['other_mismatching_cases'] = [cases[j] for j in mism[1:6]]
        path = write_replay(pid, name, payload)
        replay_paths.append(str(path))
        lines.append(f'VIOLATION property={pid} replay={path} no-failing-input-found')

    # 6. evidence
    nontriv = set()
    dist = Counter()
    for c, o in zip(cases, obs):
        if isinstance(o, dict) and o.get('__timeout__'):
            dist['implementation-timeout'] += 1
            continue
        for tg in prop.describe(c, o):
            dist[tg] += 1
        if prop.nontrivial(c, o):
            nontriv.add(case_hash(c))
    samples = []
    for c, o in list(zip(cases, obs))[len(corpus):len(corpus) + 3]:
        samples.append({'case': c, 'impl_observation': o})
    n_thm = len(proofs['theorems'])
    ev = {
        'property_id': pid, 'tier': tier, 'seed': seed, 'level': 'proof',
        'coverage': {
            'obligations': max(n_thm, 1) if proofs['theorems'] else 1,
            'discharged': (n_thm if proofs['ok'] else 0) or (1 if args.skip_proofs else 0),
            'checker_cmd': proofs['cmd'],
            'trusted_base': COMMON_TRUSTED + list(prop.trusted_base),
            'theorems': proofs['theorems'],
            'print_assumptions_closed': proofs['closed'],
            'print_assumptions_axioms': proofs['axioms'],
            'coqchk': proofs.get('coqchk', 'not run in the quick tier'),
            'evaluations': len(cases),
            'distinct_nontrivial': len(nontriv),
            'rule': prop.rule,
            'samples': samples or [{'note': 'no cases'}],
            'corpus_cases': len(corpus),
            'generator_distribution': dict(dist.most_common(60)),
            'model_unsupported_or_out_of_fuel': len(unsup),
            'model_vs_impl_mismatches': len(mism),
            'monitor_failures': len(failures),
            'known_findings_seen': dict(seen_known),
            'widened_search_cases': widened,
            'replays': replay_paths,
        },
        'assumptions': list(prop.trusted_base),
        'wall_s': round(time.time() - t0, 2),
        'violations': len(new_fail) if new_fail else (1 if exit_code else 0),
    }
    if not proofs['ok']:
        ev['coverage']['proof_log_tail'] = proofs['log'][-1500:]
    write_evidence(pid, ev, scratch=bool(args.skip_proofs or getattr(args, 'n', None)
                                         or os.environ.get('VERIF_REPO', '/repo') != '/repo'))
    for ln in lines:
        print(ln)
    print(f'[{pid}] tier={tier} seed={seed} theorems={n_thm} proofs_ok={proofs["ok"]} '
          f'cases={len(cases)} nontrivial={len(nontriv)} unsup={len(unsup)} mismatches={len(mism)} '
          f'monitor_failures={len(failures)} known={sum(seen_known.values())} '
          f'wall={time.time() - t0:.1f}s exit={exit_code}')
    return exit_code


def do_replay(prop, modname, path):
    data = json.loads(Path(path).read_text())
    case = data.get('case')
    if case is None:
        print(json.dumps(data, indent=1)[:3000])
        return 1
    global _PROP
    _PROP = prop
    o = _run_one(case)
    fails = prop.monitor(case, o) if '__harness_error__' not in o else []
    print('case:', json.dumps(case)[:3000])
    print('impl_observation:', json.dumps(o, default=str)[:3000])
    if hasattr(prop, 'coq_model_obs'):
        print('model_observation:', eval_terms_show(prop, prop.id, [('model', prop.coq_model_obs(case))]))
    codes = eval_in_coq(prop, prop.id + 'r', [(0, prop.coq_check(case, o))], 1)
    print('model_agrees:', codes.get(0, 0) == 0, '(code', codes.get(0, 0), ')')
    for f in fails:
        print('MONITOR:', f)
    return 1 if fails or codes.get(0, 0) == 1 else 0


class PropBase:
    parallel = True
    trusted_base = []
    rule = ''
    n_cases = {'quick': 500, 'thorough': 10000}

    def coq_imports_short(self):
        return [m[3:] if m.startswith('PV.') else m for m in self.coq_imports]

    def describe(self, case, obs):
        return []

    def nontrivial(self, case, obs):
        return True

    def monitor(self, case, obs):
        return []


def fail(clause, message, fingerprint=None):
    return {'clause': clause, 'message': message, 'fingerprint': fingerprint or clause}
