"""C13 monitors: violations of the property STATEMENT that are visible in the event list
observed on the real caches.  Nothing here consults the Coq model.

An *item* is a distinct request (parent, name), "no parent" (None / '') normalised.
Events (oldest first): ['_begin', t, req] ['call', t, req] ['created', t, req, o]
['failed', t, req] ['ret', t, req, o] ['raise', t, req, exc] ['clear', t] ['cleared', t]
(+ lock / dict events, ignored here).  A clear takes effect at 'clear' when the dict is
instrumented, else somewhere before 'cleared'.
"""
from core import fail


def item(req):
    parent, name = req
    return (parent or None, name)


def doc_key(req):
    """the joined-string key Loader.get_pipeline used before /repo commit 0c7650b; used ONLY to
    label a cross-talk between two requests that collide under it as the '+' collision
    (fingerprint pipeline-key-collision-plus) should it ever come back"""
    parent, name = req
    return f'{parent}+{name}' if parent else name


def ops_of(events):
    """completed / open look-ups: dicts t, req, begin, end, calls, failed, created, result."""
    cur = {}
    out = []
    for i, e in enumerate(events):
        tag, t = e[0], e[1]
        if tag == '_begin':
            cur[t] = {'t': t, 'req': e[2], 'begin': i, 'end': None, 'calls': 0, 'failed': 0,
                      'created': [], 'result': None, 'acq': None}
            out.append(cur[t])
        elif t in cur and cur[t]['end'] is None:
            op = cur[t]
            if tag == 'acq' and op['acq'] is None:
                op['acq'] = i
            elif tag == 'call':
                op['calls'] += 1
            elif tag == 'failed':
                op['failed'] += 1
            elif tag == 'created':
                op['created'].append(e[3])
            elif tag == 'ret':
                op['end'] = i
                op['result'] = ['ret', e[3]]
            elif tag == 'raise':
                op['end'] = i
                op['result'] = ['raise', e[3]]
    return out


def clear_positions(events):
    """index ranges in which a clear may have taken effect"""
    has_dict_events = any(e[0] == 'clear' for e in events)
    if has_dict_events:
        return [(i, i) for i, e in enumerate(events) if e[0] == 'clear']
    # sequential, uninstrumented: the clear happened just before 'cleared'
    return [(i, i) for i, e in enumerate(events) if e[0] == 'cleared']


def monitor_events(case, obs):
    events = obs['events']
    nc = bool(case['nc'])
    out = []
    made_for = {}      # object index -> request whose creator made it
    for e in events:
        if e[0] == 'created':
            made_for[e[3]] = e[2]
    ops = ops_of(events)
    done = [op for op in ops if op['end'] is not None]
    clears = clear_positions(events)

    def clear_between(a, b):
        return any(a <= hi and lo <= b for lo, hi in clears)

    # -- each distinct item is created at most once between clears
    if not nc:
        live = {}      # item -> 'inflight' | 'created'
        clear_tag = 'clear' if any(x[0] == 'clear' for x in events) else 'cleared'
        for i, e in enumerate(events):
            if e[0] == clear_tag:
                live = {}
            elif e[0] == 'call':
                it = item(e[2])
                if it in live:
                    out.append(fail('created-at-most-once',
                                    f'creator for {e[2]!r} invoked again (event {i}) while a previous '
                                    f'invocation is {live[it]} and no clear or failure intervened',
                                    'creator-invoked-twice'))
                live[it] = 'inflight'
            elif e[0] == 'created':
                live[item(e[2])] = 'created'
            elif e[0] == 'failed':
                live.pop(item(e[2]), None)

    # -- every caller receives that same object
    if not nc:
        for i, a in enumerate(done):
            for b in done[i + 1:]:
                if item(a['req']) != item(b['req']):
                    continue
                if a['result'][0] != 'ret' or b['result'][0] != 'ret':
                    continue
                if a['result'][1] == b['result'][1]:
                    continue
                lo = min(a['begin'], b['begin'])
                hi = max(a['end'], b['end'])
                if not clear_between(lo, hi):
                    out.append(fail('same-object',
                                    f'two look-ups of {a["req"]!r} with no clear in between got '
                                    f'objects #{a["result"][1]} and #{b["result"][1]}',
                                    'different-objects-same-epoch'))
    else:
        seen = {}
        for op in done:
            if op['result'][0] == 'ret':
                if op['result'][1] in seen:
                    out.append(fail('no-cache-recreates',
                                    f'caching disabled but {op["req"]!r} got object #{op["result"][1]} '
                                    f'already handed to an earlier look-up', 'no-cache-reused-object'))
                seen[op['result'][1]] = True
            if op['calls'] != 1:
                out.append(fail('no-cache-recreates',
                                f'caching disabled but look-up of {op["req"]!r} invoked its creator '
                                f'{op["calls"]} times', 'no-cache-creator-count'))

    # -- lock and dict instrumented: a look-up belongs to the epoch in which it took the lock (clear
    #    runs under the same lock, so every look-up is entirely before or entirely after each clear)
    if not nc:
        made_at = {e[3]: i for i, e in enumerate(events) if e[0] == 'created'}
        clear_at = [i for i, e in enumerate(events) if e[0] == 'clear']
        locked = [op for op in done if op['acq'] is not None and op['result'][0] == 'ret']
        for op in locked:
            op['epoch'] = sum(1 for c in clear_at if c < op['acq'])
            val = op['result'][1]
            if val in made_at and any(made_at[val] < c < op['acq'] for c in clear_at):
                out.append(fail('clear-recreates',
                                f'look-up of {op["req"]!r} by thread {op["t"]} took the lock after a completed '
                                f'clear and was served object #{val}, which was created before that clear',
                                'stale-object-after-clear'))
        for i, a in enumerate(locked):
            for b in locked[i + 1:]:
                if item(a['req']) == item(b['req']) and a['epoch'] == b['epoch'] \
                        and a['result'][1] != b['result'][1]:
                    out.append(fail('same-object',
                                    f'look-ups of {a["req"]!r} by threads {a["t"]} and {b["t"]} both took the '
                                    f'lock after clear #{a["epoch"]} and before the next one, yet got objects '
                                    f'#{a["result"][1]} and #{b["result"][1]}', 'different-objects-same-epoch'))

    for op in done:
        kind, val = op['result']
        # -- a creator that raises leaves nothing cached / nothing returned
        if kind == 'ret' and op['failed']:
            out.append(fail('failure-not-cached',
                            f'look-up of {op["req"]!r}: its creator raised, yet object #{val} came back',
                            'object-after-failed-creator'))
        # -- a failure is never remembered: an exception means this look-up's creator ran and raised
        if kind == 'raise' and not op['failed']:
            out.append(fail('failure-not-remembered',
                            f'look-up of {op["req"]!r} raised {val} without its creator having been '
                            f'invoked and failing in this look-up', 'failure-remembered'))
        if kind == 'ret':
            if val not in made_for:
                out.append(fail('same-object', f'look-up of {op["req"]!r} returned an object no creator made',
                                'phantom-object'))
            elif item(made_for[val]) != item(op['req']):
                other = made_for[val]
                fp = 'pipeline-key-collision-plus' if doc_key(other) == doc_key(op['req']) \
                    else 'cross-talk-between-requests'
                out.append(fail('no-cross-talk',
                                f'request {op["req"]!r} received the object created for the distinct '
                                f'request {other!r}', fp))

    # -- sequential histories: the statement read as a specification
    if len(case['progs']) == 1 and not nc:
        cached = {}
        k = 0
        for op in ops:
            # clears that completed before this look-up began
            while k < len(clears) and clears[k][1] < op['begin']:
                cached = {}
                k += 1
            if op['end'] is None:
                break
            it = item(op['req'])
            kind, val = op['result']
            if it in cached:
                if op['calls']:
                    out.append(fail('created-at-most-once', f'{op["req"]!r} is cached, creator invoked anyway',
                                    'creator-invoked-twice'))
                if kind != 'ret' or val != cached[it]:
                    out.append(fail('same-object', f'{op["req"]!r} is cached as #{cached[it]}, look-up gave '
                                                   f'{op["result"]!r}', 'different-objects-same-epoch'))
            else:
                if op['calls'] == 0:
                    holder = [r for r in cached if doc_key(r) == doc_key(op['req'])]
                    fp = 'pipeline-key-collision-plus' if holder else 'lookup-not-retried'
                    out.append(fail('retry-after-miss',
                                    f'{op["req"]!r} is not cached (never created, cleared, or its creator '
                                    f'failed) but the look-up did not invoke the creator', fp))
                if kind == 'ret' and op['created'] == [val]:
                    cached[it] = val
    # -- a look-up must complete when every thread is given enough steps
    if case.get('complete') and obs.get('unfinished'):
        out.append(fail('completes', f'threads still parked after the full schedule: {obs["unfinished"]!r}',
                        'lookup-never-completes'))
    # -- real file loader: which file did the request resolve to
    for r in (obs.get('extra') or {}).get('resolved', []):
        req, got, right, marker = r
        if not right:
            out.append(fail('no-cross-talk', f'request {req!r} resolved to {got!r} (pipeline of {marker!r})',
                            'pipeline-key-collision-plus' if '+' in ''.join(str(x) for x in req)
                            else 'wrong-pipeline-file'))
    ex = obs.get('extra') or {}
    if ex.get('builtins_ok') is False or ex.get('builtins_called_creator'):
        out.append(fail('backoff-builtins', 'built-in back-offs are not served from the cache', 'backoff-builtins'))
    if ex.get('wrapper_identity_lost'):
        out.append(fail('same-object', f'different Loader objects for {ex["wrapper_identity_lost"]!r}',
                        'different-objects-same-epoch'))
    # de-duplicate by fingerprint+message
    uniq = {}
    for f in out:
        uniq.setdefault((f['fingerprint'], f['message']), f)
    return list(uniq.values())


def monitor_syspath(case, obs):
    """add_sys_path: a directory is on sys.path at most once (unless it already was there more
    often), and a directory that does not exist is never added."""
    out = []
    # every caller gets what every other caller gets: when add_sys_path(d) returns for an existing
    # directory d - to any thread, at any point of any schedule - d is on sys.path
    for t, nm, on in obs.get('returns', []):
        if case['dirs'][nm] and not on:
            out.append(fail('sys-path-on-return',
                            f'add_sys_path({nm!r}) returned to thread {t} while the existing directory is '
                            f'not on sys.path (another thread is still inside add_sys_path for it): this '
                            f"caller's module look-up fails where the others' succeed",
                            'sys-path-missing-after-return'))
    for nm, cnt in obs['counts'].items():
        if cnt > 1:
            out.append(fail('sys-path-once', f'directory {nm!r} is on sys.path {cnt} times after concurrent '
                                             f'add_sys_path calls', 'sys-path-duplicate'))
        if cnt and not case['dirs'][nm]:
            out.append(fail('sys-path-existing-only', f'missing directory {nm!r} was added to sys.path',
                            'sys-path-missing-dir-added'))
    if case.get('complete'):
        if obs.get('unfinished'):
            out.append(fail('completes', f'threads still parked after the full schedule: {obs["unfinished"]!r}',
                            'lookup-never-completes'))
        else:
            asked = {nm for p in case['progs'] for nm in p if case['dirs'][nm]}
            for nm in asked:
                if obs['counts'][nm] == 0:
                    out.append(fail('sys-path-added', f'existing directory {nm!r} was not added to sys.path',
                                    'sys-path-not-added'))
    return out


def monitor_import(case, obs):
    """get_module layer: a look-up made while another thread is still creating (importing) the item
    waits and receives the finished item; the item is created once."""
    out = []
    for t, o in enumerate(obs['outcomes']):
        via = case['vias'][t]
        if o[0] == 'raise':
            out.append(fail('waits-for-creation',
                            f'thread {t} looked the module up via {via} while thread 0 (via {case["vias"][0]}, '
                            f'no_cache={case["nc"]}) was still importing it and got {o[1]}: {o[2]} instead of '
                            f'waiting for the finished item', 'half-made-item'))
        elif o[0] == 'ok' and not o[1]:
            out.append(fail('waits-for-creation', f'thread {t} (via {via}) received something that is not the '
                                                  f'finished module\'s attribute', 'half-made-item'))
        elif o[0] == 'hung':
            out.append(fail('completes', f'thread {t} (via {via}) never returned', 'lookup-never-completes'))
    if obs['status'] == 'ok' and obs['body_runs'] != [0]:
        out.append(fail('created-at-most-once', f'module body executed by threads {obs["body_runs"]!r}',
                        'creator-invoked-twice'))
    return out
