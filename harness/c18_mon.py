"""C18 — monitors, written from the property STATEMENT (not from the Coq model):

  * the pypyr command exits 0 exactly when the pipeline ran to completion or was ended by a
    Stop instruction, 255 with "<Type>: <message>" on stderr when any error escaped, 130 on
    keyboard interrupt;
  * pipeline name, context arguments, --groups, --success, --failure, --dir pass through
    unchanged;
  * the built-in parsers are total, deterministic, and have their documented shapes;
  * the API runs the parser unless a dict was supplied without arguments or parsing was
    explicitly disabled.

Expected values are computed here with explicit loops over the characters / tokens."""
import json
import re

import c18_run
import pv
from core import fail


# ---------------------------------------------------------------- documented parser shapes

def split_first_eq(tok):
    """key = text before the first '=', value = text after it; no '=' -> value ''."""
    for i, ch in enumerate(tok):
        if ch == '=':
            return tok[:i], tok[i + 1:], True
    return tok, '', False


def last_wins(pairs):
    """ordered (key, value) list: one entry per key at the position of its FIRST occurrence,
    carrying the value of its LAST occurrence."""
    order = []
    value = {}
    for k, v in pairs:
        if k not in value:
            order.append(k)
        value[k] = v
    return [[k, value[k]] for k in order]


def expected_parser(parser, args):
    """-> ('ok', None | ordered [[k, pv]]) | ('err', type name) | ('skip',)"""
    empty = args is None or len(args) == 0
    if parser == 'keyvaluepairs':
        if empty:
            return 'ok', None
        return 'ok', last_wins([split_first_eq(t)[:2] for t in args])
    if parser == 'dict':
        inner = [] if empty else last_wins([split_first_eq(t)[:2] for t in args])
        return 'ok', [['argDict', {'d': inner}]]
    if parser == 'list':
        return 'ok', [['argList', {'l': [] if empty else list(args)}]]
    if parser == 'string':
        text = ''
        for i, t in enumerate(args or []):
            text += (' ' if i else '') + t
        return 'ok', [['argString', text]]
    if parser == 'keys':
        if empty:
            return 'ok', None
        return 'ok', last_wins([(t, True) for t in args])
    if parser == 'argskwargs':
        if empty:
            return 'ok', [['argList', {'l': []}]]
        positional = []
        kw = []
        for t in args:
            k, v, has = split_first_eq(t)
            if has:
                kw.append((k, v))
            else:
                positional.append(t)
        return 'ok', ('argskwargs', positional, last_wins(kw))
    if parser == 'json':
        if empty:
            return 'ok', None
        text = ''
        for i, t in enumerate(args):
            text += (' ' if i else '') + t
        try:
            payload = json.loads(text)
        except ValueError:
            return 'err', 'json.decoder.JSONDecodeError'
        if not isinstance(payload, dict):
            return 'err', 'TypeError'
        return 'ok', c18_run.canon_value(payload)['d']
    return ('skip',)


def check_parser_result(parser, args, res, clause_prefix=''):
    """Compare an observed parser result ['ok', None|{'d':…}] / ['err', …] with the documented
    shape.  Returns a list of failures."""
    out = []
    exp = expected_parser(parser, args)
    if exp[0] == 'skip':
        return out
    p = clause_prefix + parser
    if exp[0] == 'err':
        if res[0] != 'err' or res[1] != exp[1]:
            out.append(fail(f'{p}-error', f'{parser}({args!r}) should raise {exp[1]}, got {res!r}'))
        return out
    if res[0] == 'err':
        out.append(fail(f'{p}-total', f'{parser}({args!r}) raised {res[1]}: {res[2]}'))
        return out
    got = res[1]
    want = exp[1]
    if want is None:
        if got is not None:
            out.append(fail(f'{p}-empty-shape', f'{parser}({args!r}) -> {got!r}, documented: None'))
        return out
    if not (isinstance(got, dict) and 'd' in got):
        out.append(fail(f'{p}-shape', f'{parser}({args!r}) -> {got!r}, not a dict'))
        return out
    items = got['d']
    if isinstance(want, tuple) and want[0] == 'argskwargs':
        _, positional, kw = want
        d = {k: v for k, v in items if isinstance(k, str)}
        if not pv.pv_equal(d.get('argList'), {'l': positional}):
            out.append(fail(f'{p}-arglist', f'argskwargs({args!r}) argList = {d.get("argList")!r}, '
                                            f'expected the {positional!r} in order'))
        for k, v in kw:
            if k != 'argList' and not pv.pv_equal(d.get(k), v):
                out.append(fail(f'{p}-kwargs', f'argskwargs({args!r})[{k!r}] = {d.get(k)!r}, expected {v!r}'))
        extra = [k for k, _ in items if k != 'argList' and k not in dict(kw)]
        if extra:
            out.append(fail(f'{p}-extra', f'argskwargs({args!r}) has unexpected keys {extra!r}'))
        return out
    if pv.pv_equal(items, want):
        return out
    # classify the difference
    gd = {json.dumps(k): v for k, v in items}
    wd = {json.dumps(k): v for k, v in want}
    if set(gd) != set(wd):
        out.append(fail(f'{p}-keys', f'{parser}({args!r}) keys {[k for k, _ in items]!r}, '
                                     f'expected {[k for k, _ in want]!r}'))
    elif any(not pv.pv_equal(gd[k], wd[k]) for k in wd):
        k = next(k for k in wd if not pv.pv_equal(gd[k], wd[k]))
        out.append(fail(f'{p}-values', f'{parser}({args!r})[{k}] = {gd[k]!r}, expected {wd[k]!r}'))
    else:
        out.append(fail(f'{p}-order', f'{parser}({args!r}) key order {[k for k, _ in items]!r}, '
                                      f'expected {[k for k, _ in want]!r}'))
    return out


def monitor_parser(case, obs):
    """total, deterministic, documented shape — and a FUNCTION of the argument list: equal
    arguments give equal results whatever was done to earlier results in between."""
    out = []
    parser, args = case['parser'], case['args']
    for nth, key in (('second', 'again'), ('third', 'third')):
        if key in obs and not pv.pv_equal(obs['res'], obs[key]):
            out.append(fail('parser-not-a-function-of-args',
                            f'{parser}({args!r}) gave {obs["res"]!r}, then — after the earlier result '
                            f'was changed in place — the {nth} call gave {obs[key]!r}'))
            break
    if not obs['args_unchanged']:
        out.append(fail('parser-mutates-args', f'{parser} changed its argument list {args!r}'))
    out += check_parser_result(parser, args, obs['res'])
    for key in ('again', 'third'):
        if key in obs and not out:
            out += check_parser_result(parser, args, obs[key], 'later-call-')
    return out


# ---------------------------------------------------------------- the API table

def should_parse(parse_args, args_in, dict_in):
    if parse_args is not None:
        return parse_args
    dict_supplied = dict_in is not None
    no_arguments = args_in is None or len(args_in) == 0
    return not (dict_supplied and no_arguments)


def monitor_parse_input(case, obs):
    want = should_parse(case['parse_args'], case['args_in'], case['dict_in'])
    if obs['res'] is not want:
        return [fail('parse-input-table',
                     f'_get_parse_input(parse_args={case["parse_args"]!r}, args_in={case["args_in"]!r}, '
                     f'dict_in={"None" if case["dict_in"] is None else "dict"}) = {obs["res"]!r}, '
                     f'expected {want!r}')]
    return []


def same_mapping(a, b):
    """Equality of two ordered pair lists as mappings (key order is not part of the claim)."""
    if len(a) != len(b):
        return False
    for k, v in a:
        hits = [w for kk, w in b if pv.pv_equal(kk, k)]
        if len(hits) != 1 or not pv.pv_equal(hits[0], v):
            return False
    return True


def apply_update(base, parsed):
    """dict.update on ordered pair lists."""
    out = [[k, v] for k, v in base]
    for k, v in parsed:
        for e in out:
            if pv.pv_equal(e[0], k):
                e[1] = v
                break
        else:
            out.append([k, v])
    return out


def expected_context(parser, run_parser, args, base):
    """-> ('ok', pairs) | ('err', name) | ('skip',)"""
    if not run_parser or parser is None:
        return 'ok', base
    exp = expected_parser(parser, args)
    if exp[0] != 'ok':
        return exp
    want = exp[1]
    if want is None:
        return 'ok', base
    if isinstance(want, tuple):     # argskwargs
        _, positional, kw = want
        kw = [[k, v] for k, v in kw if k != 'argList']
        if any(t.partition('=')[0] == 'argList' and '=' in t for t in args):
            return ('skip',)        # argList=… on the command line: position not documented
        want = kw + [['argList', {'l': positional}]]
    return 'ok', apply_update(base, want)


def monitor_api(case, obs):
    out = []
    run_parser = should_parse(case['parse_args'], case['args_in'], case['dict_in'])
    base = case['dict_in'] or []
    exp = expected_context(case['parser'], run_parser, case['args_in'], base)
    res = obs['res']
    if exp[0] == 'skip':
        return out
    if exp[0] == 'err':
        if res[0] != 'err' or res[1] != exp[1]:
            out.append(fail('api-parser-error', f'expected {exp[1]} from the parser, got {res!r}'))
        return out
    if res[0] != 'ok':
        out.append(fail('api-run-failed', f'run raised {res!r}'))
        return out
    got = res[1]['d']
    if not same_mapping(got, exp[1]):
        unparsed = same_mapping(got, base)
        if run_parser and case['parser'] and unparsed:
            fp = 'api-parser-not-run'
        elif not run_parser and not unparsed:
            fp = 'api-parser-run-when-it-should-not'
        else:
            fp = 'api-context'
        out.append(fail(fp, f'first step saw {got!r}, expected {exp[1]!r} '
                            f'(parser={case["parser"]}, parse_args={case["parse_args"]}, '
                            f'args_in={case["args_in"]!r}, dict_in={case["dict_in"]!r})'))
    if 'res2' in obs and not out:
        r2 = obs['res2']
        if r2[0] != 'ok' or not same_mapping(r2[1]['d'], exp[1]):
            out.append(fail('api-second-run-differs',
                            f'a second run with equal arguments (after the first run changed its context '
                            f'values in place) saw {r2!r}, expected {exp[1]!r} (parser={case["parser"]}, '
                            f'args_in={case["args_in"]!r}, dict_in={case["dict_in"]!r})'))
    if obs.get('parse_input_seen') is not run_parser:
        out.append(fail('api-parse-input', f'Pipeline.parse_input = {obs.get("parse_input_seen")!r}, '
                                           f'expected {run_parser!r}'))
    return out


# ---------------------------------------------------------------- the command line

# a group named on the command line that the pipeline does not have is skipped by the runner
ZERO = ('complete', 'stop', 'stoppipeline', 'stopstepgroup', 'stop-raised-by-step',
        'raise-then-stop-in-failure-handler', 'missing-group')
# start-up error: main's own set-up (config look-up, log handlers) failed before the pipeline ran
ERROR = ('raise', 'parser-error', 'missing-pipeline', 'startup-error')


def err_line(ty, msg):
    return '\n\x1b[91m' + ty + ': ' + msg + '\x1b[0;0m\n'


def monitor_cli(case, obs):
    out = []
    want = case['want']
    parsed = obs.get('parsed', obs)
    clean = not any(t.startswith('-') for t in want['ctx']) or case['form'] == 'B'
    if 'argparse_exit' in parsed:
        if clean:
            out.append(fail('argv-rejected', f'argparse rejected a well-formed command line {case["argv"]!r}'))
        return out
    # --- pass-through: the parsed arguments, the call into the runner, the running pipeline
    views = [('parsed', parsed, {'name': 'name', 'ctx': 'ctx', 'groups': 'groups', 'success': 'success',
                                 'failure': 'failure', 'dir': 'dir'})]
    if obs['mode'] == 'inproc':
        if len(obs['calls']) != 1:
            out.append(fail('runner-calls', f'main called the runner {len(obs["calls"])} times'))
        for c in obs['calls'][:1]:
            views.append(('runner', c, {'name': 'name', 'ctx': 'args_in', 'groups': 'groups',
                                        'success': 'success', 'failure': 'failure', 'dir': 'dir'}))
            if c['parse_args'] is not True or c['dict_in'] is not None or c['loader'] is not None:
                out.append(fail('runner-extra-args', f'main called the runner with {c!r}'))
    for rec in obs.get('probe', [])[:1]:
        views.append(('pipeline', rec['pipe'], {'name': 'name', 'ctx': 'context_args', 'groups': 'groups',
                                                'success': 'success_group', 'failure': 'failure_group',
                                                'dir': 'py_dir'}))
    for where, rec, fields in views:
        for f, key in fields.items():
            exp = want[f]
            got = rec[key]
            if f == 'dir' and exp is None:
                if where == 'parsed':
                    continue
                exp = obs['cwd']
            if got != exp:
                out.append(fail(f'passthrough-{f}', f'{f}: command line says {exp!r}, {where} has {got!r}'))
    # --- exit status
    how = case['ending']['how']
    status = obs['status']
    completed_or_stopped = how in ZERO
    if how in ZERO or how in ERROR or how == 'kbd':
        if completed_or_stopped and status != 0:
            out.append(fail('nonzero-after-completion-or-stop',
                            f'pipeline ended by {how} but the exit status is {status}'))
        if not completed_or_stopped and status == 0:
            out.append(fail('exit0-after-' + ('error' if how in ERROR else 'interrupt'),
                            f'pipeline ended by {how} but the exit status is 0'))
    if how in ERROR:
        if status != 255:
            out.append(fail('error-not-255', f'an error escaped ({how}) but the exit status is {status}'))
        if how == 'raise':
            exc = c18_run.make_exc(case['boom'])
            ty, msg = type(exc).__name__, str(exc)
        elif obs['mode'] == 'inproc' and obs.get('end') and obs['end'][0] == 'exc':
            ty, msg = obs['end'][1], obs['end'][2]
        else:
            ty = msg = None
        if how == 'startup-error' and not re.search(r'\n\x1b\[91m\w+: [^\x1b]*\x1b\[0;0m\n', obs['stderr']):
            out.append(fail('startup-error-text-missing',
                            f'start-up fault {case["ending"]["startup"]}: stderr lacks the "<Type>: <message>" '
                            f'line: {obs["stderr"][-300:]!r}'))
        if ty is not None and err_line(ty, msg) not in obs['stderr']:
            out.append(fail('error-text-missing', f'stderr lacks {err_line(ty, msg)!r}: {obs["stderr"][-300:]!r}'))
    if how == 'kbd' and status != 130:
        out.append(fail('interrupt-not-130', f'KeyboardInterrupt but the exit status is {status}'))
    if how == 'sysexit' and status == 0 and not any(r['tag'] == 99 for r in obs.get('probe', [])):
        out.append(fail('exit0-without-completion-systemexit',
                        'a step raised SystemExit(0/None): exit status 0 although the pipeline neither '
                        'completed nor was stopped by a Stop instruction'))
    if completed_or_stopped and '\x1b[91m' in obs['stderr']:
        out.append(fail('error-text-on-success', f'stderr carries an error text: {obs["stderr"][-200:]!r}'))
    # --- what the first step sees
    probe = obs.get('probe', [])
    if probe and probe[0]['tag'] == 0:
        exp = expected_context(case['parser'], True, want['ctx'], [])
        if exp[0] == 'ok' and not same_mapping(probe[0]['ctx'], exp[1]):
            out.append(fail('cli-context', f'first step saw {probe[0]["ctx"]!r}, expected {exp[1]!r} '
                                           f'(parser {case["parser"]}, args {want["ctx"]!r})'))
        if exp[0] == 'err':
            out.append(fail('cli-parser-error-ignored', f'parser should have raised {exp[1]} but a step ran'))
    elif how not in ('parser-error', 'missing-pipeline', 'startup-error') and obs['mode'] == 'inproc':
        exp = expected_context(case['parser'], True, want['ctx'], [])
        if exp[0] == 'ok':
            out.append(fail('first-step-did-not-run', f'no probe record; status {status}, '
                                                      f'stderr {obs["stderr"][-300:]!r}'))
    return out


def monitor(case, obs):
    k = case['kind']
    if k == 'parser':
        return monitor_parser(case, obs)
    if k == 'parse_input':
        return monitor_parse_input(case, obs)
    if k == 'api':
        return monitor_api(case, obs)
    if k == 'cli':
        return monitor_cli(case, obs)
    return []
