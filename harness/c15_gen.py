"""C15 helper: scenario and fault-set enumeration.

A scenario fixes the step, the directory layout, the `in` / `out` arguments and the context.
For every scenario the generator runs the real step once, fault-free, to learn how many
primitives it issues (N), then emits one case per fault set:
  []                          fault-free: its snapshot prefixes are ALL the crash points of the
                              main line, its end is the success case
  [[k, raise]]                for every k < N (exhaustive)
  [[k, raise], [k+1, raise]]  a second failure inside the clean-up path (remove / close fails)
  [[k, raise], [k+1, crash]]  the process dies inside the clean-up path
  [[k, crash]]                explicit kill (in-process stand-in; `kill` = real os._exit in a child)
"""
import json

import c15_fs as F

EXT = {'fileformat': 'txt', 'filereplace': 'txt', 'fileformatjson': 'json',
       'fileformatyaml': 'yaml', 'fileformattoml': 'toml'}
CTX = [['k', 'V'], ['num', 7], ['w', 'two words']]
PAIRS = [['foo', 'bar'], ['{k}', 'K']]       # replacePairs: formatted first => 'V' -> 'K'


def content(step, size, bad=None, variant=0):
    """(bytes as latin-1 text, expected) for a payload with `size` lines / nodes; item `bad`
    references a key that is not in the context; bad == 'load' = malformed payload.
    expected: text steps -> exact new text; object steps -> the object the new file must hold."""
    vals = ['{k}', 'plain', 'x {w} y', '{num}', '{{lit}} {k}']
    outs = ['V', 'plain', 'x two words y', 7, '{lit} V']
    outs_text = ['V', 'plain', 'x two words y', '7', '{lit} V']
    if step == 'fileformat':
        lines, exp = [], []
        for i in range(size):
            v = vals[(i + variant) % 5]
            lines.append(f'l{i} {v}' if bad != i else f'l{i} {{missing}}')
            exp.append(f'l{i} {outs_text[(i + variant) % 5]}')
        end = '' if (variant % 2 and size) else '\n'
        body = '\n'.join(lines) + (end if size else '')
        return body, None if bad is not None else '\n'.join(exp) + (end if size else '')
    if step == 'filereplace':
        lines = [f'l{i} foo V foofoo' if (i + variant) % 2 == 0 else f'l{i} nothing' for i in range(size)]
        exp = [s.replace('foo', 'bar').replace('V', 'K') for s in lines]
        body = ''.join(s + '\n' for s in lines)
        return body, ''.join(s + '\n' for s in exp)
    # object payloads
    obj, exp = {}, {}
    for i in range(size):
        j = (i + variant) % 5
        v, o = vals[j], outs[j]
        if bad == i:
            v = '{missing}'
        if i % 3 == 2:
            obj[f'n{i}'], exp[f'n{i}'] = [v, i], [o, i]
        else:
            obj[f'n{i}'], exp[f'n{i}'] = v, o
    if step == 'fileformattoml' and variant % 2 and size:
        obj = {'t': obj}
        exp = {'t': exp}
    if bad == 'load':
        return {'fileformatjson': '{"a": ', 'fileformatyaml': 'a: [1, 2\nb: }{\n',
                'fileformattoml': 'a = = 1\n'}[step], None
    if step == 'fileformatjson':
        return json.dumps(obj), None if bad is not None else exp
    if step == 'fileformatyaml':
        if not obj:
            return '{}\n', exp

        def y(v):
            return json.dumps(v)
        body = ''
        for key, v in obj.items():
            if isinstance(v, list):
                body += f'{key}:\n' + ''.join(f'  - {y(x)}\n' for x in v)
            else:
                body += f'{key}: {y(v)}\n'
        return body, None if bad is not None else exp
    if step == 'fileformattoml':
        import tomli_w
        return tomli_w.dumps(obj), None if bad is not None else exp
    raise ValueError(step)


def scenarios(tier):
    """Systematic list of scenario dicts (without faults)."""
    out = []
    sizes = [0, 1, 2, 3] if tier == 'quick' else [0, 1, 2, 3, 4]
    for step in F.STEPS:
        ext = EXT[step]
        stream = step in F.STREAM

        def mk(files, vin, vout, expect, label):
            sc = {'step': step, 'files': files + [['other.dat', 'do not touch\x00\xff'],
                                                  ['tmpkeepme1', 'keep']],
                  'ctx': CTX, 'in': vin, 'out': vout, 'expect': expect, 'label': label}
            if step == 'filereplace':
                sc['pairs'] = PAIRS
            out.append(sc)

        # 1. single file, every size; out absent / out == in
        for size in sizes:
            c, e = content(step, size)
            mk([[f'a.{ext}', c]], f'a.{ext}', None, {f'a.{ext}': e}, f'single/{size}')
            if size in (0, 2):
                mk([[f'a.{ext}', c]], f'a.{ext}', f'a.{ext}', {f'a.{ext}': e}, f'single-out-same/{size}')
        # 1b. out NAMES the in file without being spelled like it: symbolic link, hard link,
        #     '..' / '.' spellings -> must be edited in place (is_same_file); and a symbolic link
        #     to ANOTHER file -> not in place, the link's target gets the output
        c, e = content(step, 2)
        cb, _ = content(step, 1, variant=3)
        bad_c, _ = content(step, 2, 1) if step != 'filereplace' else (c, None)
        for label, links, vout, exp in (
                ('alias/symlink', [[f'lnk.{ext}', f'a.{ext}', 'sym']], f'lnk.{ext}', e),
                ('alias/symlink-in-subdir', [[f'sub/lnk.{ext}', f'a.{ext}', 'sym']], f'sub/lnk.{ext}', e),
                ('alias/hardlink', [[f'hard.{ext}', f'a.{ext}', 'hard']], f'hard.{ext}', e),
                ('alias/dotdot', [], f'sub/../a.{ext}', e),
                ('alias/dot', [], f'./a.{ext}', e),
                ('alias/symlink-to-other-file', [[f'lnkb.{ext}', f'b.{ext}', 'sym']], f'lnkb.{ext}', None)):
            mk([[f'a.{ext}', c], [f'b.{ext}', cb], ['sub/', '']], f'a.{ext}', vout,
               {f'a.{ext}': exp} if exp is not None else None, label)
            out[-1]['links'] = links
        if step != 'filereplace':
            mk([[f'a.{ext}', bad_c], ['sub/', '']], f'a.{ext}', f'lnk.{ext}', {}, 'alias/symlink-badfmt')
            out[-1]['links'] = [[f'lnk.{ext}', f'a.{ext}', 'sym']]
        # 1c. paths that still contain formatting in the pipeline: '{{k}}' is the file literally
        #     named '{k}', a !sic path likewise; '{k}' is the file named after the context value.
        #     The step formats its configuration exactly ONCE: the file named by that single pass
        #     is rewritten, the look-alike ('V.ext' resp. '{k}.ext') is a bystander.
        cl, el = content(step, 2)
        cv, ev = content(step, 1, variant=2)
        lit, dec = '{k}.' + ext, 'V.' + ext
        both = [[lit, cl], [dec, cv], [f'a.{ext}', c], ['sub/', '']]
        # (the configuration is formatted by code shared by all five steps: quick tier = two of them)
        for label, vin, vin_cfg, vout, vout_cfg, exp in () if (
                tier == 'quick' and step not in ('fileformat', 'fileformatjson')) else (
                ('braces/escaped-single', lit, '{{k}}.' + ext, None, None, {lit: el}),
                ('braces/sic-single', lit, {'sic': lit}, None, None, {lit: el}),
                ('braces/expression-single', dec, lit, None, None, {dec: ev}),
                ('braces/escaped-list', [lit, f'a.{ext}'], ['{{k}}.' + ext, f'a.{ext}'], None, None,
                 {lit: el, f'a.{ext}': e}),
                ('braces/sic-list', [f'a.{ext}', lit], [f'a.{ext}', {'sic': lit}], None, None,
                 {lit: el, f'a.{ext}': e}),
                ('braces/escaped-glob', '{k}*.' + ext, '{{k}}*.' + ext, None, None, {lit: el}),
                ('braces/expression-glob', 'V*.' + ext, '{k}*.' + ext, None, None, {dec: ev}),
                ('braces/escaped-out-same', lit, '{{k}}.' + ext, lit, '{{k}}.' + ext, {lit: el}),
                ('braces/escaped-out-other', f'a.{ext}', f'a.{ext}', lit, '{{k}}.' + ext, None),
                ('braces/sic-out-other', f'a.{ext}', f'a.{ext}', lit, {'sic': lit}, None)):
            mk(list(both), vin, vout, exp, label)
            out[-1]['in_cfg'] = vin_cfg
            if vout_cfg is not None:
                out[-1]['out_cfg'] = vout_cfg
        # 1d. the SERIALISER fails inside the real dump call (not an injected OSError): a {token}
        #     resolves to a value the format cannot represent, or to a character encodingOut
        #     cannot encode; some chunks may already have been written
        if not stream:
            def payload(tok):
                o = {'n0': '{k}', 'n1': tok, 'n2': 'plain'}
                if step == 'fileformatjson':
                    return json.dumps(o)
                if step == 'fileformatyaml':
                    return ''.join(f'{a}: {json.dumps(b)}\n' for a, b in o.items())
                import tomli_w
                return tomli_w.dumps(o)
            for label, val, enc in (('dumpfail/object', {'__obj__': 1}, None),
                                    ('dumpfail/set', {'__set__': [1, 2]}, None),
                                    ('dumpfail/encoding-ascii', 'caf\u00e9 \u2603', 'ascii'),
                                    ('dumpfail/encoding-latin1', 'snow \u2603', 'latin-1')):
                if enc and step == 'fileformattoml':
                    continue            # toml is written in binary mode, always utf-8
                if label == 'dumpfail/set' and step == 'fileformatyaml':
                    continue            # ruamel represents a set
                mk([[f'a.{ext}', payload('{bad}')]], f'a.{ext}', None, {}, label)
                out[-1]['ctx'] = CTX + [['bad', val]]
                if enc:
                    out[-1]['enc_out'] = enc
        # 2. formatting failure at every item position
        if step != 'filereplace':
            for size in sizes[1:]:
                for bad in range(size):
                    c, e = content(step, size, bad)
                    mk([[f'a.{ext}', c]], f'a.{ext}', None, {}, f'single-badfmt/{size}/{bad}')
        if not stream:
            c, e = content(step, 1, 'load')
            mk([[f'a.{ext}', c]], f'a.{ext}', None, {}, 'single-badload')
        # the loop (files_in_to_out) is shared code: in the quick tier the multi-file layouts run
        # for one stream and one object rewriter only
        if tier == 'quick' and step not in ('fileformat', 'fileformatjson'):
            continue
        # 3. list of files (with a sub directory, a name that does not exist, a duplicate)
        c1, e1 = content(step, 1)
        c2, e2 = content(step, 2, variant=1)
        c3, e3 = content(step, 1, variant=2)
        three = [[f'a.{ext}', c1], [f'sub/b.{ext}', c2], [f'c.{ext}', c3]]
        exp3 = {f'a.{ext}': e1, f'sub/b.{ext}': e2, f'c.{ext}': e3}
        mk(three, [f'a.{ext}', f'sub/b.{ext}', f'c.{ext}'], None, exp3, 'list/3')
        mk(three, [f'c.{ext}', f'nothere.{ext}', f'a.{ext}'], None,
           {f'a.{ext}': e1, f'c.{ext}': e3}, 'list/missing-entry')
        if step != 'filereplace':
            cb, _ = content(step, 2, 1)
            mk([[f'a.{ext}', c1], [f'b.{ext}', cb], [f'c.{ext}', c3]],
               [f'a.{ext}', f'b.{ext}', f'c.{ext}'], None, {}, 'list/bad-middle')
        # 4. globs
        mk(three, f'*.{ext}', None, {f'a.{ext}': e1, f'c.{ext}': e3}, 'glob/flat')
        mk(three, f'**/*.{ext}', None, exp3, 'glob/recursive')
        if stream:
            mk(three + [['emptydir/', '']], '**/*', None, None, 'glob/recursive-all')
        mk(three, [f'a.{ext}', f'*.{ext}'], None, None, 'list+glob/duplicate')
        # 5. out is the directory the in files live in (out == in per file), or elsewhere
        mk(three, f'*.{ext}', '', {f'a.{ext}': e1, f'c.{ext}': e3}, 'glob/out-same-dir')
        mk(three, f'**/*.{ext}', '', None, 'glob/out-root-dir-mixed')
        mk(three + [['outd/', '']], f'a.{ext}', f'outd/x.{ext}', None, 'single/out-elsewhere')
        mk(three + [['outd/', '']], [f'a.{ext}', f'c.{ext}'], 'outd/', None, 'list/out-dir-elsewhere')
        mk(three, [f'a.{ext}', f'c.{ext}'], f'c.{ext}', None, 'list/out-single-file-error')
    return out


def count_prims(sc):
    """Fault-free run of the real code: number of primitives and their tags."""
    import shutil
    import tempfile
    root = tempfile.mkdtemp(prefix='c15n_')
    try:
        F.populate(root, sc['files'], sc.get('links'))
        ctl, outcome = F.run_step(sc, root)
        return [t for t, _ in ctl.events]
    except Exception:   # a mutant may blow up here: fall back to a fixed range
        return ['?'] * 14
    finally:
        shutil.rmtree(root, ignore_errors=True)


def fault_sets(tags, rng, tier):
    n = len(tags)
    sets = [[]]
    for k in range(n):
        if tags[k] != 'close-src':      # closing a read-only handle does not fail in practice
            sets.append([[k, 'raise']])
    writes = [k for k, t in enumerate(tags) if t == 'write']
    # second faults inside the clean-up path; quick: only around the first and last write of a run
    edge = {k for i, k in enumerate(writes)
            if i == 0 or i == len(writes) - 1 or writes[i - 1] != k - 1 or writes[i + 1] != k + 1}
    for k, t in enumerate(tags):
        if t == 'write' and tier == 'quick' and k not in edge:
            continue
        if t.startswith('replace') or t == 'write' or t.startswith('mktemp') or t == 'close-w':
            sets.append([[k, 'raise'], [k + 1, 'raise']])
            sets.append([[k, 'raise'], [k + 1, 'crash']])
        if t == 'write':
            # the clean-up after a failing write is close-w (k+1), remove (k+2), close-src (k+3)
            sets.append([[k, 'raise'], [k + 2, 'raise']])
            sets.append([[k, 'raise'], [k + 2, 'crash']])
            sets.append([[k, 'raise'], [k + 3, 'raise']])
            sets.append([[k, 'raise'], [k + 1, 'raise'], [k + 2, 'raise']])
    ks = list(range(n + 1))
    rng.shuffle(ks)
    for k in ks[:3 if tier == 'quick' else 6]:
        sets.append([[k, 'crash']])
    return sets


def random_scenario(rng):
    """thorough tier: random layout / payload sizes / failure positions / in-lists."""
    step = rng.choice(list(F.STEPS))
    ext = EXT[step]
    names = rng.sample([f'a.{ext}', f'b.{ext}', f'sub/c.{ext}', f'sub/deep/d.{ext}', f'e e.{ext}'],
                       rng.randint(1, 3))
    files, expect = [], {}
    for nm in names:
        size = rng.randint(0, 4)
        bad = None
        if step != 'filereplace' and size and rng.random() < 0.2:
            bad = rng.randrange(size)
        if step not in F.STREAM and rng.random() < 0.05:
            bad, size = 'load', 1
        c, e = content(step, size, bad, rng.randint(0, 4))
        files.append([nm, c])
        expect[nm] = e
    r = rng.random()
    if r < 0.35:
        vin = list(names)
        rng.shuffle(vin)
        if rng.random() < 0.3:
            vin.insert(rng.randrange(len(vin) + 1), rng.choice(names + [f'ghost.{ext}']))
    elif r < 0.6:
        vin = rng.choice([f'*.{ext}', f'**/*.{ext}', f'sub/**/*.{ext}', f'[ab].{ext}'])
    elif r < 0.75:
        vin = [names[0], f'**/*.{ext}']
    else:
        vin = names[0]
    out = None
    if rng.random() < 0.2:
        out = rng.choice(['', 'sub/', names[0]])
        if out == names[0] and not isinstance(vin, str):
            vin = names[0]
        if out == names[0] and isinstance(vin, str) and vin != names[0]:
            out = ''
    links = []
    if isinstance(vin, str) and vin == names[0] and rng.random() < 0.25:
        kind = rng.choice(['sym', 'hard', 'dotdot', 'other'])
        if kind in ('sym', 'hard'):
            links = [[f'zz_link.{ext}', names[0], kind]]
            out = f'zz_link.{ext}'
        elif kind == 'dotdot':
            out = 'sub/../' + names[0] if '/' not in names[0] else names[0].replace('sub/', 'sub/../sub/', 1)
        elif len(names) > 1:
            links = [[f'zz_link.{ext}', names[1], 'sym']]
            out = f'zz_link.{ext}'
    files += [['other.dat', 'do not touch\x00\xff'], ['sub/', ''], ['tmpkeepme1', 'keep']]
    sc = {'step': step, 'files': files, 'links': links, 'ctx': CTX, 'in': vin, 'out': out, 'expect': expect,
          'label': 'random/' + ('single' if isinstance(vin, str) and '*' not in vin else 'multi')}
    if step == 'filereplace':
        sc['pairs'] = PAIRS
    return sc


def random_fault_sets(tags, rng, count):
    n = len(tags)
    sets = [[]]
    for _ in range(count):
        m = rng.choice([1, 1, 2, 2, 3])
        ks = sorted(rng.sample(range(n + 2), min(m, n + 2)))
        if ks[0] < n and tags[ks[0]] == 'close-src':   # not a realistic first failure
            continue
        fs = []
        for i, k in enumerate(ks):
            mode = 'crash' if (i == len(ks) - 1 and rng.random() < 0.3) else 'raise'
            fs.append([k, mode])
        sets.append(fs)
    return sets
