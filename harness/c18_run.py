"""C18 — drivers for the REAL code: parser modules, Pipeline._get_parse_input,
pypyr.pipelinerunner.run and pypyr.cli.main (in-process and as `python -m pypyr`).

Everything that touches the file system lives in a tempfile directory created per case and
removed afterwards.  The token <TMP> in a case's argv / names stands for that directory."""
import contextlib
import importlib
import inspect
import io
import json
import logging
import os
import subprocess
import sys
import tempfile
from pathlib import Path

import pv

REPO = os.environ.get('VERIF_REPO', '/repo')
HARNESS = str(Path(__file__).resolve().parent)
TMP = '<TMP>'

PARSERS = ['keyvaluepairs', 'argskwargs', 'dict', 'list', 'string', 'keys', 'json']

# ---------------------------------------------------------------- helper step modules

PROBE_SRC = '''"""C18 probe step: records what the running pipeline sees."""
import json
import os

import c18_run


def run_step(context):
    cp = context.current_pipeline
    snap = {k: v for k, v in context.items() if k != 'c18tag'}
    rec = {
        'tag': context.get('c18tag'),
        'ctx': c18_run.canon_value(snap)['d'],
        'pipe': {
            'name': cp.name,
            'context_args': cp.context_args,
            'parse_input': cp.parse_input,
            'groups': cp.groups,
            'success_group': cp.success_group,
            'failure_group': cp.failure_group,
            'py_dir': None if cp.py_dir is None else str(cp.py_dir),
            'loader': cp.loader,
        },
    }
    with open(os.environ['C18_PROBE_OUT'], 'a', encoding='utf-8') as f:
        f.write(json.dumps(rec) + '\\n')
'''

BOOM_SRC = '''"""C18 boom step: ends the pipeline the way $C18_BOOM says."""
import json
import os


class C18CustomError(Exception):
    """An application error type pypyr knows nothing about."""


class C18BaseError(BaseException):
    """Not an Exception."""


def make(cfg):
    ty = cfg['ty']
    msg = cfg.get('msg')
    if ty == 'SystemExit':
        return SystemExit(cfg.get('code'))
    if ty == 'KeyboardInterrupt':
        return KeyboardInterrupt()
    if ty == 'C18CustomError':
        return C18CustomError(msg)
    if ty == 'C18BaseError':
        return C18BaseError(msg)
    if ty == 'KeyNotInContextError':
        from pypyr.errors import KeyNotInContextError
        return KeyNotInContextError(msg)
    if ty == 'Stop':
        from pypyr.errors import Stop
        return Stop(msg)
    import builtins
    return getattr(builtins, ty)(msg)


def run_step(context):
    raise make(json.loads(os.environ['C18_BOOM']))
'''

MUTATE_SRC = '''"""C18 mutate step: changes, in place, every container reachable from the context."""
import c18_run


def run_step(context):
    c18_run.mutate_containers(context, skip=('c18tag',))
'''

HELPER_MODULES = ('c18probe', 'c18boom', 'c18mutate')
MARK = '__c18_mutated__'


def mutate_containers(obj, skip=(), _seen=None):
    """Append a marker to every list and add a marker key to every dict reachable from obj
    (in place).  A parser whose results share structure between calls shows it afterwards."""
    from collections.abc import MutableMapping
    seen = _seen if _seen is not None else set()
    if id(obj) in seen:
        return
    seen.add(id(obj))
    if isinstance(obj, MutableMapping):
        for k in list(obj.keys()):
            if k not in skip:
                mutate_containers(obj[k], (), seen)
        obj[MARK] = [MARK]
    elif isinstance(obj, list):
        for x in list(obj):
            mutate_containers(x, (), seen)
        obj.append(MARK)


def make_exc(cfg):
    """The exception object the boom step raises for cfg (used to compute str(e))."""
    ns = {}
    exec(BOOM_SRC, ns)
    return ns['make'](cfg)


# ---------------------------------------------------------------- small canonicalisers

def sub_tmp(x, tmp):
    """<TMP> -> real dir (into the implementation)."""
    if isinstance(x, str):
        return x.replace(TMP, tmp)
    if isinstance(x, list):
        return [sub_tmp(i, tmp) for i in x]
    if isinstance(x, dict):
        return {k: sub_tmp(v, tmp) for k, v in x.items()}
    return x


def unsub_tmp(x, tmp):
    """real dir -> <TMP> (out of the implementation)."""
    if isinstance(x, str):
        return x.replace(tmp, TMP)
    if isinstance(x, list):
        return [unsub_tmp(i, tmp) for i in x]
    if isinstance(x, tuple):
        return [unsub_tmp(i, tmp) for i in x]
    if isinstance(x, dict):
        return {k: unsub_tmp(v, tmp) for k, v in x.items()}
    return x


def err_name(e):
    from pypyr.errors import get_error_name
    return get_error_name(e)


def canon_value(o):
    """pv.Canon, with non-finite floats (json NaN / Infinity) turned into opaque objects."""
    import math

    def clean(x):
        if isinstance(x, float) and not math.isfinite(x):
            return pv.Opaque(repr(x))
        if isinstance(x, dict):
            return {k: clean(v) for k, v in x.items()}
        if isinstance(x, list):
            return [clean(v) for v in x]
        return x
    c = pv.Canon()
    c.obj_index = lambda obj: {'nan': 1, 'inf': 2, '-inf': 3}.get(getattr(obj, 'n', None), 4)
    return c(clean(o))


def canon_result(call):
    """Run call(); -> ['ok', pv] | ['err', name, msg]."""
    try:
        out = call()
    except Exception as e:  # noqa: the observation IS the exception
        name = err_name(e)
        msg = '' if name == 'json.decoder.JSONDecodeError' else str(e)
        return ['err', name, msg], None
    return ['ok', canon_value(out)], out


# ---------------------------------------------------------------- K1: parser modules

def run_parser_case(case):
    """Call the parser three times on equal argument lists; between the calls every container
    reachable from the earlier result is changed in place (as a pipeline step may do)."""
    mod = importlib.import_module('pypyr.parser.' + case['parser'])
    args = case['args']
    results, unchanged = [], True
    for _ in range(3):
        a = None if args is None else list(args)
        res, out = canon_result(lambda: mod.get_parsed_context(a))
        unchanged = unchanged and a == args          # before the result is touched
        results.append(res)
        if out is not None:
            with contextlib.suppress(Exception):
                mutate_containers(out)
    return {'res': results[0], 'again': results[1], 'third': results[2], 'args_unchanged': unchanged}


# ---------------------------------------------------------------- K2: _get_parse_input

def run_parse_input_case(case):
    from pypyr.pipeline import Pipeline
    dict_in = None if case['dict_in'] is None else pv.to_py({'d': case['dict_in']})
    out = Pipeline._get_parse_input(parse_args=case['parse_args'], args_in=case['args_in'],
                                    dict_in=dict_in)
    return {'res': out, 'is_bool': isinstance(out, bool)}


# ---------------------------------------------------------------- pipelines on disk

class Sandbox:
    """<TMP>/mods (helper step modules), <TMP>/pipes (pipelines), <TMP>/cwd, <TMP>/probe.jsonl"""

    def __init__(self, tmp, mods_with_pipes=False):
        self.tmp = tmp
        self.mods = Path(tmp, 'pipes' if mods_with_pipes else 'mods')
        self.pipes = Path(tmp, 'pipes')
        self.cwd = Path(tmp, 'cwd')
        for d in (self.mods, self.pipes, self.cwd):
            d.mkdir(exist_ok=True)
        (self.mods / 'c18probe.py').write_text(PROBE_SRC, encoding='utf-8')
        (self.mods / 'c18boom.py').write_text(BOOM_SRC, encoding='utf-8')
        (self.mods / 'c18mutate.py').write_text(MUTATE_SRC, encoding='utf-8')
        self.probe_out = Path(tmp, 'probe.jsonl')

    def write_pipeline(self, fname, body):
        # JSON is a YAML flow document; keeps arbitrary group names intact
        (self.pipes / (fname + '.yaml')).write_text(json.dumps(body, ensure_ascii=False),
                                                    encoding='utf-8')

    def probe_records(self):
        if not self.probe_out.exists():
            return []
        recs = [json.loads(ln) for ln in self.probe_out.read_text(encoding='utf-8').splitlines()]
        return unsub_tmp(recs, self.tmp)


@contextlib.contextmanager
def clean_process_state(env, quiet_logging=False):
    """Run a piece of pypyr in this process and put process-global state back afterwards."""
    import pypyr.cache.admin
    saved_path = list(sys.path)
    saved_env = {k: os.environ.get(k) for k in env}
    saved_handlers = list(logging.root.handlers)
    saved_level = logging.root.level
    # the CLI configures logging itself (basicConfig needs a bare root logger); API runs get a
    # NullHandler so that logging's last-resort handler does not write to the real stderr
    logging.root.handlers = [logging.NullHandler()] if quiet_logging else []
    os.environ.update(env)
    pypyr.cache.admin.clear_all()
    importlib.invalidate_caches()
    try:
        yield
    finally:
        for h in logging.root.handlers:
            with contextlib.suppress(Exception):
                h.close()
        logging.root.handlers = saved_handlers
        logging.root.setLevel(saved_level)
        sys.path[:] = saved_path
        for k, v in saved_env.items():
            if v is None:
                os.environ.pop(k, None)
            else:
                os.environ[k] = v
        for m in HELPER_MODULES:
            sys.modules.pop(m, None)
        pypyr.cache.admin.clear_all()


# ---------------------------------------------------------------- K3: the API

def run_api_case(case):
    """pypyr.pipelinerunner.run twice in this process with equal arguments: first step = probe,
    second step changes every container of the context in place, third = probe."""
    import pypyr.pipelinerunner
    with tempfile.TemporaryDirectory(prefix='c18-') as tmp:
        sb = Sandbox(tmp, mods_with_pipes=True)
        body = {'steps': [{'name': 'c18probe', 'in': {'c18tag': 0}}, 'c18mutate',
                          {'name': 'c18probe', 'in': {'c18tag': 99}}]}
        if case['parser']:
            body['context_parser'] = 'pypyr.parser.' + case['parser']
        sb.write_pipeline('api', body)
        env = {'C18_PROBE_OUT': str(sb.probe_out), 'PYPYR_SKIP_INIT': '1'}
        runs = []
        with clean_process_state(env, quiet_logging=True):
            for _ in range(2):
                dict_in = None if case['dict_in'] is None else pv.to_py({'d': case['dict_in']})
                args_in = None if case['args_in'] is None else list(case['args_in'])
                before = len(sb.probe_records())
                err = None
                try:
                    pypyr.pipelinerunner.run(str(sb.pipes / 'api'), args_in=args_in,
                                             parse_args=case['parse_args'], dict_in=dict_in)
                except Exception as e:  # noqa
                    name = err_name(e)
                    err = ['err', name, '' if name == 'json.decoder.JSONDecodeError' else str(e)]
                runs.append((err, sb.probe_records()[before:]))
    out = {}
    for i, (err, recs) in enumerate(runs):
        sfx = '' if i == 0 else str(i + 1)
        first = [r for r in recs if r['tag'] == 0]
        if err:
            out['res' + sfx] = err
        elif not first:
            out['res' + sfx] = ['err', 'NoProbe', 'the first step did not run']
        else:
            out['res' + sfx] = ['ok', {'d': first[0]['ctx']}]
        if i == 0:
            out['probe_ran'] = bool(first)
            if first:
                out['parse_input_seen'] = first[0]['pipe']['parse_input']
                out['context_args_seen'] = first[0]['pipe']['context_args']
                out['mutated'] = any(r['tag'] == 99 for r in recs)
    return out


# ---------------------------------------------------------------- K4: the command line

def status_of(ret):
    """Exit status of `sys.exit(main())` given what main did."""
    if ret[0] == 'returned':
        v = ret[1]
        if v is None:
            return 0
        if isinstance(v, int):
            return v & 0xFF
        return 1
    if ret[0] == 'propagated' and ret[1] == 'SystemExit':
        code = ret[2]
        if code is None:
            return 0
        if isinstance(code, int):
            return code & 0xFF
        return 1
    return 1


def split_stderr(err):
    """-> (text main wrote about the error, traceback printed after it?)."""
    start = err.rfind('\n\x1b[91m')
    if start < 0:
        return '', 'Traceback (most recent call last)' in err
    end = err.find('\x1b[0;0m\n', start)
    if end < 0:
        return err[start:], False
    end += len('\x1b[0;0m\n')
    return err[start:end], 'Traceback (most recent call last)' in err[end:]


def parsed_args_obs(argv, tmp=None):
    """pypyr.cli.get_args on argv -> canonical record, or {'argparse_exit': code}."""
    import pypyr.cli
    sink = io.StringIO()
    try:
        with contextlib.redirect_stderr(sink), contextlib.redirect_stdout(sink):
            ns = pypyr.cli.get_args(list(argv))
    except SystemExit as e:
        return {'argparse_exit': e.code}
    from pypyr.config import config
    rec = {'name': ns.pipeline_name, 'ctx': ns.context_args, 'groups': ns.groups,
           'success': ns.success_group, 'failure': ns.failure_group,
           'dir': None if ns.py_dir is config.cwd else str(ns.py_dir),
           'log': ns.log_level, 'logpath': ns.log_path}
    return unsub_tmp(rec, tmp) if tmp else rec


def run_cli_inproc(case):
    import pypyr.cli
    import pypyr.pipeline
    import pypyr.pipelinerunner
    from pypyr.config import config
    from pypyr.errors import Stop
    with tempfile.TemporaryDirectory(prefix='c18-') as tmp:
        sb = Sandbox(tmp, mods_with_pipes=case.get('mods_with_pipes', False))
        for fname, body in case['pipelines'].items():
            sb.write_pipeline(fname, body)
        argv = sub_tmp(case['argv'], tmp)
        obs = {'mode': 'inproc', 'cwd': str(config.cwd)}
        parsed = parsed_args_obs(argv, tmp)
        if 'argparse_exit' in parsed:
            return {**obs, **parsed}
        obs['parsed'] = parsed
        env = {'C18_PROBE_OUT': str(sb.probe_out), 'PYPYR_SKIP_INIT': '1',
               'C18_BOOM': json.dumps(case.get('boom') or {})}
        real_run = pypyr.pipelinerunner.run
        real_larp = pypyr.pipeline.Pipeline.load_and_run_pipeline
        seen = {'calls': [], 'end': None, 'stop': False}

        def spy_run(*a, **kw):
            bound = inspect.signature(real_run).bind(*a, **kw)
            bound.apply_defaults()
            b = bound.arguments
            seen['calls'].append({
                'name': b['pipeline_name'], 'args_in': b['args_in'], 'parse_args': b['parse_args'],
                'dict_in': None if b['dict_in'] is None else pv.Canon()(b['dict_in'])['d'],
                'groups': b['groups'], 'success': b['success_group'],
                'failure': b['failure_group'], 'loader': b['loader'],
                'dir': None if b['py_dir'] is None else str(b['py_dir'])})
            try:
                out = real_run(*a, **kw)
            except KeyboardInterrupt:
                seen['end'] = ['kbd']
                raise
            except SystemExit as e:
                seen['end'] = ['sysexit', e.code]
                raise
            except Exception as e:  # noqa
                seen['end'] = ['exc', type(e).__name__, str(e)]
                raise
            except BaseException as e:  # noqa
                seen['end'] = ['base', type(e).__name__, str(e)]
                raise
            seen['end'] = ['stopped'] if seen['stop'] else ['completed']
            return out

        def spy_larp(self, context, parent=None):
            try:
                return real_larp(self, context, parent)
            except Stop:
                if parent is None:
                    seen['stop'] = True
                raise

        out_buf, err_buf = io.StringIO(), io.StringIO()
        with clean_process_state(env):
            pypyr.pipelinerunner.run = spy_run
            pypyr.pipeline.Pipeline.load_and_run_pipeline = spy_larp
            old_out, old_err = sys.stdout, sys.stderr
            sys.stdout, sys.stderr = out_buf, err_buf
            try:
                try:
                    ret = ['returned', pypyr.cli.main(argv)]
                except SystemExit as e:
                    ret = ['propagated', 'SystemExit', e.code]
                except BaseException as e:  # noqa: an escaping BaseException is the observation
                    ret = ['propagated', type(e).__name__, str(e)]
            finally:
                sys.stdout, sys.stderr = old_out, old_err
                pypyr.pipelinerunner.run = real_run
                pypyr.pipeline.Pipeline.load_and_run_pipeline = real_larp
        stderr = err_buf.getvalue()
        stdout = out_buf.getvalue()
        err_main, tb = split_stderr(stderr)
        obs.update({
            'ret': unsub_tmp(ret, tmp), 'status': status_of(ret),
            'stdout': unsub_tmp(stdout, tmp), 'stderr': unsub_tmp(stderr, tmp),
            'err_main': unsub_tmp(err_main, tmp), 'traceback': tb,
            'calls': unsub_tmp(seen['calls'], tmp), 'end': unsub_tmp(seen['end'], tmp),
            'probe': sb.probe_records(),
        })
        return obs


def run_cli_subproc(case):
    """The real entry point: `python -m pypyr <argv>` as a child process."""
    with tempfile.TemporaryDirectory(prefix='c18-') as tmp:
        sb = Sandbox(tmp, mods_with_pipes=case.get('mods_with_pipes', False))
        for fname, body in case['pipelines'].items():
            sb.write_pipeline(fname, body)
        argv = sub_tmp(case['argv'], tmp)
        env = {k: v for k, v in os.environ.items()
               if k in ('PATH', 'HOME', 'LANG', 'LC_ALL', 'PYTHONHASHSEED')}
        env.update({'PYTHONPATH': f'{REPO}:{HARNESS}', 'PYTHONDONTWRITEBYTECODE': '1',
                    'PYPYR_SKIP_INIT': '1', 'PYTHONIOENCODING': 'utf-8', 'PYTHONUTF8': '1',
                    'C18_PROBE_OUT': str(sb.probe_out),
                    'C18_BOOM': json.dumps(case.get('boom') or {})})
        startup = case.get('startup')
        if startup:
            # let main do its real start-up (config look-up), kept away from this machine's own
            # configuration; then plant the fault
            env.pop('PYPYR_SKIP_INIT')
            home = Path(tmp, 'home')
            home.mkdir()
            env.update({'HOME': str(home), 'XDG_CONFIG_HOME': str(home / 'xdg-home'),
                        'XDG_CONFIG_DIRS': str(home / 'xdg-dirs')})
            if startup == 'bad-local-config-yaml':
                (sb.cwd / 'pypyr-config.yaml').write_text('vars: [1, 2\nnot: closed\n', encoding='utf-8')
            elif startup == 'local-config-not-a-mapping':
                (sb.cwd / 'pypyr-config.yaml').write_text('- just\n- a list\n', encoding='utf-8')
            elif startup == 'missing-global-config':
                env['PYPYR_CONFIG_GLOBAL'] = str(Path(tmp, 'no-such-config.yaml'))
        p = subprocess.run([sys.executable, '-m', 'pypyr'] + argv, cwd=str(sb.cwd), env=env,
                           stdout=subprocess.PIPE, stderr=subprocess.PIPE, timeout=120)
        stdout = p.stdout.decode('utf-8', 'replace')
        stderr = p.stderr.decode('utf-8', 'replace')
        err_main, tb = split_stderr(stderr)
        return {'mode': 'subproc', 'cwd': TMP + '/cwd', 'status': p.returncode,
                'stdout': unsub_tmp(stdout, tmp), 'stderr': unsub_tmp(stderr, tmp),
                'err_main': unsub_tmp(err_main, tmp), 'traceback': tb,
                'parsed': parsed_args_obs(argv, tmp), 'probe': sb.probe_records()}


def run_case(case):
    k = case['kind']
    if k == 'parser':
        return run_parser_case(case)
    if k == 'parse_input':
        return run_parse_input_case(case)
    if k == 'api':
        return run_api_case(case)
    if k == 'cli':
        return run_cli_subproc(case) if case.get('mode') == 'subproc' else run_cli_inproc(case)
    raise ValueError(k)
