"""C19 layout driver: runs ONE invocation of the real pypyr inside a fresh process whose cwd
is the layout's working directory (pypyr.config freezes cwd at import).

stdin : {"builtin": <dir or null>, "subdir": <str or null>, "pre_syspath": [dirs],
         "invokes": [{"name":..., "loader":..., "py_dir":...}, ...]}   (run one after the other)
stdout: one JSON object (raw observation; the parent process canonicalises the temp root)."""
import json
import os
import sys


def main():
    spec = json.load(sys.stdin)
    sys.path.extend(spec.get('pre_syspath') or [])     # entries that exist before pypyr runs
    before = list(sys.path)
    from pathlib import Path
    from pypyr.config import config
    if spec.get('subdir') is not None:
        config.pipelines_subdir = spec['subdir']      # read once, when the file loader imports
    import pypyr.loaders.file as lf
    out = {'cwd': os.getcwd(), 'config_cwd': str(config.cwd),
           'builtin_default': str(lf.builtin_pipelines_dir),
           'cwd_pipelines': str(lf.cwd_pipelines_dir),
           'default_loader': str(config.default_loader)}
    if spec.get('builtin'):
        lf.builtin_pipelines_dir = Path(spec['builtin'])
    from pypyr import pipelinerunner
    from pypyr.errors import get_error_name
    import c19_probe
    err = None
    invs = spec['invokes']
    for i, inv in enumerate(invs):
        err = None
        try:
            pipelinerunner.run(inv['name'], loader=inv.get('loader'), py_dir=inv.get('py_dir'))
        except Exception as e:   # the observation
            name = get_error_name(e)
            if name == 'pypyr.errors.PyModuleNotFoundError':
                cause = e.__cause__
                msg = getattr(cause, 'name', None) or str(e)
            else:
                msg = str(e)
            err = [name, msg]
        if i + 1 < len(invs):     # marker between consecutive root runs of this process
            c19_probe.TRACE.append(['run-ok'] if err is None else ['run-err'] + err)
    out['trace'] = c19_probe.TRACE
    out['err'] = err
    out['syspath_added'] = [p for p in sys.path if p not in before]
    out['syspath_prefix_kept'] = sys.path[:len(before)] == before
    sys.stdout.write(json.dumps(out))


if __name__ == '__main__':
    import logging
    logging.disable(logging.CRITICAL)
    main()
