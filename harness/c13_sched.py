"""C13 helper: replay a model schedule, step for step, on REAL pypyr Cache objects running
on real threads.

One schedule entry `t` = "thread t executes its next instruction".  A worker thread parks at
a *gate* in front of every instruction of Model/Cache.v:

    start     P0 (get): read config.no_cache          (parked in the worker wrapper)
    acquire   PAcquire / P0 (clear): lock.__enter__   (granted only while the lock is free;
                                                       otherwise the step is a no-op)
    contains  PIfContains: `key in self._cache`       (dict subclass)
    load      PLoad: self._cache[key]
    enter     PCreateEnter / PNcEnter: creator called
    exit      PCreateExit / PNcExit: creator returns or raises
    store     PStore: self._cache[key] = obj
    clearall  PClearAll: self._cache.clear()
    release   PRelease / PReleaseExc / PCRelease: lock.__exit__
    return / raise / creturn    the result reaches the caller

The controller grants exactly one thread at a time and waits until that thread is parked
again (or finished), so the run is deterministic; time-outs are only a safety net.
The cache's `_lock` is replaced by a controller-driven lock (assumed-correct mutex, the
hypothesis of the proof) and `_cache` by a gated dict subclass; Cache.get / Cache.clear /
Loader.get_pipeline themselves are the unmodified code from the repo.
"""
import threading
import types

TIMEOUT = 20.0


class Abort(BaseException):
    pass


class Ctl:
    def __init__(self, n):
        self.n = n
        self.cv = threading.Condition()
        self.at = [None] * n
        self.permit = [False] * n
        self.arrivals = [0] * n
        self.done = [False] * n
        self.abort = False
        self.events = []
        self.objs = []          # objects made by creators, in creation order
        self.local = threading.local()
        self.lock_owner = None
        self.cur = [None] * n   # current request (parent, name) of each thread
        self.anomalies = []
        self.attr = None        # cached item = this attribute of the created module (step / back-off targets)

    # ---- worker side
    def tid(self):
        return self.local.t

    def gate(self, name):
        t = self.local.t
        with self.cv:
            self.at[t] = name
            self.arrivals[t] += 1
            self.cv.notify_all()
            while not self.permit[t]:
                if self.abort:
                    raise Abort()
                if not self.cv.wait(TIMEOUT):
                    self.abort = True
                    self.cv.notify_all()
                    raise Abort()
            self.permit[t] = False
            self.at[t] = None

    def ev(self, *e):
        self.events.append(list(e))

    def idx(self, o):
        for i, x in enumerate(self.objs):
            if x is o or getattr(o, 'pipeline', None) is x:
                return i
            if self.attr is not None and getattr(x, self.attr, None) is o:
                return i
        return -1

    # ---- controller side
    def step(self, t):
        with self.cv:
            if not self._wait(lambda: self.at[t] is not None or self.done[t]):
                return 'timeout'
            if self.done[t]:
                return 'done'
            if self.at[t] == 'acquire' and self.lock_owner is not None:
                return 'blocked'
            n = self.arrivals[t]
            self.permit[t] = True
            self.cv.notify_all()
            if not self._wait(lambda: self.arrivals[t] > n or self.done[t]):
                return 'timeout'
            return 'ok'

    def _wait(self, pred):
        while not pred():
            if self.abort or not self.cv.wait(TIMEOUT):
                self.abort = True
                self.cv.notify_all()
                return False
        return True

    def finish(self, t):
        with self.cv:
            self.done[t] = True
            self.at[t] = None
            self.cv.notify_all()

    def kill(self):
        with self.cv:
            self.abort = True
            self.cv.notify_all()


class CtlLock:
    """Stands in for threading.Lock: a mutex whose acquisition order the controller decides."""

    def __init__(self, ctl):
        self.ctl = ctl

    def acquire(self, *a, **k):
        c = self.ctl
        c.gate('acquire')
        if c.lock_owner is not None:
            c.anomalies.append('lock granted while held')
        c.lock_owner = c.tid()
        c.ev('acq', c.tid())
        return True

    def release(self):
        c = self.ctl
        c.gate('release')
        c.lock_owner = None
        c.ev('rel', c.tid())

    def __enter__(self):
        self.acquire()
        return self

    def __exit__(self, et, ev, tb):
        self.release()
        return False

    def locked(self):
        return self.ctl.lock_owner is not None


class CtlDict(dict):
    def __init__(self, ctl):
        super().__init__()
        self.ctl = ctl

    def __contains__(self, k):
        self.ctl.gate('contains')
        return dict.__contains__(self, k)

    def __getitem__(self, k):
        c = self.ctl
        c.gate('load')
        o = dict.__getitem__(self, k)
        c.ev('load', c.tid(), c.cur[c.tid()], c.idx(o))
        return o

    def __setitem__(self, k, v):
        c = self.ctl
        c.gate('store')
        dict.__setitem__(self, k, v)
        c.ev('store', c.tid(), c.cur[c.tid()], c.idx(v))

    def clear(self):
        c = self.ctl
        c.gate('clearall')
        dict.clear(self)
        c.ev('clear', c.tid())


class CreatorFailed(Exception):
    pass


def _fresh_fn():
    def f(*a, **k):
        return None
    return f


def gated_backoff_cache(ctl):
    """The real BackoffCache, whose clear() REBINDS self._cache to a fresh dict: `_cache` becomes a
    property of a harness subclass so that every dict the cache ever binds is a gated CtlDict and the
    rebinding itself is the gated 'clearall' instruction.  get / clear / get_backoff are the
    repository's code."""
    from pypyr.cache.backoffcache import BackoffCache

    class GatedBackoffCache(BackoffCache):
        def _get(self):
            return self.__dict__['_c13_dict']

        def _set(self, value):
            t = getattr(ctl.local, 't', None)
            if t is not None:
                ctl.gate('clearall')
            d = CtlDict(ctl)
            dict.update(d, value)
            self.__dict__['_c13_dict'] = d
            if t is not None:
                ctl.ev('clear', t)
        _cache = property(_get, _set)
    return GatedBackoffCache()


def run_schedule(case):
    """case: {'target': 'cache'|'loader', 'nc': bool, 'progs': [[op..]..], 'sched': [t..]}
    op = ['get', parent|None, name, ok] | ['clear'].  Returns the observation."""
    from pypyr.cache.cache import Cache
    from pypyr.cache.loadercache import Loader
    from pypyr.config import config
    from pypyr.pipedef import PipelineDefinition
    import pypyr.moduleloader as ml

    saved_get_module = ml.get_module
    progs = case['progs']
    n = len(progs)
    ctl = Ctl(n)
    okflag = [None] * n
    nbad = [0]

    def make(t):
        c = ctl
        c.gate('enter')
        c.ev('call', t, c.cur[t])
        c.gate('exit')
        if okflag[t] == 'bad' and case['target'] == 'loader':
            # the loader hands back a malformed (non-mapping) payload: Loader._load_pipeline - the
            # creator as far as the cache is concerned - has to refuse it, i.e. this creation fails
            nbad[0] += 1
            bad = [[1, 2], 'steps', None, 7][nbad[0] % 4]
            c.ev('failed', t, c.cur[t])
            return PipelineDefinition(pipeline=bad, info=None) if nbad[0] % 3 == 0 else bad
        if okflag[t] and case['target'] in ('backoff', 'step'):
            o = types.SimpleNamespace()
            setattr(o, c.attr, _fresh_fn())
            c.objs.append(o)
            c.ev('created', t, c.cur[t], len(c.objs) - 1)
            return o
        if okflag[t] is True:
            # half of the loader's creations are bare mappings (the Loader wraps them)
            raw = {'steps': [], 'n': len(c.objs)}
            o = raw if (case['target'] == 'loader' and len(c.objs) % 2) else \
                PipelineDefinition(pipeline=raw, info=None)
            c.objs.append(o)
            c.ev('created', t, c.cur[t], len(c.objs) - 1)
            return o
        c.ev('failed', t, c.cur[t])
        raise CreatorFailed(f'creator for {c.cur[t]!r} fails')

    if case['target'] == 'loader':
        def gpd(pipeline_name, parent):
            return make(ctl.tid())
        loader = Loader('c13.loader', gpd)
        cache = loader._pipeline_cache

        def do_get(t, parent, name):
            return loader.get_pipeline(name, parent)

        def do_clear():
            loader.clear()
    elif case['target'] in ('backoff', 'step'):
        # the REAL StepCache / BackoffCache; their creators import a module: substitute the importer
        ml.get_module = lambda name: make(ctl.tid())
        if case['target'] == 'step':
            from pypyr.cache.stepcache import StepCache
            ctl.attr = 'run_step'
            cache = StepCache()
            getter = cache.get_step
        else:
            ctl.attr = 'Strategy'
            cache = gated_backoff_cache(ctl)
            getter = lambda name: cache.get_backoff(name + '.Strategy')  # noqa

        def do_get(t, parent, name):
            return getter(name)

        def do_clear():
            cache.clear()
    else:
        cache = Cache()

        def do_get(t, parent, name):
            return cache.get(name, lambda: make(t))

        def do_clear():
            cache.clear()
    cache._lock = CtlLock(ctl)
    if case['target'] != 'backoff':
        assert '_cache' in vars(cache)
        cache._cache = CtlDict(ctl)

    def worker(t):
        ctl.local.t = t
        try:
            for op in progs[t]:
                if op[0] == 'get':
                    _, parent, name, ok = op
                    ctl.cur[t] = [parent, name]
                    okflag[t] = ok
                    ctl.gate('start')
                    ctl.ev('_begin', t, [parent, name])
                    try:
                        o = do_get(t, parent, name)
                    except Abort:
                        raise
                    except Exception as e:  # noqa
                        ctl.gate('raise')
                        ctl.ev('raise', t, [parent, name], type(e).__name__)
                        continue
                    ctl.gate('return')
                    ctl.ev('ret', t, [parent, name], ctl.idx(o))
                else:
                    ctl.cur[t] = None
                    do_clear()
                    ctl.gate('creturn')
                    ctl.ev('cleared', t)
        except Abort:
            pass
        finally:
            ctl.finish(t)

    saved = config.no_cache
    config.no_cache = bool(case['nc'])
    threads = [threading.Thread(target=worker, args=(t,), daemon=True) for t in range(n)]
    status = 'ok'
    blocked = 0
    try:
        for th in threads:
            th.start()
        for t in case['sched']:
            if t >= n:
                continue
            r = ctl.step(t)
            if r == 'blocked':
                blocked += 1
            if r == 'timeout':
                status = 'timeout'
                break
    finally:
        unfinished = [[t, ctl.at[t]] for t in range(n) if not ctl.done[t]]
        ctl.kill()
        for th in threads:
            th.join(TIMEOUT)
        config.no_cache = saved
        ml.get_module = saved_get_module
    return {'events': ctl.events, 'status': status, 'unfinished': unfinished,
            'anomalies': ctl.anomalies, 'n_objs': len(ctl.objs), 'blocked_steps': blocked,
            'final_keys': sorted(repr(k) for k in dict.keys(cache._cache))[:20]}
