"""C12 case language: steps whose `in` supplies definition objects and whose bodies copy,
share or mutate context values.  One case -> (a) yaml text for the real pypyr, (b) the op
lists of Model/Alias.v.

tree (JSON): int | {'l': [tree..]} | {'d': [[key, tree]..]} | {'ref': [mode, key]}
             mode: 'copy' = '{key}', 'ff' = '{key:ff}', 'py' = !py key
data trees (in values, dict_in, config vars) are reference-free.

step = {'kind': 'set',     'in': [[k, data]..], 'pairs': [[k, tree]..]}
     | {'kind': 'append',  'in': .., 'list': k, 'mode': 'key'|'ff'|'py', 'addMe': tree}
     | {'kind': 'merge',   'in': .., 'pairs': [[k, tree]..]}            pypyr.steps.contextmerge
     | {'kind': 'default', 'in': .., 'pairs': [[k, tree]..]}
     | {'kind': 'py',      'in': .., 'code': ['append', k, z] | ['setitem', k, s, z], 'retry': n?}
     | {'kind': 'copy',    'in': .., 'pairs': [[k, k']..]}              pypyr.steps.contextcopy
     | {'kind': 'configvars'}
     | {'kind': 'fail',    'in': .., 'swallow': bool, 'onError': tree | None}   a step that raises
       ValueError (harness step vfail); save_error stores format(onError) as
       runErrors[-1]['customError']
     | {'kind': 'pype', 'in': .., 'pipeArg': 'a0 a1'}   pypyr.steps.pype of the pipeline case['child']
       (context_parser pypyr.parser.list) with pipeArg and useParentContext: true - the child's
       parser binds argList to the list pype split from pipeArg, then the child's steps run on the
       same context
     | {'kind': 'call', 'in': .., 'group': [step..], 'foreach': [tree..]?}   pypyr.steps.call of a step
       group holding `group` (inner steps carry no foreach); after each call returns,
       Step.reset_context_counters puts the step's OWN current foreach item back into context['i']
     a `set` pair value / a py target may be {'pyref': [key, path]}: the object reached from
       context[key] by the subscripts path ([['last']] = [-1], [['key', s]] = ['s']), BY REFERENCE
       (set: {k: !py "key[-1]['s']"}  /  py: "key[-1]['s'].append(z)")
     optional on every kind except configvars: 'foreach': [tree..]  (non-empty literal)
     | {'kind': 'add', ...} / {'kind': 'foreachref', ...}: outside the model (monitor-only), raw yaml
threads = None | {'schedules': [[0,1,1,0..]..], 'same': bool}: two runs on real threads, one block of
       operations at a time as the schedule says; same = both threads run main (ONE cached pipeline)
case = {'main': [step..], 'other': [step..], 'vars': [[k, data]..], 'dict_in': [[k, data]..],
        'shortcut': bool, 'threads': None | {'schedules': [[0,1,1,0..]..]},
        'parser': None | 'list' | 'keys' | 'keyvaluepairs' | 'string'   (context_parser of main),
        'sc_parser_args': None | [str..]   (config.shortcuts[..]['parser_args'], needs shortcut),
        'args_in': None | [str..]          (args_in the caller passes on every run of main),
        'file_loader': None | {'layout': 'name'|'dir'|'both'}   main / other are written to a temp dir
                            as two yaml files whose paths differ only in case and are run through
                            pypyr's real file loader (sequential tier)
        'two_loaders': bool  (with file_loader and a pype child) main is run through a custom loader that
                            wraps the file loader, then through the file loader, then the wrapper again
        'vars_yaml': bool   config.vars built by ruamel's round-trip loader from yaml text, as
                            Config.init() does for a config file (CommentedMap/Seq/Set), else plain}
Strings and bools only come from context parsers; observations encode them as ints (enc)
- they are immutable scalars, so only their value matters to the heap model.
"""
import json

RESERVED = {'pype', 'call', 'set', 'append', 'contextMerge', 'defaults', 'py', 'contextCopy', 'add', 'vfail',
            'c12tid', 'c12turn'}
STEP_MODULE = {'set': 'pypyr.steps.set', 'append': 'pypyr.steps.append',
               'merge': 'pypyr.steps.contextmerge', 'default': 'pypyr.steps.default',
               'py': 'pypyr.steps.py', 'copy': 'pypyr.steps.contextcopy',
               'configvars': 'pypyr.steps.configvars', 'add': 'pypyr.steps.add', 'fail': 'vfail',
               'call': 'pypyr.steps.call', 'pype': 'pypyr.steps.pype'}

PARSER_MODULE = {'list': 'pypyr.parser.list', 'keys': 'pypyr.parser.keys',
                 'keyvaluepairs': 'pypyr.parser.keyvaluepairs', 'string': 'pypyr.parser.string'}
TRUE_CODE = -1
FALSE_CODE = -2


def enc(s):
    """injective int code of a string (observations and model terms use the same code)."""
    return 10 ** 6 + int.from_bytes(s.encode('utf-8'), 'big') * 256 + len(s.encode('utf-8'))


# ---------------------------------------------------------------- yaml


def yflow(t):
    if isinstance(t, bool):
        raise ValueError('bool')
    if isinstance(t, int):
        return str(t)
    if 'l' in t:
        return '[' + ', '.join(yflow(x) for x in t['l']) + ']'
    if 's' in t:
        return '!!set {' + ', '.join(yflow(x) for x in t['s']) + '}'
    if 'd' in t:
        return '{' + ', '.join(f'{k}: {yflow(x)}' for k, x in t['d']) + '}'
    if 'pyref' in t:
        return '!py ' + json.dumps(path_source(t['pyref']))
    if 'ref' in t:
        mode, key = t['ref']
        if mode == 'copy':
            return json.dumps('{' + key + '}')
        if mode == 'ff':
            return json.dumps('{' + key + ':ff}')
        if mode == 'py':
            return '!py ' + json.dumps(key)
    raise ValueError(f'bad tree {t!r}')


def path_source(pyref):
    key, path = pyref
    return key + ''.join('[-1]' if p[0] == 'last' else f'[{p[1]!r}]' for p in path)


def py_target(t):
    """(source text, base key, path) of a py step's target: a key or {'pyref': [key, path]}."""
    if isinstance(t, dict):
        return path_source(t['pyref']), t['pyref'][0], t['pyref'][1]
    return t, t, []


def py_source(st):
    code = st['code']
    tgt = py_target(code[1])[0]
    if code[0] == 'append':
        src = f'{tgt}.append({code[2]})'
    else:
        src = f'{tgt}[{code[2]!r}] = {code[3]}'
    if st.get('retry'):
        src += f"\nif retryCounter < {st['retry']}: raise ValueError('again')"
    return src


def body_arg(st):
    """(key, yaml flow text) of the step's own argument, or None."""
    k = st['kind']
    if k == 'set':
        return 'set', yflow({'d': st['pairs']})
    if k == 'append':
        lst = st['list'] if st['mode'] == 'key' else yflow({'ref': [st['mode'], st['list']]})
        return 'append', '{list: ' + lst + ', addMe: ' + yflow(st['addMe']) + '}'
    if k == 'merge':
        return 'contextMerge', yflow({'d': st['pairs']})
    if k == 'default':
        return 'defaults', yflow({'d': st['pairs']})
    if k == 'py':
        return 'py', json.dumps(py_source(st))
    if k == 'copy':
        return 'contextCopy', '{' + ', '.join(f'{a}: {b}' for a, b in st['pairs']) + '}'
    if k == 'add':
        return 'add', '{set: ' + st['set'] + ', addMe: ' + yflow(st['addMe']) + '}'
    if k == 'fail':
        return 'vfail', '{err: ValueError, msg: boom}'
    if k == 'pype':
        return 'pype', '{name: child, pipeArg: ' + json.dumps(st['pipeArg']) + ', useParentContext: true}'
    return None


def emit_step(st, turn, indent, extra_in=None):
    lines = []
    pad = ' ' * indent
    if turn:
        lines.append(f'{pad}- c12_turn')
    if st['kind'] == 'raw':
        lines += [pad + ln for ln in st['yaml'].splitlines()]
    elif st['kind'] == 'configvars':
        lines.append(f'{pad}- pypyr.steps.configvars')
    else:
        lines.append(f'{pad}- name: {STEP_MODULE[st["kind"]]}')
        items = [f'{k}: {yflow(v) if not isinstance(v, str) else v}' for k, v in st.get('in', [])]
        ba = extra_in or body_arg(st)
        if ba:
            items.append(f'{ba[0]}: {ba[1]}')
        lines.append(f'{pad}  in: {{' + ', '.join(items) + '}')
        if st.get('foreach'):
            lines.append(f'{pad}  foreach: ' + yflow({'l': st['foreach']}))
        if st.get('retry'):
            lines.append(f'{pad}  retry: {{max: ' + str(st['retry']) + '}')
        if st['kind'] == 'fail':
            if st.get('swallow'):
                lines.append(f'{pad}  swallow: true')
            if st.get('onError') is not None:
                lines.append(f'{pad}  onError: ' + yflow(st['onError']))
    lines.append(f'{pad}- c12_probe')
    return lines


def emit_pipeline(steps, turn=False, parser=None):
    """yaml text; real step j is at index 2j (+ a turnstile step before it when turn),
    each followed by the probe step; the group of call step j is the step-group sub<j>."""
    lines = ['steps:']
    groups = []
    for j, st in enumerate(steps):
        if st['kind'] == 'call':
            lines += emit_step(st, turn, 2, ('call', f'sub{j}'))
            g = [f'sub{j}:']
            for inner in st['group']:
                g += emit_step(inner, turn, 2)
            groups.append(g)
        else:
            lines += emit_step(st, turn, 2)
    if len(lines) == 1:
        lines = ['steps: []']
    for g in groups:
        lines += g
    if parser:
        lines.insert(0, f'context_parser: {PARSER_MODULE[parser]}')
    return '\n'.join(lines) + '\n'


def step_index(j, turn=False):
    """index of real step j in the emitted steps list."""
    return 3 * j + 1 if turn else 2 * j

# ---------------------------------------------------------------- roots


def has_set(t):
    if isinstance(t, dict):
        return 's' in t or any(has_set(x) for x in t.get('l', [])) or any(has_set(x) for _, x in t.get('d', []))
    return False


def pipes_of(case):
    return ('main', 'other', 'child') if case.get('child') else ('main', 'other')


def all_steps(case):
    for p in pipes_of(case):
        for st in case[p]:
            yield st
            for inner in st.get('group', []):
                yield inner


def in_model(case):
    for st in all_steps(case):
        if st['kind'] in ('add', 'raw') or any(has_set(v) for _, v in st.get('in', [])):
            return False
    return not any(has_set(v) for _, v in case['vars'] + case['dict_in'])


LOADER_SEEN = ['vloader']      # loader the observation being compared was made with


def info_tree(loader):
    return {'d': [['loader', enc(loader)], ['is_loader_cascading', TRUE_CODE], ['is_parent_cascading', TRUE_CODE]]}


def roots(case):
    """[(where, tree)] in the order the Coq side loads them: main in-values, other in-values, vars."""
    out = []
    for pname in pipes_of(case):
        for j, st in enumerate(case[pname]):
            for k, v in st.get('in', []):
                out.append(((pname, j, k), v))
            for m, inner in enumerate(st.get('group', [])):
                for k, v in inner.get('in', []):
                    out.append(((pname, (j, m), k), v))
    for pname in pipes_of(case):
        # the definition's PipelineInfo: which loader it was requested from and whether loader /
        # parent cascade to pype children - part of what the loader produced, never written by a run
        out.append(((pname, 'info', None), info_tree(LOADER_SEEN[0])))
    for k, v in case['vars']:
        out.append((('vars', None, k), v))
    if case.get('shortcut') and case.get('sc_parser_args') is not None:
        out.append((('shortcut', None, 'parser_args'), {'l': [enc(a) for a in case['sc_parser_args']]}))
    return out


def parser_ops(case, root_index, direct=False):
    """ops of Pipeline._prepare_context for a run of main: what the context parser puts into the
    context, given where its argument list comes from (Pipeline.new_pipe_and_args).
    direct = main run by name (threaded tier), not through the shortcut."""
    parser = case.get('parser')
    args_in = case.get('args_in') or None
    via_sc = bool(case.get('shortcut')) and not direct
    sc_args = case.get('sc_parser_args') if via_sc else None
    shared = False
    if sc_args:                                   # `if parser_args:`
        if args_in:
            context_args = sc_args + args_in      # a new list
        else:
            context_args = sc_args                # list(parser_args) since fd90231; the
            shared = True                         # shortcut's own list object before
    else:
        context_args = args_in
    # Pipeline._get_parse_input with parse_args None
    dict_in_given = bool(case['dict_in']) if via_sc else True
    parse = not (not context_args and dict_in_given)
    if not parse or not parser:
        return []
    if parser == 'list':
        if not context_args:
            return [('SetFmt', 'argList', {'l': []})]
        if shared:
            return [('InjectIn', 'argList', root_index[('shortcut', None, 'parser_args')], 'TPShortcutParserArgs')]
        return [('SetFmt', 'argList', {'l': [enc(a) for a in context_args]})]
    if not context_args:
        return [('SetInt', 'argString', enc(''))] if parser == 'string' else []
    if parser == 'keys':
        return [('SetInt', a, TRUE_CODE) for a in context_args]
    if parser == 'keyvaluepairs':
        return [('SetInt', a.partition('=')[0], enc(a.partition('=')[2])) for a in context_args]
    return [('SetInt', 'argString', enc(' '.join(context_args)))]

# ---------------------------------------------------------------- Coq


def cstr(s):
    return '"' + s.replace('"', '""') + '"'


def ctree(t):
    if isinstance(t, int):
        return f'(TInt ({t})%Z)'
    if 'l' in t:
        return '(TList [' + '; '.join(ctree(x) for x in t['l']) + '])'
    if 'd' in t:
        return '(TDict [' + '; '.join(f'({cstr(k)}, {ctree(x)})' for k, x in t['d']) + '])'
    if 'ref' in t:
        mode = {'copy': 'RCopy', 'ff': 'RFlat', 'py': 'RPy'}[t['ref'][0]]
        return f'(TRef {mode} {cstr(t["ref"][1])})'
    if 'obj' in t:
        if t['obj'] == 'cycle':
            return '(TRef RCopy "<cycle>")'
        return f'(TRef RCopy {cstr("<obj " + str(t["obj"]) + ">")})'
    raise ValueError(f'bad tree {t!r}')


def cpairs(pairs):
    return '[' + '; '.join(f'({cstr(k)}, {ctree(v)})' for k, v in pairs) + ']'


def body_ops(st):
    """abstract operations (tuples) of the step's body."""
    k = st['kind']
    if k == 'set':
        return [('BindPath', a, t['pyref'][0], t['pyref'][1]) if isinstance(t, dict) and 'pyref' in t
                else ('SetFmt', a, t) for a, t in st['pairs']]
    if k == 'fail':
        oe = st.get('onError')
        # `if self.on_error` - a falsy onError ([] / {} / 0 / absent) is not formatted: customError = {}
        falsy = oe is None or oe == 0 or (isinstance(oe, dict) and (oe.get('l') == [] or oe.get('d') == []))
        ops = [('SaveError', {'d': []} if falsy else oe)]
        return ops if st.get('swallow') else ops + [('Raise', 'ValueError')]
    if k == 'append':
        if st['mode'] == 'key':
            return [('AppendKey', st['list'], st['addMe'])]
        return [('AppendObj', st['mode'], st['list'], st['addMe'])]
    if k == 'merge':
        return [('Merge', st['pairs'])]
    if k == 'default':
        return [('Defaults', st['pairs'])]
    if k == 'py':
        c = st['code']
        _, base, path = py_target(c[1])
        if path:
            # x[..][..].append(z): find the object (by reference), then mutate it
            one = [('BindPath', '$t', base, path),
                   ('PyAppend', '$t', c[2]) if c[0] == 'append' else ('PySetItem', '$t', c[2], c[3]),
                   ('Unset', '$t')]
            return one
        one = ('PyAppend', c[1], c[2]) if c[0] == 'append' else ('PySetItem', c[1], c[2], c[3])
        if st.get('retry'):
            out = []
            for n in range(1, st['retry'] + 1):
                out += [('SetInt', 'retryCounter', n), one]
            return out
        return [one]
    if k == 'copy':
        return [('CopyRef', a, b) for a, b in st['pairs']]
    raise ValueError(k)


def step_blocks(st, root_index, where, var_roots):
    """the operations of one step and its probe, as BLOCKS: a new block starts wherever the
    threaded tier has a turnstile (before the step, and before every step of a called group)."""
    if st['kind'] == 'configvars':
        return [[('InjectIn', k, n, 'TPConfigVars') for k, n in var_roots] + [('Probe',)]]
    inject = [('InjectIn', k, root_index[(where[0], where[1], k)], 'TPIn') for k, _ in st.get('in', [])]
    unset = [('Unset', k) for k, _ in st.get('in', [])] + [('Probe',)]
    items = st.get('foreach')
    if st['kind'] != 'call':
        ops = list(inject)
        if st['kind'] == 'pype':
            # get_arguments: pipe_arg = shlex.split(pipeArg) - a NEW list for every execution; the
            # child's pypyr.parser.list binds argList to that very list; then the child's steps
            import shlex
            child = ROOTS_CASE[0]['child']
            body = [('SetFmt', 'argList', {'l': [enc(a) for a in shlex.split(st['pipeArg'])]})]
            for m, cst in enumerate(child):
                body += step_ops(cst, root_index, ('child', m), var_roots)
        else:
            body = body_ops(st)
        if items:
            ops.append(('SetFmt', '$fe', {'l': items}))
            for n in range(len(items)):
                ops.append(('BindElem', 'i', '$fe', n))
                ops += body
            ops.append(('Unset', '$fe'))
        else:
            ops += body
        return [ops + unset]
    # pypyr.steps.call: the called group's steps run (each its own block); when the call returns,
    # Step.reset_context_counters puts THIS step's current foreach item back into context['i']
    blocks = [list(inject)]
    if items:
        blocks[0].append(('SetFmt', '$fe', {'l': items}))
    for n in range(len(items) if items else 1):
        if items:
            blocks[-1].append(('BindElem', 'i', '$fe', n))
        for m, inner in enumerate(st['group']):
            blocks += step_blocks(inner, root_index, (where[0], (where[1], m)), var_roots)
        if items:
            blocks[-1].append(('BindElem', 'i', '$fe', n))
    if items:
        blocks[-1].append(('Unset', '$fe'))
    blocks[-1] += unset
    return blocks


def step_ops(st, root_index, where, var_roots):
    return [o for b in step_blocks(st, root_index, where, var_roots) for o in b]


def render_op(o):
    t = o[0]
    if t == 'InjectIn':
        return f'InjectIn {o[3]} {cstr(o[1])} (rt {o[2]}%nat)'
    if t == 'Unset':
        return f'Unset {cstr(o[1])}'
    if t == 'SetFmt':
        return f'SetFmt {cstr(o[1])} {ctree(o[2])}'
    if t == 'CopyRef':
        return f'CopyRef {cstr(o[1])} {cstr(o[2])}'
    if t == 'AppendKey':
        return f'AppendKey {cstr(o[1])} {ctree(o[2])}'
    if t == 'AppendObj':
        return f'AppendObj {"RFlat" if o[1] == "ff" else "RPy"} {cstr(o[2])} {ctree(o[3])}'
    if t == 'PyAppend':
        return f'PyAppend {cstr(o[1])} ({o[2]})%Z'
    if t == 'PySetItem':
        return f'PySetItem {cstr(o[1])} {cstr(o[2])} ({o[3]})%Z'
    if t == 'Merge':
        return f'Merge {cpairs(o[1])}'
    if t == 'Defaults':
        return f'Defaults {cpairs(o[1])}'
    if t == 'BindElem':
        return f'BindElem {cstr(o[1])} {cstr(o[2])} {o[3]}%nat'
    if t == 'SetInt':
        return f'SetInt {cstr(o[1])} ({o[2]})%Z'
    if t == 'SaveError':
        return f'SaveError {ctree(o[1])}'
    if t == 'Raise':
        return f'Raise {cstr(o[1])}'
    if t == 'BindPath':
        sels = '; '.join('SLast' if p[0] == 'last' else f'SKey {cstr(p[1])}' for p in o[3])
        return f'BindPath {cstr(o[1])} {cstr(o[2])} [{sels}]'
    if t == 'Probe':
        return 'Probe'
    raise ValueError(o)


ROOTS_CASE = [None]     # the case whose ops are being compiled (a pype step needs its child)


def pipeline_ops(case, pname, blocks=False):
    ROOTS_CASE[0] = case
    rs = roots(case)
    root_index = {w: n for n, (w, _) in enumerate(rs)}
    var_roots = [(w[2], n) for n, (w, _) in enumerate(rs) if w[0] == 'vars']
    bl = [b for j, st in enumerate(case[pname]) for b in step_blocks(st, root_index, (pname, j), var_roots)]
    if pname == 'main':
        # the parser runs before the first step (in the threaded tier: before the first turnstile,
        # where it only creates fresh objects, so it commutes with the other thread's steps)
        pre = parser_ops(case, root_index, direct=blocks)
        if bl:
            bl[0] = pre + bl[0]
        elif pre:
            bl = [pre]
    return bl if blocks else [o for b in bl for o in b]


# ---- python mirror of Alias.disciplined (evidence tags only; the theorem is about the Coq one)
def _byref_tainted(T, t):
    if isinstance(t, int):
        return False
    if 'ref' in t:
        return t['ref'][0] != 'copy' and t['ref'][1] in T
    if 'l' in t:
        return any(_byref_tainted(T, x) for x in t['l'])
    return any(_byref_tainted(T, x) for _, x in t['d'])


def _bind(T, k, t):
    if isinstance(t, dict) and 'ref' in t:
        if t['ref'][0] != 'copy' and t['ref'][1] in T:
            return T | {k}
        return T - {k}
    if _byref_tainted(T, t):
        return None
    return T - {k}


def disciplined(ops):
    T = set()
    for o in ops:
        t = o[0]
        if t == 'InjectIn':
            T = T | {o[1]}
        elif t in ('Unset', 'SetInt'):
            T = T - {o[1]}
        elif t == 'SetFmt':
            T = _bind(T, o[1], o[2])
        elif t in ('CopyRef', 'BindElem', 'BindPath'):
            T = (T | {o[1]}) if o[2] in T else (T - {o[1]})
        elif t == 'SaveError':
            if 'runErrors' in T or _byref_tainted(T, o[1]):
                return False
        elif t == 'AppendKey':
            if o[1] in T or _byref_tainted(T, o[2]):
                return False
        elif t == 'AppendObj':
            if o[2] in T or _byref_tainted(T, o[3]):
                return False
        elif t in ('PyAppend', 'PySetItem'):
            if o[1] in T:
                return False
        elif t == 'Merge':
            for k, v in o[1]:
                if isinstance(v, dict) and 'ref' in v:
                    T = _bind(T, k, v)
                elif k in T or _byref_tainted(T, v):
                    return False
        elif t == 'Defaults':
            for k, v in o[1]:
                if k in T:
                    return False
                if isinstance(v, dict) and 'ref' in v:
                    if v['ref'][0] != 'copy' and v['ref'][1] in T:
                        T = T | {k}
                elif _byref_tainted(T, v):
                    return False
        if T is None:
            return False
    return True


def coq_runs(case, order):
    """Coq term `fun rt => [runspec..]` for the runs named in order ('main'/'other')."""
    specs = {}
    for pname in ('main', 'other'):
        ops = [render_op(o) for o in pipeline_ops(case, pname)]
        specs[pname] = f'(mkrun {cpairs(case["dict_in"])} [' + '; '.join(ops) + '])'
    return '(fun rt => [' + '; '.join(specs[p] for p in order) + '])'


def thread_pipes(case):
    return ('main', 'main') if (case.get('threads') or {}).get('same') else ('main', 'other')


def coq_threads(case):
    """Coq term `fun rt => [thread; thread]`, a thread = (init, [ops of step 0; ops of step 1; ...])."""
    ths = []
    for pname in thread_pipes(case):
        blocks = ['[' + '; '.join(render_op(o) for o in b) + ']' for b in pipeline_ops(case, pname, True)]
        ths.append(f'({cpairs(case["dict_in"])}, [' + '; '.join(blocks) + '])')
    return '(fun rt => [' + '; '.join(ths) + '])'


def coq_scheds(case):
    return '[' + '; '.join('[' + '; '.join(f'{t}%nat' for t in s) + ']' for s in case['threads']['schedules']) + ']'


def coq_defs(case):
    return '[' + '; '.join(ctree(t) for _, t in roots(case)) + ']'


def csnap(s):
    return cpairs(s)


def coq_obs(o):
    out = 'None' if o['outcome'] is None else f'(Some {cstr(o["outcome"])})'
    tr = '[' + '; '.join(csnap(s) for s in o['trace']) + ']'
    defs = '[' + '; '.join(ctree(t) for t in o['defs']) + ']'
    return f'({out}, {tr}, {csnap(o["final"])}, {defs})'
