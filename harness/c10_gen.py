"""C10 generator: pairs (existing context tree, incoming tree) of nested mappings whose
corresponding nodes agree / disagree in kind in every combination, with format expressions
in incoming keys and values that reference context keys (some of them keys merged a moment
earlier), colliding formatted keys, and by-reference values ({k:ff}, !py k)."""
import gen_values as G
import pv

KINDS = ['map', 'list', 'tuple', 'set', 'str', 'bytes', 'scalar', 'none', 'tag']
TREE_KEYS = ['a', 'b', 'c', 'x', 'y', 'm', 'sub', 1, 2]

# helper keys the format expressions refer to; value -> the key it formats to
VARS = [
    ['k1', 'a'], ['k2', 'b'], ['kx', 'x'], ['ub', 'ub'], ['n1', 1], ['n', 3], ['s', 'hello'],
    ['lst', {'l': [1, 'two']}], ['dct', {'d': [['p', 1], ['q', 'v']]}], ['tup', {'t': [1, 2]}],
    ['st', {'s': [1, 2]}], ['ref', '{s}'], ['flag', True], ['none', None], ['by', {'b': 'raw'}],
]


# strings with braces stored in the EXISTING context: merge must leave them byte-identical
RAW_OK = ['{s}', '{k1}', '{{esc}}', '{dct[p]}']                     # would format fine
RAW_ERR = ['a{b}', '{missing}', 'pre {n} post', '{nope}x', '{s', 'x}']  # would (or might) raise
RAW_BRACES = RAW_OK + RAW_ERR


def raw_set_members(rng, n):
    """at most ONE member that raises when formatted: a set is iterated in hash order, so which of
    two failing members raises first (when the set itself gets referenced) is not modelled"""
    xs = rng.sample(RAW_OK + ['p', 'q'], min(n, 3))
    if rng.random() < 0.6:
        xs[rng.randrange(len(xs))] = rng.choice(RAW_ERR)
    return xs


def kind_of(v):
    if v is None:
        return 'none'
    if isinstance(v, str):
        return 'str'
    if isinstance(v, (bool, int)):
        return 'scalar'
    if isinstance(v, dict):
        for t, k in (('d', 'map'), ('l', 'list'), ('t', 'tuple'), ('s', 'set'), ('b', 'bytes'),
                     ('f', 'scalar'), ('obj', 'scalar'), ('py', 'tag'), ('sic', 'tag'), ('jsonify', 'tag')):
            if t in v:
                return k
    raise ValueError(v)


def sort_set(xs):
    return sorted(set(xs), key=pv.set_sort_key)


class Env:
    def __init__(self, rng, risky_ctx):
        self.rng = rng
        n = rng.randrange(5, len(VARS) + 1)
        must = [v for v in VARS if v[0] in ('k1', 'kx', 's', 'lst', 'dct')]
        rest = [v for v in VARS if v not in must]
        self.vars = must + rng.sample(rest, max(0, n - len(must)))
        rng.shuffle(self.vars)
        self.varmap = {k: v for k, v in self.vars}
        self.avail = [k for k, _ in self.vars]
        self.risky_ctx = risky_ctx
        self.earlier = []      # literal top-level incoming keys set so far (for "reads merged")

    def has(self, name):
        return name in self.varmap

    # ---- format strings
    def fmt_string(self, incoming):
        rng = self.rng
        r = rng.random()
        if r < 0.10:
            return G.gen_fmt_string(rng, self.avail, self.varmap, malformed=0.03)
        if r < 0.14 and self.earlier:
            return '{' + str(rng.choice(self.earlier)) + '}'
        if r < 0.17:
            return '{' + str(rng.choice(['a', 'b', 'x', 'm'])) + '}'     # a tree key, maybe absent
        templates = ['{s}', '{n}', 'pre-{s}-{n}', '{lst}', '{dct}', '{dct[p]}', '{lst[1]}', '{ref}',
                     '{ref:rf}', '{tup}', '{st}', '{flag}', '{none}', '{s!r}', '{n:>4}', '{{lit}}',
                     '{s} {s}', '{k1}{n}', '{by}', 'x{lst}y', '{dct[q]}']
        if incoming or self.risky_ctx:
            templates += ['{lst:ff}', '{dct:ff}', '{s:ff}', '{lst:ff}', '{dct:ff}', '{tup:ff}']
        return rng.choice(templates)

    def leaf_str(self, incoming):
        rng = self.rng
        if not incoming and rng.random() < 0.12:
            return rng.choice(RAW_BRACES)
        if rng.random() < (0.65 if incoming else 0.15):
            return self.fmt_string(incoming)
        return rng.choice(G.WORDS)

    def tag(self, incoming):
        rng = self.rng
        r = rng.random()
        if r < 0.3:
            return {'sic': rng.choice(['{s}', 'raw {n} text', '', 'plain'])}
        if r < 0.75:
            if incoming or self.risky_ctx:
                names = [k for k in ('lst', 'dct', 's', 'n', 'tup') if self.has(k)]
                if names and rng.random() < 0.6:
                    return {'py': ['name', rng.choice(names)]}
                return {'py': G.gen_expr(rng, self.avail, self.varmap, 2)}
            return {'py': rng.choice([['int', 5], ['str', 'lit'], ['list', [['int', 1]]], ['bool', True]])}
        return {'jsonify': self.value(rng.choice(['list', 'map', 'str', 'scalar']), 1, incoming)}

    def scalar(self):
        rng = self.rng
        r = rng.random()
        if r < 0.4:
            return rng.choice([0, 1, 2, 7, -5, 42])
        if r < 0.55:
            return rng.choice([True, False])
        if r < 0.75:
            return {'f': rng.choice(G.FLOATS)}
        if r < 0.85:
            return {'obj': rng.randrange(3)}
        return rng.choice([0, 1, 100])

    def leaf(self, incoming):
        rng = self.rng
        r = rng.random()
        if r < 0.45:
            return self.leaf_str(incoming)
        if r < 0.75:
            return self.scalar()
        if r < 0.82:
            return None
        if r < 0.90:
            return {'b': rng.choice(['', 'raw', '{s}', 'by\xfftes'])}
        return self.tag(incoming)

    def member(self, depth, incoming):
        rng = self.rng
        if depth > 0 and rng.random() < 0.25:
            return self.value(rng.choice(['map', 'list', 'tuple']), depth - 1, incoming)
        return self.leaf(incoming)

    def value(self, kind, depth, incoming):
        rng = self.rng
        if kind == 'map':
            n = rng.randrange(0, 4)
            keys = rng.sample(TREE_KEYS, n)
            out = []
            for k in keys:
                kk = rng.choice(KINDS) if depth > 0 else rng.choice(KINDS[3:])
                out.append([self.key_expr(k) if incoming else k, self.value(kk, depth - 1, incoming)])
            return {'d': out}
        if kind in ('list', 'tuple'):
            xs = [self.member(depth, incoming) for _ in range(rng.randrange(0, 4))]
            if not incoming and rng.random() < 0.3:
                xs.insert(rng.randrange(len(xs) + 1), rng.choice(RAW_BRACES))
            return {'l' if kind == 'list' else 't': xs}
        if kind == 'set':
            if incoming and rng.random() < 0.3 and self.has('s'):
                return {'s': sort_set(rng.sample(['{s}', 'p', 'q', 'x y', '{k1}'], rng.randrange(1, 4)))}
            if not incoming and rng.random() < 0.35:
                # EXISTING members that look like format expressions: they are data, not to be formatted
                return {'s': sort_set(raw_set_members(rng, rng.randrange(1, 4)))}
            return G.gen_set(rng)
        if kind == 'str':
            return self.leaf_str(incoming)
        if kind == 'bytes':
            return {'b': rng.choice(['', 'raw', '{s}', 'by\xfftes', "q'"])}
        if kind == 'scalar':
            return self.scalar()
        if kind == 'none':
            return None
        if kind == 'tag':
            return self.tag(incoming)
        raise ValueError(kind)

    # ---- keys
    def key_expr(self, k, p=0.3):
        """an incoming key that formats to k: the literal, or an expression through a helper key"""
        rng = self.rng
        if rng.random() < p:
            cands = {'a': ('k1', '{k1}'), 'b': ('k2', '{k2}'), 'x': ('kx', '{kx}'), 'sub': ('ub', 's{ub}'),
                     1: ('n1', '{n1}'), 'hello': ('s', '{s}'), 'new3': ('n', 'new{n}')}
            c = cands.get(k)
            if c and self.has(c[0]):
                return c[1]
        return k


def gen_tree_pairs(env, depth):
    rng = env.rng
    keys = rng.sample(TREE_KEYS, rng.randrange(1, 6))
    out = []
    for k in keys:
        kind = rng.choice(KINDS) if depth > 0 else rng.choice(KINDS[1:])
        if depth > 0 and rng.random() < 0.25:
            kind = 'map'
        out.append([k, env.value(kind, depth - 1, False)])
    return out


def gen_incoming(env, existing, depth, meta, top):
    """incoming items for the mapping level whose existing pairs are `existing`"""
    rng = env.rng
    items = []
    for k, ev in existing:
        is_var = top and k in env.varmap
        if rng.random() < (0.85 if is_var else 0.3):
            continue                      # not named: must keep its value
        ek = kind_of(ev)
        ik = rng.choice(KINDS)
        if ek == 'map' and rng.random() < 0.55:
            ik = 'map'
        elif rng.random() < 0.25:
            ik = ek
        meta.append(f'{ek}/{ik}')
        if ik == 'map' and ek == 'map' and depth > 0:
            v = {'d': gen_incoming(env, ev['d'], depth - 1, meta, False)}
        else:
            v = env.value(ik, max(depth - 1, 0), True)
        key = env.key_expr(k)
        items.append([key, v])
        if top and isinstance(key, str) and '{' not in key:
            env.earlier.append(key)
    have = [k for k, _ in existing]
    for _ in range(rng.randrange(0, 3)):
        k = rng.choice(TREE_KEYS + ['new', 'new3', 'hello', 'z'])
        if k in have:
            continue
        have.append(k)
        ik = rng.choice(KINDS)
        meta.append(f'absent/{ik}')
        key = env.key_expr(k)
        items.append([key, env.value(ik, max(depth - 1, 0), True)])
        if top and isinstance(key, str) and '{' not in key:
            env.earlier.append(key)
    rng.shuffle(items)
    # a second item whose key formats to the same key as an earlier one
    if items and rng.random() < 0.22:
        exprs = {'a': 'k1', 'b': 'k2', 'x': 'kx', 1: 'n1'}
        lits = [k for k, _ in items if k in exprs and env.has(exprs[k])]
        if lits:
            k = rng.choice(lits)
            first = next(v for kk, v in items if kk == k)
            ik = kind_of(first) if rng.random() < 0.6 else rng.choice(KINDS)
            items.append(['{' + exprs[k] + '}', env.value(ik, max(depth - 1, 0), True)])
            meta.append('collision')
    # de-duplicate incoming keys (a python dict cannot hold the same key twice)
    seen, out = [], []
    for k, v in items:
        if any(pv.pv_equal(k, s) for s in seen):
            continue
        seen.append(k)
        out.append([k, v])
    return out


def gen_case(rng, tier):
    risky_ctx = rng.random() < 0.12
    env = Env(rng, risky_ctx)
    depth = 3 if tier == 'thorough' and rng.random() < 0.3 else 2
    tree = gen_tree_pairs(env, depth)
    ctx = [list(p) for p in env.vars] + [p for p in tree if p[0] not in env.varmap]
    if rng.random() < 0.3:
        rng.shuffle(ctx)
    meta = []
    r = rng.random()
    if r < 0.03:
        # by-reference value then a colliding key that mutates it in place
        src, extra = rng.choice([('lst', {'l': [9]}), ('dct', {'d': [['new', 1]]})])
        ref = rng.choice(['{' + src + ':ff}', {'py': ['name', src]}])
        inc = [['x', ref], ['{kx}', extra]]
        meta.append('family:by-reference+collision')
    elif r < 0.07:
        # an existing container whose members have braces, merged with the same kind at the same path
        kind = rng.choice(['set', 'set', 'list', 'tuple', 'map'])
        raw = rng.sample(RAW_BRACES, rng.randrange(1, 4))
        if kind == 'set':
            ev, iv = {'s': sort_set(raw_set_members(rng, len(raw)))}, {'s': sort_set(rng.sample(['p', 'q', '{s}', 'x y'], rng.randrange(1, 3)))}
        elif kind == 'map':
            ev = {'d': [['keep', raw[0]], ['also', {'l': list(raw)}], ['over', raw[-1]]]}
            iv = {'d': [['over', rng.choice(['{s}', 1, 'lit'])], ['new', '{s}']]}
        else:
            tagk = 'l' if kind == 'list' else 't'
            ev, iv = {tagk: list(raw)}, {tagk: [rng.choice(['{s}', 'p', 7])]}
        key = rng.choice(['raw', 'a', 'x'])
        ctx = [p for p in ctx if p[0] != key] + [[key, ev]]
        if rng.random() < 0.5:
            ctx.append(['rawtop', rng.choice(raw)])        # and one the incoming tree does not name
        inc = [[env.key_expr(key), iv]]
        if rng.random() < 0.4:
            inc.append(['other', '{s}'])
        meta.append(f'family:existing-braces-{kind}')
    elif r < 0.11:
        # a list merged into an existing list whose incoming members (2nd and later) read the
        # destination list itself or a mapping above it: they must see it as it was before
        dest = rng.choice(['hist', 'log', 'a'])
        old_items = rng.choice([[1], ['a'], [1, 2], []])
        nested = rng.random() < 0.45
        top = 'cfg' if nested else dest
        ref = f'{{cfg[{dest}]}}' if nested else '{' + dest + '}'
        name = ['index', ['name', 'cfg'], ['str', dest]] if nested else ['name', dest]
        pool = [ref, {'py': ['len', name]}, {'py': ['add', name, ['list', [['int', 9]]]]},
                {'py': name}, 'n={' + (f'cfg[{dest}]' if nested else dest) + '}']
        if nested:
            pool.append('{cfg}')
        if old_items:
            pool.append({'py': ['index', name, ['int', 0]]})
        members = [rng.choice(['b', 'x', 7])] + rng.sample(pool, rng.randrange(1, 4))
        if rng.random() < 0.3:
            members.insert(0, rng.choice(pool))
        ctx = [p for p in ctx if p[0] != top]
        if nested:
            ctx.append(['cfg', {'d': [['name', 'n'], [dest, {'l': old_items}]]}])
            inc = [['cfg', {'d': [[dest, {'l': members}]]}]]
        else:
            ctx.append([dest, {'l': old_items}])
            inc = [[dest, {'l': members}]]
        if rng.random() < 0.4:
            inc.append(['other', '{s}'])
        meta.append('family:list-members-read-destination' + ('-nested' if nested else ''))
    elif r < 0.13:
        # a key that reads a key merged a moment earlier
        inc = [['k1', rng.choice(['b', 'c', 'fresh'])], ['{k1}', env.value(rng.choice(KINDS), 1, True)],
               ['later', '{fresh}' if rng.random() < 0.3 else '{k1}']]
        meta.append('family:reads-merged')
    else:
        inc = gen_incoming(env, ctx, depth, meta, True)
        if rng.random() < 0.1 and inc:
            # move an override of a helper key to the front
            inc.insert(0, [rng.choice(['k1', 'kx', 's']), rng.choice(['b', 'x', 'a', 'y'])])
            seen, out = [], []
            for k, v in inc:
                if any(pv.pv_equal(k, s) for s in seen):
                    continue
                seen.append(k)
                out.append([k, v])
            inc = out
    op = 'merge' if rng.random() < 0.6 else 'defaults'
    via = 'step' if rng.random() < 0.15 else 'method'
    if via == 'step':
        key = 'contextMerge' if op == 'merge' else 'defaults'
        ctx = [p for p in ctx if p[0] != key]
    return {'op': op, 'via': via, 'ctx': ctx, 'inc': inc, 'meta': meta,
            'ctx_cls': rng.choice(['dict', 'dict', 'CommentedMap', 'OrderedDict']),
            'inc_cls': rng.choice(['dict', 'dict', 'CommentedMap', 'OrderedDict']),
            'frozen': rng.random() < 0.15}
