"""C13 helper imported BY the generated user modules: lets the harness hold a module in the
middle of its import ("slow module body") without sleeping."""
import threading

STATE = {}     # module name -> {'parked': Event, 'release': Event, 'runs': [thread names]}


def arm(name):
    STATE[name] = {'parked': threading.Event(), 'release': threading.Event(), 'runs': []}
    return STATE[name]


def park(name):
    st = STATE.get(name)
    if st is None:
        return
    st['runs'].append(threading.current_thread().name)
    st['parked'].set()
    st['release'].wait(20.0)
