"""C19 helpers: layouts on disk, the subprocess run, canonical observations, the Coq printer,
the scenario generator and the statement-level reference used by the monitors.

A case (JSON):
  files   [{path, mod, calls:[{name, loader?, resolve?, parent?, pydir?}], silent?}]
          `path` is relative to the layout root T; the marker the file records is its absolute path.
          In call fields an absent key = key absent in the pype step; JSON null = yaml null.
          Strings may start with "$T" (replaced by the real temp root / by "/T" for Coq).
  mods    [relative paths of python modules]   (each holds a run_step that records __file__)
  dirs    [relative paths of directories that exist besides the ancestors of files]
  builtin 'blt' (redirect builtin_pipelines_dir to T/blt) | None (the real {repo}/pypyr/pipelines)
  subdir  config.pipelines_subdir ('pipelines')
  pre_syspath  [absolute dirs ($T/...) appended to sys.path before pypyr runs]
  invoke  {name, loader, py_dir}       more_invokes [further root runs in the SAME process]
          a call may carry raise: false (pype raiseError: false)
  tags    [feature tags]
cwd is always T/cwd.
"""
import json
import os
import shutil
import subprocess
import sys
import tempfile
from pathlib import Path

import pv

HARNESS = Path(__file__).resolve().parent
DRIVER = HARNESS / 'c19_driver.py'
CT = '/T'            # canonical root in observations and Coq terms
CREPO = '/REPO'
FILE_LOADER = 'pypyr.loaders.file'
CUSTOM_LOADERS = ('c19_loader', 'c19_loader_np', 'c19_loader_nl')
PNF = 'pypyr.errors.PipelineNotFoundError'
PMNF = 'pypyr.errors.PyModuleNotFoundError'


def repo_dir():
    return os.environ.get('VERIF_REPO', '/repo')


def sub(s, root):
    """Replace the $T placeholder."""
    if isinstance(s, str):
        return s.replace('$T', root)
    return s


# ------------------------------------------------------------------ layout on disk

def call_to_yaml(c, root):
    d = {'name': sub(c['name'], root)}
    if 'loader' in c:
        d['loader'] = c['loader']
    if 'resolve' in c:
        d['resolveFromParent'] = c['resolve']
    if 'parent' in c:
        d['parent'] = sub(c['parent'], root)
    if 'pydir' in c:
        d['pyDir'] = sub(c['pydir'], root)
    if 'raise' in c:
        d['raiseError'] = c['raise']
    return {'name': 'pypyr.steps.pype', 'in': {'pype': d}}


def pipeline_text(f, root):
    steps = [{'name': 'c19_probe', 'in': {'c19id': root + '/' + f['path']}}]
    if f.get('mod'):
        steps.append({'name': f['mod']})
    for c in f.get('calls', []):
        steps.append(call_to_yaml(c, root))
    return json.dumps({'steps': steps}, indent=1) + '\n'      # JSON is YAML


MOD_TEXT = ('import c19_probe\n\n\ndef run_step(context):\n'
            "    c19_probe.TRACE.append(['m', __file__])\n")


def build_layout(root, case):
    r = Path(root)
    (r / 'cwd').mkdir(parents=True, exist_ok=True)
    for d in case.get('dirs', []):
        (r / d).mkdir(parents=True, exist_ok=True)
    for f in case['files']:
        if f.get('silent'):
            continue
        p = r / f['path']
        p.parent.mkdir(parents=True, exist_ok=True)
        p.write_text(pipeline_text(f, root))
    for m in case.get('mods', []):
        p = r / m
        p.parent.mkdir(parents=True, exist_ok=True)
        p.write_text(MOD_TEXT)


def canon_str(s, root, repo):
    if not isinstance(s, str):
        return s
    return s.replace(root, CT).replace(repo, CREPO)


def canon_deep(o, root, repo):
    if isinstance(o, str):
        return canon_str(o, root, repo)
    if isinstance(o, list):
        return [canon_deep(x, root, repo) for x in o]
    if isinstance(o, dict):
        return {k: canon_deep(v, root, repo) for k, v in o.items()}
    return o


def run_case(case):
    """Build the layout in a fresh temp dir, run the real pypyr in a subprocess whose cwd is
    T/cwd, return the canonical observation; the temp tree is always removed."""
    repo = str(Path(repo_dir()).resolve())
    root = os.path.realpath(tempfile.mkdtemp(prefix='c19_'))
    try:
        build_layout(root, case)
        inv = case['invoke']
        spec = {'builtin': (root + '/' + case['builtin']) if case.get('builtin') else None,
                'subdir': case.get('subdir'),
                'pre_syspath': [sub(d, root) for d in case.get('pre_syspath', [])],
                'invokes': [{'name': sub(i['name'], root), 'loader': i.get('loader'),
                             'py_dir': sub(i.get('py_dir'), root)}
                            for i in [inv] + list(case.get('more_invokes', []))]}
        env = {'PATH': os.environ.get('PATH', '/usr/bin:/bin'),
               'PYTHONPATH': repo + os.pathsep + str(HARNESS),
               'PYTHONHASHSEED': '0', 'PYTHONDONTWRITEBYTECODE': '1', 'HOME': root,
               'LANG': 'C.UTF-8'}
        p = subprocess.run([sys.executable, '-P', str(DRIVER)], input=json.dumps(spec),
                           cwd=root + '/cwd', env=env, stdout=subprocess.PIPE,
                           stderr=subprocess.PIPE, text=True, timeout=120)
        if p.returncode != 0 or not p.stdout.strip():
            raise RuntimeError(f'c19 driver failed rc={p.returncode}: {p.stderr[-1500:]}')
        raw = json.loads(p.stdout)
    finally:
        shutil.rmtree(root, ignore_errors=True)
    raw = canon_deep(raw, root, repo)
    return {'trace': raw['trace'], 'err': raw['err'], 'syspath': raw['syspath_added'],
            'env': [raw['config_cwd'], raw['cwd_pipelines'], raw['builtin_default'],
                    raw['default_loader']],
            'proc_cwd_ok': raw['cwd'] == raw['config_cwd'],
            'syspath_prefix_kept': raw['syspath_prefix_kept']}


def obs_events(obs):
    """The flat list-of-lists the Coq model produces."""
    ev = [list(map(str, e)) for e in obs['trace']]
    if obs['err'] is None:
        ev.append(['ok'])
    else:
        ev.append(['err', obs['err'][0], obs['err'][1]])
    ev.append(['syspath'] + list(obs['syspath']))
    ev.append(['env'] + list(obs['env']))
    return ev


# ------------------------------------------------------------------ Coq printing
# Literal strings are what costs time in coqc, so every string that occurs more than once in
# a case term is bound once by a `let` in front of it (plain sharing, no trusted table).

class StrTab:
    def __init__(self):
        self.count = {}
        self.names = None

    def ref(self, s):
        if self.names is None:
            self.count[s] = self.count.get(s, 0) + 1
            return '""'
        return self.names.get(s) or pv.coq_str(s)

    def text(self, s):
        """a possibly multi-line string: lines shared, joined by explicit concatenation"""
        parts = s.split('\n')
        if len(parts) == 1:
            return self.ref(s)
        return '(' + ' ++ chr 10 ++ '.join(self.ref(x) for x in parts) + ')'

    def freeze(self):
        keep = [s for s, n in self.count.items() if n > 1 and len(s) > 2]
        self.names = {s: f's{i}' for i, s in enumerate(keep)}

    def wrap(self, term):
        binds = ''.join(f'let {n} := {pv.coq_str(s)} in ' for s, n in self.names.items())
        return f'({binds}{term})'


def with_sharing(build):
    tab = StrTab()
    build(tab)
    tab.freeze()
    return tab.wrap(build(tab))


def cabs(rel):
    return CT + '/' + rel


def coq_optkey(tab, c, key, conv=lambda x: x):
    if key not in c:
        return 'Absent'
    if c[key] is None:
        return 'Null'
    return f'(Given {tab.ref(conv(c[key]))})'


def coq_call(tab, c):
    T = lambda s: sub(s, CT)   # noqa
    res = 'None' if 'resolve' not in c else f'(Some {pv.coq_bool(bool(c["resolve"]))})'
    pyd = 'None' if c.get('pydir') is None else f'(Some {tab.ref(T(c["pydir"]))})'
    mk = 'mkcall_sw' if ('raise' in c and not c['raise']) else 'mkcall'
    return (f'({mk} {tab.ref(T(c["name"]))} (mkopts {coq_optkey(tab, c, "loader")} {res} '
            f'{coq_optkey(tab, c, "parent", T)} {pyd}))')


def coq_pipe(tab, f, fabs):
    mod = 'None' if not f.get('mod') else f'(Some {tab.ref(f["mod"])})'
    calls = pv.coq_list([coq_call(tab, c) for c in f.get('calls', [])])
    return (f'(mkpipe {tab.ref(fabs)} {pv.coq_bool(bool(f.get("silent")))} {mod} {calls})')


def all_dirs(case):
    """Every directory that exists in the layout (canonical absolute paths)."""
    out = {'/', CT, cabs('cwd')}

    def add_anc(p):
        p = os.path.dirname(p)
        while p and p != '/':
            out.add(p)
            p = os.path.dirname(p)
    for f in case['files']:
        add_anc(file_abs(case, f))
    for m in case.get('mods', []):
        add_anc(cabs(m))
    for d in case.get('dirs', []):
        out.add(cabs(d))
        add_anc(cabs(d))
    out.add(builtin_abs(case))
    add_anc(builtin_abs(case) + '/x')
    return sorted(out)


def builtin_abs(case):
    return cabs(case['builtin']) if case.get('builtin') else CREPO + '/pypyr/pipelines'


def file_abs(case, f):
    if f.get('silent'):
        return CREPO + '/pypyr/pipelines/' + f['path']
    return cabs(f['path'])


def real_builtin_entries(case):
    """When the built-in dir is the real one, the model's file system also holds the real
    built-in pipelines (silent: they contain no probe)."""
    if case.get('builtin'):
        return []
    d = Path(repo_dir()) / 'pypyr' / 'pipelines'
    names = sorted(p.name for p in d.glob('*.yaml')) if d.is_dir() else []
    return [{'path': n, 'silent': True, 'calls': []} for n in names]


def coq_world(tab, case):
    files = list(case['files']) + real_builtin_entries(case)
    pipes = pv.coq_list([f'({tab.ref(file_abs(case, f))}, {coq_pipe(tab, f, file_abs(case, f))})' for f in files])
    others = pv.coq_list([tab.ref(cabs(m)) for m in case.get('mods', [])])
    dirs = pv.coq_list([tab.ref(d) for d in all_dirs(case)])
    return (f'(mk_world {tab.ref(cabs("cwd"))} {tab.ref(case.get("subdir") or "pipelines")} '
            f'{tab.ref(builtin_abs(case))} {pipes} {others} {dirs})')


def coq_invoke(tab, case):
    out = []
    for inv in [case['invoke']] + list(case.get('more_invokes', [])):
        ld = pv.coq_opt(inv.get('loader'), tab.ref)
        pd = pv.coq_opt(sub(inv.get('py_dir'), CT), tab.ref)
        out.append(f'({ld}, {pd}, {tab.ref(sub(inv["name"], CT))})')
    return pv.coq_list(out)


def coq_events(tab, ev):
    return pv.coq_list([pv.coq_list([tab.text(x) for x in e]) for e in ev])


def coq_pre(tab, case):
    return pv.coq_list([tab.ref(sub(d, CT)) for d in case.get('pre_syspath', [])])


def coq_check(case, obs):
    ev = obs_events(obs)
    return with_sharing(lambda tab: (
        f'check_case_pre {coq_world(tab, case)} {tab.ref(CREPO)} {coq_pre(tab, case)} '
        f'{coq_invoke(tab, case)} {coq_events(tab, ev)}'))


def coq_model_obs(case):
    return with_sharing(lambda tab: (
        f'run_case_pre {coq_world(tab, case)} {tab.ref(CREPO)} {coq_pre(tab, case)} '
        f'{coq_invoke(tab, case)}'))
