"""C20 child process: runs the REAL pypyr.config.Config.init() under a generated
environment / working directory / set of config files and reports what it sees.

Started by harness/c20_driver.py with `/venv/bin/python c20_child.py [--oneshot]` and
PYTHONPATH=<repo>.  Protocol: one JSON job per line on stdin, one JSON answer per line
on stdout.  Every job gets its own temp sandbox (created and removed here), its own
environment variables and cwd, and a fresh Config() object; `--oneshot` handles a single
job and uses the module-level singleton `pypyr.config.config`, exactly as pypyr.cli.main does.
A job has two environments: `import_env` (default: the same as `env`), in force when the Config
object is constructed / pypyr.config is imported, and `env`, in force (with the job's cwd) when
init() runs.

Nothing here knows about the Coq model: it only writes files, calls the code, and dumps.
"""
import json
import os
import shutil
import sys
import tempfile
from fractions import Fraction

ENV_PREFIXES = ('PYPYR_', 'XDG_', 'ANDROID_')
SB = '/SB'


def from_pv(v):
    """pv (see harness/pv.py) -> plain Python object."""
    if v is None or isinstance(v, (bool, int, str)):
        return v
    if 'd' in v:
        return {from_pv(k): from_pv(x) for k, x in v['d']}
    if 'l' in v:
        return [from_pv(x) for x in v['l']]
    if 'f' in v:
        return v['f'][0] / v['f'][1]
    raise ValueError(f'bad pv {v!r}')


def to_pv(o):
    from collections.abc import Mapping
    if o is None or isinstance(o, bool):
        return o
    if isinstance(o, int):
        return int(o)
    if isinstance(o, str):
        return str(o)
    if isinstance(o, float):
        fr = Fraction(o)
        return {'f': [fr.numerator, fr.denominator]}
    if isinstance(o, Mapping):
        return {'d': [[to_pv(k), to_pv(x)] for k, x in o.items()]}
    if isinstance(o, (list, tuple)):
        return {'l': [to_pv(x) for x in o]}
    return {'obj': repr(o)}


def canon(o):
    """Type-tagged, order-free rendering (tells True from 1, ignores dict order)."""
    if o is None:
        return ['n']
    if isinstance(o, bool):
        return ['b', o]
    if isinstance(o, int):
        return ['i', o]
    if isinstance(o, float):
        return ['f', repr(o)]
    if isinstance(o, str):
        return ['s', o]
    if isinstance(o, list):
        return ['l', [canon(x) for x in o]]
    if isinstance(o, dict):
        return ['d', sorted(([canon(k), canon(x)] for k, x in o.items()), key=json.dumps)]
    return ['?', repr(o)]


def same(a, b):
    return canon(a) == canon(b)


def plain(o):
    """ruamel round-trip objects -> plain dict / list / scalars."""
    from collections.abc import Mapping
    if isinstance(o, Mapping):
        return {plain(k): plain(x) for k, x in o.items()}
    if isinstance(o, (list, tuple)):
        return [plain(x) for x in o]
    if isinstance(o, bool) or o is None:
        return o
    if isinstance(o, int):
        return int(o)
    if isinstance(o, float):
        return float(o)
    if isinstance(o, str):
        return str(o)
    return o


def real(path, root):
    if path == SB or path.startswith(SB + '/'):
        return root + path[len(SB):]
    return path


def unreal(text, root):
    return text.replace(root, SB)


def apply_env(env, root):
    """Make the relevant part of os.environ exactly `env` ("/SB" = sandbox root)."""
    for k in list(os.environ):
        if k.startswith(ENV_PREFIXES):
            del os.environ[k]
    os.environ['HOME'] = root + '/home'
    for k, v in env.items():
        os.environ[k] = v.replace(SB, root)


def setup(job):
    """Create the sandbox and the files of one job (no environment yet). Returns the root."""
    root = os.path.realpath(tempfile.mkdtemp(prefix='c20_'))
    os.makedirs(root + '/home')
    os.makedirs(root + '/cwd')
    for f in job['files']:
        p = real(f['path'], root)
        if not os.path.isabs(p):
            p = root + '/cwd/' + p
        d = os.path.dirname(p)
        if d:
            os.makedirs(d, exist_ok=True)
        with open(p, 'w', encoding='utf-8', newline='') as fh:
            fh.write(f['text'])
    return root


def parse_check(job):
    """Independent parse of every generated file: the text must mean the payload the
    case claims (guards the generator, not pypyr)."""
    import ruamel.yaml
    import tomllib
    bad = []
    for f in job['files']:
        want = from_pv(f['payload'])
        try:
            if f['kind'] == 'toml':
                got = tomllib.loads(f['text'])
            else:
                got = plain(ruamel.yaml.YAML(typ='safe', pure=True).load(f['text']))
        except Exception as e:  # noqa
            bad.append(f'{f["path"]}: {type(e).__name__}: {e}')
            continue
        if not same(want, got):
            bad.append(f'{f["path"]}: text parses to {got!r}, case says {want!r}')
    return bad


def dump(c, root):
    from pypyr.config import Config
    pp = c.platform_paths
    return {
        'props': {k: to_pv(getattr(c, k, NotImplemented)) for k in sorted(Config.all_writable_props)},
        'loaded': [unreal(str(p), root) for p in c.config_loaded_paths],
        'pyproject': to_pv(c.pyproject_toml),
        'skip_init': c.skip_init,
        'paths': None if pp is None else [unreal(str(pp.config_user), root),
                                          [unreal(str(p), root) for p in pp.config_common]],
    }


def run(job, singleton=False):
    """Two moments, as in a real process: the Config object is CONSTRUCTED under
    job['import_env'] (for the module singleton that is `import pypyr.config`; default: the
    same environment as at init time) and init() then RUNS under job['env'] and the job's cwd."""
    root = setup(job)
    try:
        apply_env(job.get('import_env', job['env']), root)
        os.chdir('/')
        import pypyr.config
        from pypyr.config import Config
        c = pypyr.config.config if singleton else Config()
        apply_env(job['env'], root)
        os.chdir(root + '/cwd')
        out = {'parse_bad': parse_check(job),
               'all_props': sorted(Config.all_writable_props),
               'dict_props': sorted(Config.dict_props)}
        out['defaults'] = dump(c, root)          # the object as it is just before init()
        try:
            c.init()
            out['res'] = ['ok', dump(c, root)]
        except Exception as e:  # the observation
            out['res'] = ['err', type(e).__name__, unreal(str(e), root)]
        return out
    finally:
        os.chdir('/')
        shutil.rmtree(root, ignore_errors=True)


def main():
    if '--oneshot' in sys.argv:
        job = json.loads(sys.stdin.readline())
        sys.stdout.write(json.dumps(run(job, singleton=True)) + '\n')
        return
    for line in sys.stdin:
        line = line.strip()
        if not line:
            continue
        try:
            ans = run(json.loads(line))
        except BaseException as e:  # harness trouble, reported as such
            import traceback
            ans = {'__child_error__': f'{type(e).__name__}: {e}', 'tb': traceback.format_exc()[-1500:]}
        sys.stdout.write(json.dumps(ans) + '\n')
        sys.stdout.flush()


if __name__ == '__main__':
    main()
