"""C20 driver: talks to c20_child.py (one persistent child per harness process, plus a
fresh one-shot child for the cases that ask for it)."""
import atexit
import json
import os
import subprocess
from pathlib import Path

CHILD = str(Path(__file__).resolve().parent / 'c20_child.py')
PY = '/venv/bin/python'

_child = None
_child_pid = None


def child_env():
    repo = os.environ.get('VERIF_REPO', '/repo')
    return {
        'PATH': os.environ.get('PATH', '/usr/bin:/bin'),
        'PYTHONPATH': repo,
        'PYTHONHASHSEED': '0',
        'PYTHONDONTWRITEBYTECODE': '1',
        'HOME': '/nonexistent',
        'LANG': 'C.UTF-8',
    }


def _spawn():
    global _child, _child_pid
    _child = subprocess.Popen([PY, CHILD], stdin=subprocess.PIPE, stdout=subprocess.PIPE,
                              env=child_env(), cwd='/', text=True, bufsize=1)
    _child_pid = os.getpid()


def _stop():
    global _child
    if _child is not None and _child_pid == os.getpid():
        try:
            _child.stdin.close()
            _child.wait(timeout=5)
        except Exception:  # noqa
            _child.kill()
    _child = None


atexit.register(_stop)


def job_of(case):
    job = {'env': case['env'], 'files': case['files']}
    if 'import_env' in case:
        job['import_env'] = case['import_env']
    return job


def run_persistent(case):
    global _child
    for attempt in (0, 1):
        if _child is None or _child_pid != os.getpid() or _child.poll() is not None:
            _spawn()
        try:
            _child.stdin.write(json.dumps(job_of(case)) + '\n')
            _child.stdin.flush()
            line = _child.stdout.readline()
            if line:
                return json.loads(line)
        except (BrokenPipeError, OSError):
            pass
        _child = None
    raise RuntimeError('c20 child process died twice on the same case')


def run_oneshot(case):
    p = subprocess.run([PY, CHILD, '--oneshot'], input=json.dumps(job_of(case)) + '\n',
                       stdout=subprocess.PIPE, stderr=subprocess.PIPE, env=child_env(), cwd='/',
                       text=True, timeout=120)
    if p.returncode != 0 or not p.stdout.strip():
        raise RuntimeError(f'c20 one-shot child failed rc={p.returncode}: {p.stderr[-1500:]}')
    return json.loads(p.stdout.strip().splitlines()[-1])


def run(case):
    ans = run_oneshot(case) if case.get('fresh') else run_persistent(case)
    if '__child_error__' in ans:
        raise RuntimeError(f'c20 child: {ans["__child_error__"]}\n{ans.get("tb")}')
    if ans.get('parse_bad'):
        raise RuntimeError(f'c20 generator/text mismatch: {ans["parse_bad"]}')
    return ans
