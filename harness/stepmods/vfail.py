"""Fail step: raises vfail.err(vfail.msg) when vfail.when is absent or true.  With vfail.cached: k
the error is ONE pre-built object per k (msg taken as is), raised again by every failure.  With vfail.cause
the error is raised `from` an instance of that class (which changes nothing about the error itself)."""
import vstate


class CustomError(Exception):
    pass


class Outer:
    """holds an error class declared inside another class: its documented name is vfail.InnerError"""

    class InnerError(Exception):
        pass


def run_step(context):
    cfg = context['vfail']
    if 'when' in cfg:
        go = context.get_formatted_as_type(cfg['when'], out_type=bool)
    else:
        go = True
    if go and 'cached' in cfg:
        k = cfg['cached']
        if k not in vstate.CACHED:
            vstate.CACHED[k] = vstate.error_class(cfg['err'])(cfg['msg'])
        raise vstate.CACHED[k]
    if go:
        msg = context.get_formatted_value(cfg['msg'])
        if 'cause' in cfg:
            raise vstate.error_class(cfg['err'])(msg) from vstate.error_class(cfg['cause'])('the cause')
        raise vstate.error_class(cfg['err'])(msg)
