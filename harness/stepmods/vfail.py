"""Fail step: raises vfail.err(vfail.msg) when vfail.when is absent or true."""
import vstate


class CustomError(Exception):
    pass


class Outer:
    """holds an error class declared inside another class: its documented name is vfail.InnerError"""

    class InnerError(Exception):
        pass


def run_step(context):
    cfg = context['vfail']
    if 'when' in cfg:
        go = context.get_formatted_as_type(cfg['when'], out_type=bool)
    else:
        go = True
    if go:
        msg = context.get_formatted_value(cfg['msg'])
        raise vstate.error_class(cfg['err'])(msg)
