"""Context parser used by generated pipelines: fails on 'fail', returns None on 'none'."""


def get_parsed_context(args):
    if args and args[0] == 'fail':
        raise ValueError('parser boom')
    if args and args[0] == 'none':
        return None
    return {'parsed': list(args) if args else [], 'pflag': True}
