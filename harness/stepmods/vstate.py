"""Per-case state shared by the harness step modules (one case at a time per process)."""
import builtins


class _Missing:
    def __repr__(self):
        return '<missing>'


MISSING = _Missing()
TRACE = []
SLEEPS = []
PIPELINES = {}
LOADS = []
CANON = [None]
SNAPSHOT_HOOK = [None]
CACHED = {}     # pre-built exception objects of the fail step (vfail.cached: k), one per case


def reset(pipelines, canon):
    TRACE.clear()
    SLEEPS.clear()
    LOADS.clear()
    CACHED.clear()
    PIPELINES.clear()
    PIPELINES.update(pipelines)
    CANON[0] = canon


def record(event):
    # snapshot by value at record time
    TRACE.append(CANON[0](event))


def error_class(name):
    import vfail
    import pypyr.errors
    if name == 'vfail.CustomError':
        return vfail.CustomError
    if name == 'vfail.InnerError':
        return vfail.Outer.InnerError
    if name.startswith('pypyr.errors.'):
        return getattr(pypyr.errors, name.split('.')[-1])
    return getattr(builtins, name)
