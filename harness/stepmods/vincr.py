"""Increment step: context[k] = context.get(k, 0) + 1 — stands for an arbitrary mutating body."""


def run_step(context):
    k = context['vincr']
    context[k] = context.get(k, 0) + 1
