"""Probe step: records (tag, i, whileCounter, retryCounter, stack depth, pipeline, watched values)."""
import vstate


def run_step(context):
    missing = vstate.MISSING
    watch = context.get('pwatch')
    vals = []
    if isinstance(watch, list):
        vals = [context.get(k, missing) if isinstance(k, str) else missing for k in watch]
    pipe = context.current_pipeline.name if context.current_pipeline else ''
    vstate.record([context.get('ptag', missing), context.get('i', missing),
                   context.get('whileCounter', missing), context.get('retryCounter', missing),
                   context.get_stack_depth(), pipe, vals])
