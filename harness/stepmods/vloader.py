"""Pipeline loader serving generated yaml text by name (parsed by pypyr's own yaml parser)."""
import io

import vstate
from pypyr.errors import PipelineNotFoundError
from pypyr.yaml import get_pipeline_yaml


def get_pipeline_definition(pipeline_name, parent):
    if pipeline_name not in vstate.PIPELINES:
        raise PipelineNotFoundError(f'{pipeline_name} not in generated library')
    vstate.LOADS.append(pipeline_name)
    return get_pipeline_yaml(io.StringIO(vstate.PIPELINES[pipeline_name]))
