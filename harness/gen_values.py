"""Seeded generators for contexts, value trees and format strings (shared by C08-C10, C16
and the engine generators).  AST-first: format strings are built from parts so that the
distribution over the grammar is controlled; a separate malformed stream perturbs them."""

KEYS = ['a', 'b', 'c', 'k1', 'k2', 'key', 'name', 'lst', 'dct', 'n', 's', 'x', 'y', 'z']
WORDS = ['', 'x', 'abc', 'hello world', 'a b', 'Tab\there', "it's", 'say "hi"', 'café',
         '日本', 'true', 'False', '1', '1.0', '0', 'None', 'null', ' lead', 'trail ',
         'line1\nline2', 'back\\slash', '100%', 'a=b', 'key: value', '- item', '#hash', '~']
LITS = ['', ' ', 'x', 'abc ', ' is ', '-', ': ', 'pre', 'post', 'é', '"', "'", '\n', '[', ']',
        '!', ':', '.', '$', 'a b c']
FLOATS = [[1, 2], [5, 4], [-3, 2], [2, 1], [0, 1], [1, 8], [100, 1], [-1, 4], [7, 1]]


def gen_scalar(rng):
    r = rng.random()
    if r < 0.25:
        return rng.choice([0, 1, 2, 3, -1, 7, 10, 42, 100, -5])
    if r < 0.55:
        return rng.choice(WORDS)
    if r < 0.65:
        return rng.choice([True, False])
    if r < 0.72:
        return None
    if r < 0.82:
        return {'f': rng.choice(FLOATS)}
    if r < 0.88:
        return {'b': rng.choice(['', 'raw', '{a}', 'by\xfftes', "q'"])}
    if r < 0.92:
        return {'obj': rng.randrange(3)}
    return rng.choice(WORDS)


def gen_set(rng, keygen=None):
    kind = rng.random()
    n = rng.randrange(0, 4)
    if kind < 0.5:
        xs = sorted(set(rng.choice([1, 2, 3, 5, 8, -2]) for _ in range(n)))
    else:
        xs = sorted(set(rng.choice(['p', 'q', 'rr', 'x y', 'café']) for _ in range(n)),
                    key=lambda s: s.encode())
    if keygen is not None and xs and isinstance(xs[0], str):
        # members that are format strings (referencing plain scalars, so the result stays hashable)
        def member(m):
            for _ in range(4):
                y = keygen(rng, m)
                if isinstance(y, str) and y != m:
                    return y
            return m
        xs = sorted(set(member(m) for m in xs), key=lambda s: s.encode())
    return {'s': xs}


def gen_tree(rng, depth, leaf, keygen=None):
    """A container tree whose leaves come from leaf(rng); keygen(rng, k) may replace a
    plain dict key k by a formattable key (format string, tuple of strings)."""
    r = rng.random()
    if depth <= 0 or r < 0.35:
        return leaf(rng)
    n = rng.randrange(0, 4)
    if r < 0.6:
        return {'l': [gen_tree(rng, depth - 1, leaf, keygen) for _ in range(n)]}
    if r < 0.85:
        keys = rng.sample(['p', 'q', 'r', 'sub', 'k', 'id', 'v'], n)
        if keygen is not None:
            keys = [keygen(rng, k) for k in keys]
        return {'d': [[k, gen_tree(rng, depth - 1, leaf, keygen)] for k in keys]}
    if r < 0.95:
        return {'t': [gen_tree(rng, depth - 1, leaf, keygen) for _ in range(n)]}
    return gen_set(rng, keygen)


def formattable_keygen(avail, ctxmap):
    """keys that must be formatted: '{k}' / 'pre-{k}' strings and tuples holding such strings,
    referencing plain-scalar context keys (so the formatted key stays hashable)."""
    plain = [k for k in avail if isinstance(ctxmap.get(k), (str, int)) and not isinstance(ctxmap.get(k), bool)
             and not has_brace(ctxmap.get(k))]

    def keygen(rng, k):
        r = rng.random()
        if not plain or r < 0.6:
            return k
        ref = '{' + rng.choice(plain) + '}'
        if r < 0.75:
            return k + '-' + ref
        if r < 0.9:
            return {'t': [ref, k]}
        return {'t': [k, {'t': [ref + '!', 1]}]}
    return keygen


def esc(lit):
    return lit.replace('{', '{{').replace('}', '}}')


def gen_field(rng, avail, ctxmap, allow_spec=True):
    """Return format-field source text '{...}' referencing a key (mostly available)."""
    if avail and rng.random() < 0.93:
        k = rng.choice(avail)
    else:
        k = rng.choice(['missing', 'nope', 'zz', '0', ''])
    name = k
    v = ctxmap.get(k)
    # accessor path following the actual structure (mostly valid)
    hops = 0
    while isinstance(v, dict) and hops < 3 and rng.random() < 0.7:
        if 'd' in v and v['d']:
            kk, vv = rng.choice(v['d'])
            if not isinstance(kk, str) or any(c in kk for c in ']{}'):
                break
            name += f'[{kk}]'
            v = vv
        elif ('l' in v and v['l']) or ('t' in v and v['t']):
            xs = v.get('l') or v.get('t')
            i = rng.randrange(len(xs))
            name += f'[{i}]'
            v = xs[i]
        else:
            break
        hops += 1
    r = rng.random()
    if r < 0.04:
        name += rng.choice(['[9]', '[nokey]', '.', '[', '[]', '.attr', ']x', '[0]x'])
    conv = ''
    r = rng.random()
    if r < 0.12:
        conv = '!r'
    elif r < 0.2:
        conv = '!s'
    elif r < 0.22:
        conv = rng.choice(['!x', '!', '!a', '!rr'])
    spec = ''
    if allow_spec:
        r = rng.random()
        if r < 0.10:
            spec = ':rf'
        elif r < 0.20:
            spec = ':ff'
        elif r < 0.30:
            spec = ':' + rng.choice(['', 'rf', 'ff']) + rng.choice(['>5', '<6', '^7', '*^9', '4', '_>3', '10',
                                                                     'r>6', 'f<6', 'f^7', 'r^5'])
        elif r < 0.34 and avail:
            # nested spec expansion {a:>{n}}
            spec = ':' + rng.choice(['>', '<', '']) + '{' + rng.choice(avail) + '}'
        elif r < 0.36 and avail:
            spec = ':{' + rng.choice(avail) + ':{' + rng.choice(avail) + '}}'
        elif r < 0.37:
            spec = ':{a:{b:{c}}}'
    return '{' + name + conv + spec + '}'


def gen_fmt_string(rng, avail, ctxmap, malformed=0.05):
    """A format string from parts."""
    r = rng.random()
    if r < 0.30:
        s = gen_field(rng, avail, ctxmap)            # exactly one expression
    elif r < 0.40:
        s = esc(rng.choice(WORDS + ['{', '}', 'a{b}c', '{}']))   # literal only
    else:
        n = rng.randrange(2, 5)
        parts = []
        for _ in range(n):
            if rng.random() < 0.5:
                parts.append(esc(rng.choice(LITS + ['{', '}'])))
            else:
                parts.append(gen_field(rng, avail, ctxmap))
        s = ''.join(parts)
    if rng.random() < malformed:
        pos = rng.randrange(len(s) + 1)
        s = s[:pos] + rng.choice(['{', '}', '{{', '}}', '{!', ':', '[']) + s[pos:]
    return s


def gen_tagged(rng, avail, ctxmap):
    r = rng.random()
    if r < 0.35:
        return {'sic': rng.choice(['{a}', 'raw {b} text', '', '{{', 'plain'])}
    if r < 0.75:
        return {'py': gen_expr(rng, avail, ctxmap, 2)}
    return {'jsonify': gen_tree(rng, 2, lambda g: gen_leaf_fmt(g, avail, ctxmap, 0.4))}


def gen_expr(rng, avail, ctxmap, depth):
    ints = [k for k in avail if isinstance(ctxmap.get(k), int) and not isinstance(ctxmap.get(k), bool)]
    lists = [k for k in avail if isinstance(ctxmap.get(k), dict) and 'l' in ctxmap[k]]
    r = rng.random()
    if depth <= 0 or r < 0.3:
        c = rng.random()
        if c < 0.4 and avail:
            return ['name', rng.choice(avail)]
        if c < 0.45:
            return ['name', 'undefined_name']
        if c < 0.7:
            return ['int', rng.choice([0, 1, 2, 3, 10])]
        if c < 0.85:
            return ['str', rng.choice(['', 'a', 'b', 'true', 'x y'])]
        if c < 0.95:
            return ['bool', rng.random() < 0.5]
        return ['none']
    if r < 0.45 and ints:
        op = rng.choice(['lt', 'le', 'gt', 'ge', 'eq', 'ne'])
        return ['cmp', op, ['name', rng.choice(ints)], ['int', rng.choice([0, 1, 2, 3, 5])]]
    if r < 0.55:
        return ['cmp', rng.choice(['eq', 'ne']), gen_expr(rng, avail, ctxmap, depth - 1),
                gen_expr(rng, avail, ctxmap, depth - 1)]
    if r < 0.65:
        return [rng.choice(['and', 'or']), gen_expr(rng, avail, ctxmap, depth - 1),
                gen_expr(rng, avail, ctxmap, depth - 1)]
    if r < 0.7:
        return ['not', gen_expr(rng, avail, ctxmap, depth - 1)]
    if r < 0.8 and ints:
        return [rng.choice(['add', 'sub', 'mul']), ['name', rng.choice(ints)], ['int', rng.choice([1, 2, 3])]]
    if r < 0.86 and lists:
        return ['len', ['name', rng.choice(lists)]]
    if r < 0.92 and lists:
        return ['in', gen_expr(rng, avail, ctxmap, 0), ['name', rng.choice(lists)]]
    if r < 0.97:
        return ['list', [gen_expr(rng, avail, ctxmap, depth - 1) for _ in range(rng.randrange(0, 4))]]
    return ['tuple', [gen_expr(rng, avail, ctxmap, 0) for _ in range(rng.randrange(0, 3))]]


def gen_leaf_fmt(rng, avail, ctxmap, p_fmt=0.5):
    r = rng.random()
    if r < p_fmt:
        return gen_fmt_string(rng, avail, ctxmap)
    if r < p_fmt + 0.08:
        return gen_tagged(rng, avail, ctxmap)
    return gen_scalar(rng)


def gen_context(rng, nkeys=None, p_ref=0.45):
    """Context as ordered pairs; the value of a key may reference earlier keys (acyclic),
    rarely a later one (possible cycle)."""
    n = nkeys if nkeys is not None else rng.randrange(2, 8)
    keys = rng.sample(KEYS, min(n, len(KEYS)))
    pairs = []
    ctxmap = {}
    for i, k in enumerate(keys):
        avail = keys[:i] if rng.random() > 0.02 else keys
        r = rng.random()
        if r < p_ref and avail:
            v = gen_fmt_string(rng, avail, ctxmap, malformed=0.02)
        elif r < p_ref + 0.25:
            v = gen_tree(rng, 2, lambda g: gen_leaf_fmt(g, avail, ctxmap, 0.25))
        elif r < p_ref + 0.32:
            v = gen_tagged(rng, avail, ctxmap)
        else:
            v = gen_scalar(rng)
        pairs.append([k, v])
        ctxmap[k] = v
    return pairs, ctxmap


def pv_size(v):
    if isinstance(v, dict):
        for t in ('l', 't', 's'):
            if t in v:
                return 1 + sum(pv_size(x) for x in v[t])
        if 'd' in v:
            return 1 + sum(pv_size(k) + pv_size(x) for k, x in v['d'])
        if 'jsonify' in v:
            return 1 + pv_size(v['jsonify'])
    return 1


def has_brace(v):
    if isinstance(v, str):
        return '{' in v or '}' in v
    if isinstance(v, dict):
        for t in ('l', 't', 's'):
            if t in v:
                return any(has_brace(x) for x in v[t])
        if 'd' in v:
            return any(has_brace(k) or has_brace(x) for k, x in v['d'])
        if 'py' in v or 'sic' in v or 'jsonify' in v:
            return True
    return False
