"""C19 custom loader whose pipelines do NOT cascade their loader (is_loader_cascading=False)."""
from pypyr.pipedef import PipelineDefinition, PipelineInfo
from c19_loader import load_yaml


def get_pipeline_definition(pipeline_name, parent):
    return PipelineDefinition(
        pipeline=load_yaml(pipeline_name, parent),
        info=PipelineInfo(pipeline_name=pipeline_name, loader=__name__, parent=parent,
                          is_loader_cascading=False))
