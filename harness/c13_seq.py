"""C13 helper: sequential histories of get / failing get / clear on the REAL cache classes
(StepCache, ContextParserCache, LoaderCache, BackoffCache, NamespaceCache, the file cache
behind the real file loader, Loader with the real file loader), real threading.Lock, real
dict.  Creators are made observable by substituting what they *call* (the module importer,
the import visitor, the yaml file reader), never the cache code itself.

Observation = the op-level events of Model/Cache.v: call / created / failed / ret / raise /
cleared, with objects numbered in creation order.
"""
import os
import shutil
import sys
import tempfile
import types
from pathlib import Path

REPO = os.environ.get('VERIF_REPO', '/repo')


class Rec:
    def __init__(self):
        self.events = []
        self.objs = []
        self.cur = None
        self.ok = True

    def ev(self, *e):
        self.events.append(list(e))

    def idx(self, o):
        for i, x in enumerate(self.objs):
            if x is o:
                return i
        return -1

    def create(self, factory):
        """Body of an instrumented creator."""
        self.ev('call', 0, self.cur)
        if not self.ok:
            self.ev('failed', 0, self.cur)
            raise ModuleNotFoundError(f'no module for {self.cur!r}')
        o = factory()
        self.objs.append(o)
        self.ev('created', 0, self.cur, len(self.objs) - 1)
        return o


def _drive(rec, ops, do_get, do_clear):
    for op in ops:
        if op[0] == 'get':
            _, parent, name, ok = op
            rec.cur = [parent, name]
            rec.ok = ok
            rec.ev('_begin', 0, [parent, name])
            try:
                o = do_get(parent, name)
            except Exception as e:  # noqa
                rec.ev('raise', 0, [parent, name], type(e).__name__)
                continue
            rec.ev('ret', 0, [parent, name], rec.idx(o))
        else:
            rec.cur = None
            do_clear()
            rec.ev('cleared', 0)


def _fresh_fn():
    def f(*a, **k):
        return None
    return f


def run_sequential(case):
    import pypyr.moduleloader as ml
    from pypyr.config import config
    target = case['target']
    ops = case['progs'][0]
    rec = Rec()
    extra = {}
    saved_nc = config.no_cache
    config.no_cache = bool(case['nc'])
    saved_get_module = ml.get_module
    try:
        if target == 'cache':
            from pypyr.cache.cache import Cache
            c = Cache()
            _drive(rec, ops, lambda p, n: c.get(n, lambda: rec.create(object)), c.clear)
        elif target in ('step', 'parser', 'loadercache', 'backoff'):
            attr = {'step': 'run_step', 'parser': 'get_parsed_context',
                    'loadercache': 'get_pipeline_definition', 'backoff': 'Strategy'}[target]

            def fake_get_module(name):
                def factory():
                    m = types.SimpleNamespace()
                    setattr(m, attr, _fresh_fn())
                    return m
                return rec.create(factory)
            ml.get_module = fake_get_module
            if target == 'step':
                from pypyr.cache.stepcache import StepCache
                c = StepCache()
                getter = c.get_step
            elif target == 'parser':
                from pypyr.cache.parsercache import ContextParserCache
                c = ContextParserCache()
                getter = c.get_context_parser
            elif target == 'loadercache':
                from pypyr.cache.loadercache import LoaderCache
                c = LoaderCache()
                getter = c.get_pype_loader
            else:
                from pypyr.cache.backoffcache import BackoffCache
                from pypyr.retries import builtin_backoffs
                c = BackoffCache()
                getter = lambda n: c.get_backoff(n + '.Strategy')  # noqa
            # the cached item is derived from the created module: identify it through it
            def do_get(p, n):
                o = getter(n)
                return o

            def idx(o):
                for i, m in enumerate(rec.objs):
                    if getattr(m, attr) is o or getattr(o, '_get_pipeline_definition', None) is getattr(m, attr):
                        return i
                return -1
            rec.idx = idx
            if target == 'loadercache':
                # a Loader is a fresh wrapper per creation: identity of the wrapper matters too
                wrappers = {}

                # look-ups of the configured default loader are made both ways a run reaches it:
                # by its name and implicitly (loader=None -> config.default_loader)
                implicit = set(case.get('implicit', []))
                nget = [0]
                if case.get('default'):
                    extra['saved_default_loader'] = config.default_loader
                    config.default_loader = case['default']

                def do_get(p, n):  # noqa
                    k = nget[0]
                    nget[0] += 1
                    o = getter(None if (k in implicit and n == case.get('default')) else n)
                    i = idx(o)
                    if i in wrappers and wrappers[i] is not o:
                        extra.setdefault('wrapper_identity_lost', []).append(n)
                    wrappers.setdefault(i, o)
                    return o
            _drive(rec, ops, do_get, c.clear)
            if target == 'backoff':
                # built-ins are always there, never created, and survive clear
                ncalls = len(rec.events)
                extra['builtins_ok'] = all(c.get_backoff(k) is v for k, v in builtin_backoffs.items())
                c.clear()
                extra['builtins_ok'] = extra['builtins_ok'] and all(
                    c.get_backoff(k) is v for k, v in builtin_backoffs.items())
                extra['builtins_called_creator'] = len(rec.events) != ncalls
        elif target == 'namespace':
            import pypyr.cache.namespacecache as nsc
            real_visitor = nsc.ImportVisitor

            class CountingVisitor(real_visitor):
                def get_namespace(self, source):
                    rec.ev('call', 0, rec.cur)
                    try:
                        ns = super().get_namespace(source)
                    except Exception:
                        rec.ev('failed', 0, rec.cur)
                        raise
                    rec.objs.append(ns)
                    rec.ev('created', 0, rec.cur, len(rec.objs) - 1)
                    return ns
            nsc.ImportVisitor = CountingVisitor
            try:
                c = nsc.NamespaceCache()
                _drive(rec, ops, lambda p, n: c.get_namespace(n), c.clear)
            finally:
                nsc.ImportVisitor = real_visitor
        elif target == 'fileloader':
            run_fileloader(case, rec, extra)
        else:
            raise ValueError(target)
    finally:
        ml.get_module = saved_get_module
        config.no_cache = saved_nc
        if 'saved_default_loader' in extra:
            config.default_loader = extra.pop('saved_default_loader')
    return {'events': rec.events, 'status': 'ok', 'unfinished': [], 'anomalies': [],
            'n_objs': len(rec.objs), 'extra': extra}


def run_fileloader(case, rec, extra):
    """Loader + the real pypyr.loaders.file on real files in a temp dir.  parent and name in
    the ops are relative to the sandbox; the file for (parent, name) is parent/name.yaml with a
    marker saying which request it belongs to.  clear = Loader.clear() + file_cache.clear()
    (the Loader's creator reads through the file cache)."""
    import pypyr.loaders.file as fl
    import pypyr.moduleloader as ml
    from pypyr.cache.filecache import file_cache
    from pypyr.cache.loadercache import Loader
    ops = case['progs'][0]
    d = Path(tempfile.mkdtemp(prefix='c13-'))
    saved_path = list(sys.path)
    saved_known = set(ml._known_dirs)
    try:
        for op in ops:
            if op[0] != 'get':
                continue
            _, parent, name, ok = op
            pdir = d / parent
            pdir.mkdir(parents=True, exist_ok=True)
            f = pdir / f'{name}.yaml'
            if ok == 'bad':
                f.write_text('- this\n- pipeline\n- is\n- a list\n')     # parses, but is no mapping
            elif ok:
                f.write_text(f'steps: []\nmarker: {[parent, name]!r}\n')
            else:
                f.write_text('steps: [\n  - unclosed: {\n')   # creator raises while parsing

        # the creator of the Loader's pipeline cache is Loader._load_pipeline, which calls this:
        def counting_gpd(pipeline_name, parent):
            from collections.abc import Mapping
            rec.ev('call', 0, rec.cur)
            try:
                o = fl.get_pipeline_definition(pipeline_name, parent)
            except Exception:
                rec.ev('failed', 0, rec.cur)
                raise
            if not isinstance(o.pipeline, Mapping):
                rec.ev('failed', 0, rec.cur)      # malformed payload: _load_pipeline must refuse it
                return o
            rec.objs.append(o)
            rec.ev('created', 0, rec.cur, len(rec.objs) - 1)
            return o
        file_cache.clear()
        loader = Loader('pypyr.loaders.file', counting_gpd)
        resolved = []

        def do_get(parent, name):
            o = loader.get_pipeline(name, str(d / parent))
            want = (d / parent / f'{name}.yaml').resolve()
            got = Path(o.info.path).resolve()
            resolved.append([[parent, name], str(got.relative_to(d.resolve())), got == want,
                             o.pipeline.get('marker')])
            return o

        def do_clear():
            loader.clear()
            file_cache.clear()
        _drive(rec, ops, do_get, do_clear)
        extra['resolved'] = resolved
    finally:
        file_cache.clear()
        sys.path[:] = saved_path
        ml._known_dirs.clear()
        ml._known_dirs.update(saved_known)
        shutil.rmtree(d, ignore_errors=True)
