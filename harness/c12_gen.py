"""Generator of C12 cases (see c12_lang for the case language)."""
import c12_lang as L

DATA_KEYS = ['a', 'b', 'c', 'd', 'e']
VAR_KEYS = ['va', 'vb']
SUB_KEYS = ['x', 'y', 'z']


def data_tree(rng, depth=2, container=False):
    r = rng.random()
    if depth == 0 or (not container and r < 0.3):
        return rng.randint(0, 9)
    if r < 0.65:
        return {'l': [data_tree(rng, depth - 1) for _ in range(rng.randint(0 if depth < 2 else 1, 3))]}
    ks = rng.sample(SUB_KEYS, rng.randint(0 if depth < 2 else 1, 3))
    return {'d': [[k, data_tree(rng, depth - 1)] for k in ks]}


def no_self(t, k):
    """by-reference mentions of key k become copies (k.append(k) makes a cyclic value)."""
    if isinstance(t, int):
        return t
    if 'ref' in t:
        return {'ref': ['copy', k]} if t['ref'][1] == k else t
    if 'l' in t:
        return {'l': [no_self(x, k) for x in t['l']]}
    return {'d': [[kk, no_self(x, k)] for kk, x in t['d']]}


class Gen:
    def __init__(self, rng, clean):
        self.rng = rng
        self.clean = clean
        self.known = []        # keys probably in context
        self.tainted = set()   # keys that may hold a definition object
        self.types = {}        # key -> 'l' | 'd' | 'i' (best guess)
        self.last_err = None   # onError tree of the latest swallowed failing step
        self.pending = []      # steps to emit right after the current one

    def pick_key(self, prefer_known=0.85):
        if self.known and self.rng.random() < prefer_known:
            return self.rng.choice(self.known)
        return self.rng.choice(DATA_KEYS + VAR_KEYS)

    def ref(self, byref_ok=True):
        k = self.pick_key()
        mode = self.rng.choice(['copy', 'ff', 'py'])
        if self.clean and k in self.tainted:
            mode = 'copy'
        if not byref_ok:
            mode = 'copy'
        return {'ref': [mode, k]}

    def arg_tree(self, depth=2, container=False, empties=0.0):
        # an EMPTY literal handed directly to set / contextmerge / default must still be a fresh
        # object per run (nothing to format is no reason not to copy); it is grown in place later
        if empties and self.rng.random() < empties:
            return self.rng.choice([{'l': []}, {'d': []}])
        r = self.rng.random()
        if depth == 0 or (not container and r < 0.25):
            return self.rng.randint(0, 9)
        if not container and r < 0.5:
            return self.ref()
        if r < 0.75:
            return {'l': [self.arg_tree(depth - 1) for _ in range(self.rng.randint(0, 3))]}
        ks = self.rng.sample(SUB_KEYS, self.rng.randint(0, 3))
        return {'d': [[k, self.arg_tree(depth - 1)] for k in ks]}

    def type_of(self, t):
        if isinstance(t, int):
            return 'i'
        if 'ref' in t:
            return self.types.get(t['ref'][1], '?')
        return 'l' if 'l' in t else 'd'

    def target(self, in_keys, want=None):
        """key a mutating step acts on (preferably one holding a `want`-typed value)."""
        if want and self.rng.random() < 0.85:
            pool = [k for k in self.known if self.types.get(k) == want
                    and not (self.clean and k in self.tainted)]
            inpool = [k for k in pool if k in in_keys]
            if inpool and not self.clean and self.rng.random() < 0.6:
                return self.rng.choice(inpool)
            if pool:
                return self.rng.choice(pool)
        if self.clean:
            cands = [k for k in self.known if k not in self.tainted]
            if cands and self.rng.random() < 0.9:
                return self.rng.choice(cands)
            return self.rng.choice([k for k in DATA_KEYS if k not in self.tainted] or ['e'])
        if in_keys and self.rng.random() < 0.6:
            return self.rng.choice(in_keys)
        return self.pick_key()

    def taints(self, t):
        """does formatting t yield (or contain) a possibly-definition object by reference?"""
        if isinstance(t, int):
            return False
        if 'ref' in t:
            return t['ref'][0] != 'copy' and t['ref'][1] in self.tainted
        if 'l' in t:
            return any(self.taints(x) for x in t['l'])
        return any(self.taints(x) for _, x in t['d'])

    def err_path(self, want):
        """subscripts from runErrors to a `want`-typed ('l'/'d'/None = any container) node of the
        latest saved customError, or None."""
        if self.last_err is None:
            return None
        found = []

        def go(t, path):
            if isinstance(t, int) or 'ref' in t:
                return
            ty = 'l' if 'l' in t else 'd'
            if want is None or ty == want:
                found.append(path)
            if ty == 'l' and t['l']:
                go(t['l'][-1], path + [['last']])
            if ty == 'd':
                for k, x in t['d']:
                    go(x, path + [['key', k]])
        go(self.last_err, [['last'], ['key', 'customError']])
        return self.rng.choice(found) if found else None

    def err_mutator(self):
        """a step growing something inside runErrors[-1]['customError'] in place."""
        rng = self.rng
        if rng.random() < 0.5:
            p = self.err_path('l')
            if p:
                return {'kind': 'py', 'in': [], 'code': ['append', {'pyref': ['runErrors', p]}, rng.randint(0, 9)]}
        p = self.err_path('d')
        if p:
            return {'kind': 'py', 'in': [], 'code': ['setitem', {'pyref': ['runErrors', p]},
                                                      rng.choice(SUB_KEYS), rng.randint(0, 9)]}
        return None

    def err_mutator_into(self, st):
        m = self.err_mutator()
        if m:
            st['code'] = m['code']
        return bool(m)

    INNER_KINDS = ('set', 'append', 'merge', 'default', 'py', 'copy')

    def call_step(self, foreach=True):
        """pypyr.steps.call of a small group, normally under foreach: when each call returns the step
        restores ITS OWN current item into context['i']."""
        rng = self.rng
        st = {'kind': 'call', 'in': [], 'group': []}
        had_i = 'i' in self.known
        if foreach:
            st['foreach'] = [rng.randint(0, 9) if rng.random() < 0.7 else {'l': [rng.randint(0, 9)]}
                             for _ in range(rng.randint(2, 3))]
        # inner steps never (re)bind i: reset_context_counters runs in a `finally`, so after a failing
        # inner step the real i is the step's item again - a path the flat op list does not model
        self.known = [k for k in self.known if k != 'i']
        self.no_foreach = True
        for _ in range(rng.randint(1, 2)):
            for _try in range(20):
                inner = self.step()
                if inner['kind'] in self.INNER_KINDS and not inner.get('retry'):
                    break
            else:
                inner = {'kind': 'set', 'in': [], 'pairs': [['e', 1]]}
            inner.pop('foreach', None)
            self.known = [k for k in self.known if k != 'i']
            st['group'].append(inner)
        self.no_foreach = False
        self.known = [k for k in self.known if k != 'i'] + (['i'] if had_i or foreach else [])
        # what the iteration saw: keep i (by value) so that a wrong counter shows in the context too
        st['group'].append({'kind': 'append', 'in': [], 'list': 'seen', 'mode': 'key', 'addMe': {'ref': ['copy', 'i']}}
                           if foreach else {'kind': 'set', 'in': [], 'pairs': [['seen', 1]]})
        return st

    def step(self):
        rng = self.rng
        if self.pending:
            return self.pending.pop(0)
        kind = rng.choices(['set', 'append', 'merge', 'default', 'py', 'copy', 'configvars', 'fail'],
                           [24, 22, 16, 8, 14, 6, 6 if not self.clean else 3, 11])[0]
        if kind == 'configvars':
            for k in VAR_KEYS:
                if k not in self.known:
                    self.known.append(k)
                self.tainted.add(k)
            return {'kind': 'configvars'}
        st = {'kind': kind, 'in': []}
        n_in = rng.choice([0, 1, 1, 1, 2])
        in_keys = rng.sample(DATA_KEYS, n_in)
        for k in in_keys:
            st['in'].append([k, data_tree(rng, 2, container=rng.random() < 0.85)])
            self.types[k] = self.type_of(st['in'][-1][1])
        saved_known, saved_taint = list(self.known), set(self.tainted)
        self.known = self.known + [k for k in in_keys if k not in self.known]
        self.tainted |= set(in_keys)
        after_known, after_taint = list(saved_known), set(saved_taint)

        def bound(k, tainted):
            if k not in after_known:
                after_known.append(k)
            if tainted:
                after_taint.add(k)
            else:
                after_taint.discard(k)
            if k not in self.known:
                self.known.append(k)
            if tainted:
                self.tainted.add(k)
            else:
                self.tainted.discard(k)

        # (pypyr.steps.set pops its own 'set' argument, so under foreach its 2nd iteration fails:
        #  not interesting here)
        if kind != 'set' and not getattr(self, 'no_foreach', False) and rng.random() < 0.18:
            st['foreach'] = [self.arg_tree(1) for _ in range(rng.randint(1, 3))]
            bound('i', any(self.taints(t) for t in st['foreach']))
            self.types['i'] = self.type_of(st['foreach'][-1])
        if kind == 'fail':
            st['swallow'] = rng.random() < 0.8
            if rng.random() < 0.8:
                oe = self.arg_tree(2, container=True, empties=0.05)
                if 'd' in oe and rng.random() < 0.7:
                    oe['d'].append(['by', {'l': []} if rng.random() < 0.6 else {'d': []}])
                if rng.random() < 0.3:
                    # an expression that cannot be resolved when the error is saved
                    bad = {'ref': [rng.choice(['copy', 'py']), 'nokey']}
                    if 'd' in oe:
                        oe['d'].insert(rng.randint(0, len(oe['d'])), ['detail', bad])
                    else:
                        oe['l'].insert(rng.randint(0, len(oe['l'])), bad)
                st['onError'] = oe
            else:
                st['onError'] = None
            if st['swallow']:
                oe = st['onError']
                empty = oe is None or oe.get('l') == [] or oe.get('d') == []
                self.last_err = {'d': []} if empty else oe
                if rng.random() < 0.55:
                    m = self.err_mutator()
                    if m:
                        self.pending.append(m)
        elif kind == 'set':
            st['pairs'] = []
            for k in rng.sample(DATA_KEYS, rng.randint(1, 2)):
                p = self.err_path(None) if rng.random() < 0.3 else None
                if p:
                    # keep a by-reference handle on (part of) the saved customError
                    st['pairs'].append([k, {'pyref': ['runErrors', p]}])
                    bound(k, False)
                    node = self.last_err
                    for sel in p[2:]:
                        node = node['l'][-1] if sel[0] == 'last' else dict(node['d'])[sel[1]]
                    self.types[k] = self.type_of(node)
                    continue
                t = self.arg_tree(2, empties=0.2)
                st['pairs'].append([k, t])
                bound(k, self.taints(t))
                self.types[k] = self.type_of(t)
        elif kind == 'append':
            k = self.target(in_keys, 'l')
            st['list'] = k
            st['mode'] = rng.choice(['key', 'key', 'ff', 'py'])
            st['addMe'] = self.arg_tree(1) if not self.clean else self.clean_tree(1)
            if rng.random() < 0.97:
                st['addMe'] = no_self(st['addMe'], k)
            if st['mode'] == 'key':
                bound(k, k in self.tainted or self.taints(st['addMe']))
                self.types.setdefault(k, 'l')
        elif kind in ('merge', 'default'):
            st['pairs'] = []
            for k in ([self.target(in_keys, rng.choice(['l', 'd', 'd']))] + rng.sample(DATA_KEYS, rng.randint(0, 1))):
                if any(k == kk for kk, _ in st['pairs']) or (self.clean and k in self.tainted):
                    continue
                t = self.arg_tree(2, container=rng.random() < 0.8, empties=0.15) if not self.clean \
                    else self.clean_tree(2, rng.random() < 0.8)
                if rng.random() < 0.97:
                    t = no_self(t, k)
                st['pairs'].append([k, t])
                bound(k, k in self.tainted or self.taints(t))
                self.types.setdefault(k, self.type_of(t))
        elif kind == 'py' and self.last_err is not None and rng.random() < 0.3 and self.err_mutator_into(st):
            pass
        elif kind == 'py':
            is_append = rng.random() < 0.65
            k = self.target(in_keys, 'l' if is_append else 'd')
            own = dict((kk, v) for kk, v in st['in'])
            if is_append:
                st['code'] = ['append', k, rng.randint(0, 9)]
                ok_retry = k in own and isinstance(own[k], dict) and 'l' in own[k]
            else:
                st['code'] = ['setitem', k, rng.choice(SUB_KEYS), rng.randint(0, 9)]
                ok_retry = k in own and isinstance(own[k], dict) and 'd' in own[k]
            if ok_retry and 'foreach' not in st and rng.random() < 0.5:
                st['retry'] = rng.randint(2, 3)
                bound('retryCounter', False)
        elif kind == 'copy':
            st['pairs'] = []
            for k in rng.sample(DATA_KEYS, rng.randint(1, 2)):
                src = self.pick_key(0.95)
                st['pairs'].append([k, src])
                bound(k, src in self.tainted)
                self.types[k] = self.types.get(src, '?')
        # in keys are removed after the step (when it succeeds)
        self.known = [k for k in after_known if k not in in_keys]
        self.tainted = {k for k in after_taint if k not in in_keys}
        return st

    def clean_tree(self, depth, container=False):
        t = self.arg_tree(depth, container)
        return t if not self.taints(t) else self.rng.randint(0, 9)


ARG_WORDS = ['a0', 'a1', 'a2', 'k0=a1', 'k1=a2', 'k2=']


def gen_case(rng, tier='quick', threads=False):
    clean = (threads and rng.random() < 0.75) or rng.random() < 0.4
    dict_in = [[k, data_tree(rng, 2, True)] for k in rng.sample(DATA_KEYS, rng.choice([0, 1, 1, 2]))]
    vars_ = [[k, data_tree(rng, 2, True)] for k in rng.sample(VAR_KEYS, rng.choice([0, 1, 2]))]
    set_var = (not threads) and rng.random() < 0.05
    if set_var:
        # a yaml !!set in config vars (ruamel: CommentedSet - not a `set` subclass); sets are outside
        # the Coq model, so these cases are checked by the monitors only
        vars_.append(['vs', {'s': sorted(rng.sample(range(10), rng.randint(0, 3)))}])
    case = {'dict_in': dict_in, 'vars': vars_, 'shortcut': (not threads) and rng.random() < 0.3,
            'parser': None, 'sc_parser_args': None, 'args_in': None,
            'vars_yaml': bool(vars_) and rng.random() < 0.6,
            'file_loader': ({'layout': rng.choice(['name', 'name', 'dir', 'both'])}
                            if (not threads) and rng.random() < 0.3 else None)}
    # context parser of main, and where its argument list comes from: the caller's args_in,
    # the shortcut's parser_args (a list held by config.shortcuts), or both
    if rng.random() < 0.4:
        case['parser'] = rng.choice(['list', 'list', 'list', 'keys', 'keyvaluepairs', 'string'])
        if case['shortcut'] and rng.random() < 0.75:
            case['sc_parser_args'] = [rng.choice(ARG_WORDS) for _ in range(rng.randint(0, 3))]
        if rng.random() < (0.3 if case['sc_parser_args'] else 0.5):
            case['args_in'] = [rng.choice(ARG_WORDS) for _ in range(rng.randint(1, 3))]
    arglist = (case['parser'] == 'list') and bool(L.parser_ops(case, _RootIndex(), direct=threads))
    for pname, (lo, hi) in (('main', (1, 5)), ('other', (1, 3))):
        g = Gen(rng, clean)
        g.known = [k for k, _ in dict_in]
        g.types = {k: g.type_of(v) for k, v in dict_in}
        g.types.update({k: g.type_of(v) for k, v in vars_})
        if pname == 'main' and arglist:
            g.known.append('argList')
            g.types['argList'] = 'l'
        steps = [g.step() for _ in range(rng.randint(lo, hi))]
        if pname == 'main' and arglist and rng.random() < 0.6:
            # grow the parser's list in place, early, so later steps and re-runs see it
            how = rng.choice(['append', 'py', 'merge'])
            if how == 'append':
                st = {'kind': 'append', 'in': [], 'list': 'argList', 'mode': rng.choice(['key', 'py']),
                      'addMe': rng.randint(0, 9)}
            elif how == 'py':
                st = {'kind': 'py', 'in': [], 'code': ['append', 'argList', rng.randint(0, 9)]}
            else:
                st = {'kind': 'merge', 'in': [], 'pairs': [['argList', {'l': [rng.randint(0, 9)]}]]}
            steps.insert(rng.randint(0, min(1, len(steps))), st)
        if set_var and (pname == 'main' or rng.random() < 0.4):
            at = rng.randint(0, len(steps))
            steps[at:at] = [{'kind': 'configvars'},
                            {'kind': 'add', 'in': [], 'set': 'vs', 'addMe': rng.randint(10, 19)}]
        case[pname] = steps
    if (not threads) and rng.random() < 0.12:
        # pypyr.steps.pype with pipeArg: the child's list parser binds argList to the list pype split
        # from the text; the child grows it in place; the same text is pyped again (re-runs of main,
        # the other parent, a second foreach iteration)
        case['file_loader'] = None
        if rng.random() < 0.5:
            # the files on disk, main run through a loader that wraps the file loader, then through
            # the file loader, then the wrapper again: the pype child is found by the CASCADING loader
            case['file_loader'] = {'layout': rng.choice(['name', 'dir'])}
            case['two_loaders'] = True
            case['shortcut'] = False
        g = Gen(rng, True)
        g.known, g.types = ['argList'], {'argList': 'l'}
        g.no_foreach = rng.random() < 0.7
        child = [g.step() for _ in range(rng.randint(0, 2))]
        child = [st for st in child if st['kind'] not in ('configvars',)]
        how = rng.choice(['append', 'py', 'merge'])
        if how == 'append':
            m = {'kind': 'append', 'in': [], 'list': 'argList', 'mode': rng.choice(['key', 'py']), 'addMe': rng.randint(0, 9)}
        elif how == 'py':
            m = {'kind': 'py', 'in': [], 'code': ['append', 'argList', rng.randint(0, 9)]}
        else:
            m = {'kind': 'merge', 'in': [], 'pairs': [['argList', {'l': [rng.randint(0, 9)]}]]}
        child.insert(rng.randint(0, len(child)), m)
        case['child'] = child
        texts = [' '.join(rng.choice(ARG_WORDS) for _ in range(rng.randint(1, 3))) for _ in range(2)]
        for pname in ('main', 'other') if rng.random() < 0.5 else ('main',):
            st = {'kind': 'pype', 'in': [], 'pipeArg': rng.choice(texts)}
            if rng.random() < 0.2:
                st['foreach'] = [rng.randint(0, 9) for _ in range(2)]
            case[pname].insert(rng.randint(0, len(case[pname])), st)
    same = threads and rng.random() < 0.5
    if same or ((not threads) and rng.random() < 0.12):
        # a loop step that calls a group (same-pipeline threads: both runs go through the SAME cached step)
        g = Gen(rng, True)
        g.known = [k for k, _ in dict_in]
        g.types = {k: g.type_of(v) for k, v in dict_in}
        at = rng.randint(0, len(case['main']))
        case['main'].insert(at, g.call_step(foreach=same or rng.random() < 0.8))
        if same:
            case['main'] = case['main'][max(0, at - 1):at + 2]
    if threads:
        blocks = [len(L.pipeline_ops(case, p, True)) for p in L.thread_pipes({'threads': {'same': same}})]
        n0, n1 = blocks
        scheds = []
        for _ in range(3):
            s = [0] * n0 + [1] * n1
            rng.shuffle(s)
            scheds.append(s)
        case['threads'] = {'schedules': scheds, 'same': bool(same)}
    else:
        case['threads'] = None
    return case


class _RootIndex(dict):
    """stand-in root table for asking parser_ops only WHETHER it binds argList."""

    def __missing__(self, key):
        return 0
