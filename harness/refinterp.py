"""A clean-room reference interpreter of pypyr's DOCUMENTED step semantics, written from the
property statements C01-C07 (not from the code, not from the Coq model).  The engine monitors
compare what the real run did with what this says should happen.  It covers a fragment
(single pipeline; probe/fail/incr/set/clear/stop*/call/jump; simple formatting); anything
else raises Unsupported and the monitors stay silent for that case.
"""
from fractions import Fraction

import copy
import pv


def plain_container(v):
    """lists / dicts / tuples whose leaves are numbers, bools, None or brace-free strings."""
    if isinstance(v, (list, tuple)):
        return all(plain_container(x) for x in v)
    if isinstance(v, dict):
        return all(plain_container(k) and plain_container(x) for k, x in v.items())
    if isinstance(v, str):
        return '{' not in v and '}' not in v
    return v is None or isinstance(v, (bool, int))


class Unsupported(Exception):
    pass


class Stop(Exception):
    pass


class StopPipeline(Stop):
    pass


class StopStepGroup(Stop):
    pass


class Jump(Exception):
    def __init__(self, groups, success, failure):
        self.groups, self.success, self.failure = groups, success, failure


class StepError(Exception):
    """An ordinary error raised by a step body."""

    def __init__(self, name, msg):
        super().__init__(msg)
        self.name, self.msg = name, msg


MISSING = {'obj': -1}


class Ref:
    def __init__(self, case):
        self.case = case
        self.pipes = {pn: dict((g, steps) for g, steps in groups if g != 'context_parser')
                      for pn, groups in case['lib']}
        self.parsers = {pn: any(g == 'context_parser' for g, _ in groups) for pn, groups in case['lib']}
        self.stack = [case['lib'][0][0]]
        self.ctx = {}
        if case.get('dict_in') is not None:
            self.ctx = {k: pv.to_py(v) for k, v in case['dict_in']}
        self.trace = []
        self.sleeps = []          # Fraction, or ('range', lo, hi) for jittered ones
        self.errors = []          # (name, msg, step module, swallowed)
        self.error_pos = []       # where the recording step is written: (group, index, written as a bare name?)
        self.budget = 5000
        self.notes = set()

    # ------------------------------------------------------------ values
    def fmt(self, v):
        """documented formatting for the simple forms only."""
        from pypyr.dsl import PyString, SicString
        if isinstance(v, PyString):
            return self.py(v.value)
        if isinstance(v, SicString):
            return v.value
        if isinstance(v, str):
            if '{' not in v and '}' not in v:
                return v
            import string
            try:
                items = list(string.Formatter().parse(v))
            except ValueError:
                raise Unsupported('format syntax')
            fields = [it for it in items if it[1] is not None]
            if any(it[2] or it[3] or not it[1].isidentifier() for it in fields):
                raise Unsupported('format')
            if len(items) == 1 and len(fields) == 1 and not items[0][0]:
                key = fields[0][1]
                if key not in self.ctx:
                    raise StepError('pypyr.errors.KeyNotInContextError', None)
                inner = self.ctx[key]
                if isinstance(inner, (str, list, dict, tuple, PyString, SicString)):
                    if isinstance(inner, str) and '{' not in inner and '}' not in inner:
                        return inner
                    if isinstance(inner, (list, tuple)) and all(
                            isinstance(x, (int, bool, type(None))) or
                            (isinstance(x, str) and '{' not in x and '}' not in x) for x in inner):
                        return inner
                    raise Unsupported('nested format')
                return inner
            out = []
            for lit, key, _, _ in items:
                out.append(lit)
                if key is not None:
                    if key not in self.ctx:
                        raise StepError('pypyr.errors.KeyNotInContextError', None)
                    x = self.ctx[key]
                    if isinstance(x, bool) or x is None or isinstance(x, int) or \
                            (isinstance(x, str)):
                        out.append(str(x))
                    else:
                        raise Unsupported('format value')
            return ''.join(out)
        if isinstance(v, (list, tuple)):
            return type(v)(self.fmt(x) for x in v) if not hasattr(v, 'lc') else [self.fmt(x) for x in v]
        if isinstance(v, dict):
            return {self.fmt(k): self.fmt(x) for k, x in v.items()}
        return v

    def py(self, src):
        try:
            if ' for ' in src:
                # a generator expression is evaluated lazily: its free names are read from the LIVE
                # context at the moment each item is pulled
                ctx = self.ctx

                class Live(dict):
                    def __missing__(self, k):
                        return ctx[k]
                return eval(src, Live())
            return eval(src, {}, dict(self.ctx))
        except Exception as e:
            raise StepError(type(e).__name__, str(e))

    def truth(self, v):
        """pypyr's truth rule."""
        from pypyr.dsl import PyString
        if isinstance(v, PyString):
            return bool(self.py(v.value))
        if isinstance(v, str):
            r = self.fmt(v)
            if isinstance(r, bool):
                return r
            if isinstance(r, str):
                return r.lower() in ('true', '1', '1.0')
            return bool(r)
        return bool(v)

    def num(self, v, kind):
        r = self.fmt(v) if isinstance(v, str) or hasattr(v, 'get_value') else v
        if isinstance(r, bool) or isinstance(r, (int, float)):
            return kind(r)
        if isinstance(r, str) and r.isdigit():
            return kind(r)
        raise Unsupported('number')

    # documented contextmerge / default semantics (C10 statement) for plain trees
    def merge(self, cur, add):
        for k, v in add.items():
            k = self.fmt(k)
            if isinstance(k, (list, dict)):
                raise Unsupported('unhashable key')
            if isinstance(v, str) or hasattr(v, 'get_value'):
                cur[k] = self.fmt(v)
            elif k in cur and isinstance(cur[k], dict) and isinstance(v, dict):
                self.merge(cur[k], v)
            elif k in cur and isinstance(cur[k], list) and isinstance(v, list):
                cur[k] = cur[k] + list(self.fmt(v))
            elif k in cur and isinstance(cur[k], tuple) and isinstance(v, tuple):
                cur[k] = cur[k] + tuple(self.fmt(v))
            else:
                cur[k] = self.fmt(v)

    def defaults(self, cur, dflt):
        for k, v in dflt.items():
            k = self.fmt(k)
            if isinstance(k, (list, dict)):
                raise Unsupported('unhashable key')
            if k in cur:
                if isinstance(cur[k], dict) and isinstance(v, dict):
                    self.defaults(cur[k], v)
            else:
                cur[k] = self.fmt(v)

    def tick(self):
        self.budget -= 1
        if self.budget < 0:
            raise Unsupported('budget')

    @property
    def pipe(self):
        return self.pipes[self.stack[-1]]

    # ------------------------------------------------------------ pype
    def pype(self, c):
        if c.get('pype') is None:
            raise Unsupported('pype config')
        cfg = self.fmt(c['pype'])
        if not isinstance(cfg, dict) or not isinstance(cfg.get('name'), str) or cfg['name'] not in self.pipes:
            raise Unsupported('pype')
        if any(k in cfg for k in ('loader', 'pyDir', 'parent', 'resolveFromParent')):
            raise Unsupported('pype option')
        pipe_arg = cfg.get('pipeArg')
        if pipe_arg is not None and not isinstance(pipe_arg, str):
            raise Unsupported('pipeArg')
        if pipe_arg and any(ch in pipe_arg for ch in '"\'\\#') or (pipe_arg and pipe_arg != ' '.join(pipe_arg.split(' '))):
            raise Unsupported('pipeArg quoting')
        if pipe_arg and 'skipParse' not in cfg:
            skip_parse = False
        else:
            skip_parse = bool(cfg.get('skipParse', True))
        parse_args = None if skip_parse else (pipe_arg.split(' ') if pipe_arg else [])
        args = cfg.get('args')
        if args is not None and not isinstance(args, dict):
            raise StepError('pypyr.errors.ContextError', None)
        if (args or pipe_arg) and 'useParentContext' not in cfg:
            use_parent = False
        else:
            use_parent = bool(cfg.get('useParentContext', True))
        out = cfg.get('out')
        if out and use_parent:
            raise StepError('pypyr.errors.ContextError', None)
        raise_error = bool(cfg.get('raiseError', True))
        groups = cfg.get('groups')
        if isinstance(groups, str):
            groups = [groups]
        su, fa = cfg.get('success'), cfg.get('failure')
        parent_ctx, parent_errs, parent_stack = self.ctx, self.errors, self.stack
        try:
            if use_parent:
                if args:
                    self.ctx.update(args)
                self.stack = parent_stack + [cfg['name']]
            else:
                self.ctx = dict(args) if args else {}
                self.errors = []
                self.stack = [cfg['name']]
            try:
                self.run_pipeline(groups, su, fa, parse_args)
                if not use_parent and out:
                    if isinstance(out, str):
                        pairs = {out: out}
                    elif isinstance(out, list):
                        pairs = {k: k for k in out}
                    elif isinstance(out, dict):
                        pairs = out
                    else:
                        raise Unsupported('out')
                    for pk, ck in pairs.items():
                        if ck not in self.ctx:
                            raise StepError('pypyr.errors.KeyNotInContextError', None)
                        v = self.fmt(self.ctx[ck]) if isinstance(self.ctx[ck], str) else self.ctx[ck]
                        if isinstance(v, (list, dict, tuple)) and not isinstance(self.ctx[ck], str):
                            if not plain_container(v):
                                raise Unsupported('out container')
                            v = copy.deepcopy(v)        # formatting a brace-free container rebuilds it
                        parent_ctx[pk] = v              # the parent's key is REPLACED, whatever it held
            except StepError as e:
                e.recorded = False      # a pype step records the child's failure itself
                if raise_error:
                    raise
        finally:
            self.ctx, self.errors, self.stack = parent_ctx, parent_errs, parent_stack

    def run_pipeline(self, groups, su, fa, parse_args=None):
        """one pipeline run: optional context parser, then the groups; StopPipeline ends it."""
        if not groups:
            groups = ['steps']
            if not su and not fa:
                su, fa = 'on_success', 'on_failure'
        try:
            if parse_args is not None and self.parsers.get(self.stack[-1]):
                if parse_args[:1] == ['fail']:
                    # the pipeline fails before any step: its failure handler runs, then the error
                    err = StepError('ValueError', 'parser boom')
                    err.recorded = True      # not a step failure: nothing records it in this pipeline
                    if fa:
                        try:
                            self.run_handler(fa)
                        except StopStepGroup:
                            pass
                        except StepError:
                            pass
                    raise err
                if parse_args[:1] != ['none']:
                    self.ctx.update({'parsed': list(parse_args), 'pflag': True})
            self.run_groups(groups, su, fa)
        except StopPipeline:
            pass        # stoppipeline ends only this pipeline, wherever in it it was issued

    def run_handler(self, failure):
        steps = self.pipe.get(failure)
        for st in steps or []:
            try:
                self.run_step(st)
            except Jump as j:
                self.run_groups(j.groups, j.success, j.failure)
                break

    # ------------------------------------------------------------ step bodies
    def body(self, st, loc):
        self.tick()
        b = st['body']
        c = self.ctx
        if b == 'probe':
            watch = c.get('pwatch')
            vals = []
            if isinstance(watch, list):
                vals = [c.get(k, MISSING) if isinstance(k, str) else MISSING for k in watch]
            self.trace.append({'tag': c.get('ptag', MISSING), 'i': c.get('i', MISSING),
                               'wc': c.get('whileCounter', MISSING), 'rc': c.get('retryCounter', MISSING),
                               'watch': vals})
        elif b == 'fail':
            cfg = c['vfail']
            go = self.truth(cfg['when']) if 'when' in cfg else True
            if go:
                msg = cfg['msg'] if 'cached' in cfg else self.fmt(cfg['msg'])
                if not isinstance(msg, str):
                    raise Unsupported('msg')
                raise StepError(cfg['err'], msg)
        elif b == 'incr':
            k = c['vincr']
            if not isinstance(c.get(k, 0), int) or isinstance(c.get(k, 0), bool):
                raise Unsupported('incr')
            c[k] = c.get(k, 0) + 1
        elif b == 'stop':
            raise Stop()
        elif b == 'stoppipeline':
            raise StopPipeline()
        elif b == 'stopstepgroup':
            raise StopStepGroup()
        elif b in ('call', 'jump'):
            if b not in c or c[b] is None:
                raise Unsupported('cof config missing')
            cfg = self.fmt(c[b])
            if isinstance(cfg, str):
                groups, su, fa = [cfg], None, None
            elif isinstance(cfg, list):
                groups, su, fa = list(cfg), None, None
            elif isinstance(cfg, dict):
                g = cfg.get('groups')
                if not g:
                    raise Unsupported('cof')
                groups = [g] if isinstance(g, str) else list(g)
                su, fa = cfg.get('success'), cfg.get('failure')
            else:
                raise Unsupported('cof')
            if not all(isinstance(g, str) for g in groups):
                raise Unsupported('cof')
            if b == 'jump':
                raise Jump(groups, su, fa)
            saved = {k: c[k] for k in ('i', 'whileCounter', 'retryCounter') if k in loc}
            orig = c[b]
            try:
                self.run_groups(groups, su, fa)
            except StepError as e:
                # whatever leaves a called group was dealt with there: the caller does not record it
                e.recorded = True
                raise
            finally:
                for k in saved:
                    c[k] = loc[k]
                c[b] = orig
        elif b == 'switch':
            cases = c.get('switch')
            if not isinstance(cases, list) or not cases:
                raise Unsupported('switch config')
            chosen = None
            for idx, case in enumerate(cases):
                if not isinstance(case, dict):
                    raise Unsupported('switch case')
                if idx == len(cases) - 1 and case.get('default') is not None:
                    chosen = case['default']
                    break
                if 'case' not in case or not case.get('call'):
                    raise Unsupported('switch case shape')
                if self.truth(case['case']):
                    chosen = case['call']
                    break
            if chosen is not None:
                cfg = self.fmt(chosen)
                if isinstance(cfg, str):
                    groups, su, fa = [cfg], None, None
                elif isinstance(cfg, list):
                    groups, su, fa = list(cfg), None, None
                elif isinstance(cfg, dict) and cfg.get('groups'):
                    g = cfg['groups']
                    groups = [g] if isinstance(g, str) else list(g)
                    su, fa = cfg.get('success'), cfg.get('failure')
                else:
                    raise Unsupported('switch call')
                if not all(isinstance(g, str) for g in groups):
                    raise Unsupported('switch groups')
                saved = {k: c[k] for k in ('i', 'whileCounter', 'retryCounter') if k in loc}
                orig = c['switch']
                try:
                    self.run_groups(groups, su, fa)
                except StepError as e:
                    e.recorded = True
                    raise
                finally:
                    for k in saved:
                        c[k] = loc[k]
                    c['switch'] = orig
        elif b == 'set':
            if c.get('set') is None:
                raise Unsupported('set')
            items = c.pop('set')
            for k, v in items.items():
                c[self.fmt(k)] = self.fmt(v)
        elif b == 'clear':
            for k in c['contextClear']:
                c.pop(k, None)
        elif b == 'clearall':
            c.clear()
        elif b in ('merge', 'default'):
            key = 'contextMerge' if b == 'merge' else 'defaults'
            if not isinstance(c.get(key), dict):
                raise Unsupported('merge payload')
            if key in c[key]:
                raise Unsupported('payload names itself')
            (self.merge if b == 'merge' else self.defaults)(c, c[key])
        elif b == 'pype':
            self.pype(c)
        else:
            raise Unsupported(b)

    # ------------------------------------------------------------ decorators
    def attempt_loop(self, st, loc):
        r = st.get('retry')
        if not r:
            return self.body(st, loc)
        self.ctx['retryCounter'] = 0
        sleep = self.fmt(r.get('sleep', 0))
        bo = self.fmt(r['backoff']) if r.get('backoff') else 'fixed'
        mx = self.num(r['sleepMax'], float) if r.get('sleepMax') else None
        jrc = self.fmt(r.get('jrc', 0))
        args = self.fmt(r.get('backoffArgs'))
        maxn = self.num(r['max'], int) if r.get('max') else None
        if maxn is not None and maxn < 1:
            raise Unsupported('retry max < 1')
        base = (args or {}).get('base', 2) if isinstance(args, dict) or args is None else 2
        n = 0
        while True:
            self.tick()
            n += 1
            self.ctx['retryCounter'] = n
            loc2 = dict(loc)
            loc2['retryCounter'] = n
            try:
                self.body(st, loc2)
                return
            except StepError as e:
                if maxn is not None and n >= maxn:
                    raise
                stop_on = r.get('stopOn')
                retry_on = r.get('retryOn')
                if stop_on and e.name in self.fmt(stop_on):
                    raise
                if retry_on and e.name not in self.fmt(retry_on):
                    raise
                self.sleeps.append(self.duration(bo, sleep, mx, jrc, base, n))

    def duration(self, bo, sleep, mx, jrc, base, n):
        def F(x):
            if isinstance(x, bool) or not isinstance(x, (int, float)):
                raise Unsupported('sleep type')
            return Fraction(x)
        if bo in ('fixed', 'jitter'):
            if isinstance(sleep, list):
                if not sleep:
                    raise Unsupported('empty sleep list')
                d = F(sleep[n - 1] if n - 1 < len(sleep) else sleep[-1])
            else:
                d = F(sleep)
        elif bo in ('linear', 'linearjitter'):
            d = n * F(sleep)
        elif bo in ('exponential', 'exponentialjitter'):
            d = F(base) ** n * F(sleep)
        else:
            raise Unsupported('backoff')
        if mx:
            d = min(d, Fraction(mx))
        if bo.endswith('jitter'):
            lo, hi = F(jrc) * d, d
            return ('range', min(lo, hi), max(lo, hi))
        return d

    def conditional(self, st, loc):
        self.tick()
        if not self.truth(st.get('run', True)):
            return
        if self.truth(st.get('skip', False)):
            return
        try:
            self.attempt_loop(st, loc)
        except StepError as e:
            swallow = self.truth(st.get('swallow', False))
            if not getattr(e, 'recorded', False):
                custom = {}
                if st.get('onError'):
                    custom = self.fmt(st['onError'])       # the payload is formatted when recording
                self.errors.append((e.name, e.msg, st['module'], swallow, custom))
                self.error_pos.append(st.get('pos'))
                e.recorded = True
            if not swallow:
                raise

    def foreach(self, st, loc):
        if 'foreach' not in st or st['foreach'] is None:
            return self.conditional(st, loc)
        raw = st['foreach']
        items = self.fmt(raw)
        if isinstance(items, dict):
            items = list(items.keys())
        import types
        if not isinstance(items, (list, tuple, types.GeneratorType)):
            raise Unsupported('not iterable')
        if not raw and not isinstance(raw, bool):
            self.notes.add('foreach-literal-falsy')
        puller = iter(items)
        while True:
            try:
                it = next(puller)
            except StopIteration:
                break
            except Exception as e:      # a lazy iterable failing when pulled: the loop's own error
                raise StepError(type(e).__name__, None)
            self.ctx['i'] = it
            loc2 = dict(loc)
            loc2['i'] = it
            self.conditional(st, loc2)

    def run_step(self, st):
        self.tick()
        loc = {}
        inn = st.get('in')
        if inn:
            self.ctx.update(inn)
        desc = st.get('description')
        if desc:
            # a step with a description formats it and evaluates run (and skip when run is true) once up
            # front, for the log: an error there ends the step at once - not recorded, not swallowed,
            # not retried, the in-arguments still in context
            def unrecorded(fn):
                try:
                    return fn()
                except StepError as e:
                    e.recorded = True
                    raise
            unrecorded(lambda: self.fmt(desc))
            if unrecorded(lambda: self.truth(st.get('run', True))):
                unrecorded(lambda: self.truth(st.get('skip', False)))
        w = st.get('while')
        if not w:
            self.foreach(st, loc)
        else:
            self.ctx['whileCounter'] = 0
            eom = self.truth(w.get('errorOnMax', False))
            sleep = self.num(w.get('sleep', 0), float)
            maxn = self.num(w['max'], int) if w.get('max') is not None else None
            if w.get('stop') is None and maxn is None:
                raise Unsupported('while without bounds')
            n = 0
            stopped = False
            while maxn is None or n < maxn:
                self.tick()
                if n > 0:
                    self.sleeps.append(Fraction(sleep))
                n += 1
                self.ctx['whileCounter'] = n
                self.foreach(st, {'whileCounter': n})
                if w.get('stop') is not None and w.get('stop') is not False and w.get('stop') != '' \
                        and self.truth(w['stop']):
                    stopped = True
                    break
            if not stopped and eom and maxn is not None and maxn >= 1:
                raise StepError('pypyr.errors.LoopMaxExhaustedError', None)
        if inn:
            for k in inn:
                self.ctx.pop(k, None)

    # ------------------------------------------------------------ groups
    def run_group(self, name):
        steps = self.pipe.get(name)
        for st in steps or []:
            try:
                self.run_step(st)
            except Jump as j:
                self.run_groups(j.groups, j.success, j.failure)
                return
            except StopStepGroup:
                return

    def run_groups(self, groups, success, failure):
        if not groups:
            raise Unsupported('no groups')
        try:
            for g in groups:
                self.run_group(g)
            if success:
                self.run_group(success)
        except StepError:
            if failure:
                try:
                    self.run_handler(failure)
                except StopStepGroup:
                    return          # quiet end
                except StepError:
                    pass            # never replaces the original error
            raise

    def run(self):
        c = self.case
        args = c.get('args_in') or []
        parse_args = list(args) if (args or c.get('dict_in') is None) else None
        try:
            self.run_pipeline(c.get('groups'), c.get('success'), c.get('failure'), parse_args)
            return ['ok']
        except Stop:
            return ['ok']
        except StepError as e:
            return ['err', e.name, e.msg]


def prepare(case):
    """pv steps -> python-valued steps for the reference interpreter."""
    import engine
    lib = []
    for pname, pgroups in case['lib']:
        groups = []
        for g, steps in pgroups:
            out = []
            for i, st in enumerate(steps or []):
                d = {'body': st['body'], 'module': engine.BODIES[st['body']][0],
                     'pos': [pname, g, i, bool(st.get('simple'))]}
                if st.get('simple'):
                    out.append(d)
                    continue
                if st.get('in') is not None:
                    d['in'] = {k: pv.to_py(v) for k, v in st['in']}
                for k in ('foreach', 'run', 'skip', 'swallow', 'onError', 'description'):
                    if k in st:
                        d[k] = pv.to_py(st[k])
                for k in ('while', 'retry'):
                    if st.get(k) is not None:
                        d[k] = {kk: pv.to_py(vv) for kk, vv in st[k].items()}
                out.append(d)
            groups.append([g, out])
        lib.append([pname, groups])
    return {'lib': lib, 'dict_in': case.get('dict_in'), 'args_in': case.get('args_in'),
            'groups': case.get('groups'), 'success': case.get('success'), 'failure': case.get('failure')}


def reference(case):
    """-> dict(outcome, trace, sleeps, errors, notes) or None when outside the fragment."""
    try:
        ref = Ref(prepare(case))
        outcome = ref.run()
    except Unsupported:
        return None
    except (KeyError, TypeError, AttributeError, ValueError, RecursionError):
        return None
    canon = pv.Canon()
    canon.ids[id(MISSING)] = -1

    def cv(x):
        return MISSING if x is MISSING else canon(x)
    trace = [[cv(e['tag']), cv(e['i']), cv(e['wc']), cv(e['rc']), [cv(x) for x in e['watch']]]
             for e in ref.trace]
    return {'outcome': outcome, 'trace': trace, 'sleeps': ref.sleeps, 'errors': ref.errors, 'error_pos': ref.error_pos,
            'final_counters': [cv(ref.ctx.get(k, MISSING)) for k in ('i', 'whileCounter', 'retryCounter')],
            'notes': sorted(ref.notes)}
