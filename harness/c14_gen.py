"""C14: seeded, type-directed generator of cases (context + mini-Python program).
Mostly valid programs; a controlled share of unknown names, type confusion and
scope-classification traps (use-before-walrus in a lambda, walrus inside comprehensions,
context keys that shadow builtins / imports / save)."""

INT_KEYS = ['a', 'b', 'n', 'x', 'y', 't']
LIST_KEYS = ['lst', 'lst2', 'xs']
SHADOW_KEYS = ['len', 'list', 'id', 'abs', 'sum', 'math', 'gcd', 'save', 'K', 'f', 'C', 's', 'c14_mod']
BUILTINS = {'len': 'native', 'abs': 'native', 'list': 'native', 'sum': 'native', 'id': 'native'}
LOCALS = ['x', 'y', 'z', 'i', 'j', 'q', 'w']
FRESH = ['w', 't', 'y', 'r', 'v']
UNKNOWN = ['nope', 'undefined_name']
def import_forms(P):
    """import statements the cases draw from: plain, dotted un-aliased, dotted aliased, from-forms that
    name an attribute or a submodule — over a throw-away package P and a few stdlib packages"""
    return [
        ['import', 'math'], ['from', 'math', 'gcd', 'gcd'], ['import', 'c14_mod'],
        ['from', 'c14_mod', 'K', 'K'], ['from', 'c14_mod', 'S', 's'], ['from', 'math', 'gcd', 'g'],
        ['from', 'c14_mod', 'K', 'a'], ['from', 'c14_mod', 'K', 'len'],
        ['import', P], ['import', f'{P}.sub.mod'], ['import', f'{P}.sub.mod'], ['import', f'{P}.sub.mod'],
        ['import', f'{P}.sub'], ['import', f'{P}.other'],
        ['importas', f'{P}.sub.mod', 'm'], ['importas', f'{P}.other', 'oth'], ['importas', f'{P}.sub', 'sb'],
        ['from', f'{P}.sub', 'mod', 'mod'], ['from', f'{P}.sub', 'mod', 'leaf'], ['from', f'{P}.sub', 'SUBC', 'SUBC'],
        ['from', f'{P}.sub.mod', 'CONST', 'Y'], ['from', P, 'sub', 'sub'], ['from', P, 'TOP', 'TOP'],
        ['import', 'os.path'], ['importas', 'os.path', 'osp'], ['from', 'os', 'path', 'path'],
        ['from', 'os.path', 'sep', 'sep'],
        ['import', 'urllib.parse'], ['importas', 'urllib.parse', 'up'], ['from', 'urllib.parse', 'quote', 'quote'],
        ['from', 'urllib', 'parse', 'parse'],
        ['import', 'xml.dom.minidom'], ['importas', 'xml.dom.minidom', 'md'], ['from', 'xml.dom', 'minidom', 'minidom'],
        ['from', 'xml.dom', 'XHTML_NAMESPACE', 'XN'],
        # several names in one from-import; a sub-module (not imported yet) before plain attributes, with
        # (TOP) and without (ONLY) a same-named attribute inside the sub-module
        ['fromn', P, [['sub', 'sub'], ['TOP', 'TOP']]], ['fromn', P, [['sub', 'sub'], ['ONLY', 'ONLY']]],
        ['fromn', P, [['sub', 'sb'], ['TOP', 'T'], ['ONLY', 'O']]], ['fromn', P, [['other', 'oth'], ['sub', 'sub'], ['TOP', 'TOP']]],
        ['fromn', P, [['TOP', 'TOP'], ['sub', 'sub']]], ['fromn', f'{P}.sub', [['mod', 'mod'], ['SUBC', 'SUBC'], ['TOP', 'ST']]],
        ['fromn', P, [['sub', 'sub'], ['other', 'other'], ['ONLY', 'ONLY']]],
        ['fromn', 'xml.dom', [['minidom', 'minidom'], ['XHTML_NAMESPACE', 'XN']]],
        ['fromn', 'c14_mod', [['K', 'K'], ['S', 'S']]], ['fromn', 'urllib', [['parse', 'parse']]],
    ]


SAVE_KW_TRAPS = ['context', 'namespace', 'args', 'kwargs', 'self', 'save', 'key', 'arg', 'd', 'err', 'r']
ATTR_POOL = ['K', 'S', 'gcd', 'p', 'q', 'sub', 'mod', 'other', 'CONST', 'TOP', 'NAME', 'parse', 'dom',
             'minidom', 'path', 'sep', 'quote']


class ModSim:
    """What the generator believes about modules (only steers towards valid programs; the expected
    values come from the model and from plain Python, never from here)."""

    def __init__(self, P):
        import c14_lang as L
        self.mods = {m: dict((a, v) for a, v in attrs) for m, attrs in L.case_mods({'pkg': P})}
        self.loaded = {'os', 'os.path', 'posixpath'}

    def vtype(self, v):
        if isinstance(v, bool):
            return 'bool'
        if isinstance(v, int):
            return 'int'
        if isinstance(v, str):
            return 'str'
        if isinstance(v, dict) and 'mod' in v:
            return 'mod:' + v['mod']
        return 'native'

    def value(self, m):
        v = self.mods[m].get('<self>')
        return v if v else {'mod': m}

    def load(self, m):
        parts = m.split('.')
        for i in range(1, len(parts) + 1):
            self.loaded.add('.'.join(parts[:i]))

    def bind(self, s):
        if s[0] == 'import':
            self.load(s[1])
            top = s[1].split('.')[0]
            return top, self.vtype(self.value(top))
        if s[0] == 'importas':
            self.load(s[1])
            return s[2], self.vtype(self.value(s[1]))
        if s[0] == 'fromn':
            return self.bind_all(s)[0]
        self.load(s[1])
        attrs = self.mods[s[1]]
        if s[2] in attrs:
            return s[3], self.vtype(attrs[s[2]])
        self.load(f'{s[1]}.{s[2]}')
        return s[3], self.vtype(self.value(f'{s[1]}.{s[2]}'))

    def bind_all(self, s):
        if s[0] == 'fromn':
            return [self.bind(['from', s[1], n, a]) for n, a in s[2]]
        return [self.bind(s)]

    def chains(self, m, depth=3):
        """attribute chains from module m to plain values: [([attrs], type)]"""
        out = []
        if m not in self.mods or depth == 0:
            return out
        for a, v in self.mods[m].items():
            if a == '<self>':
                continue
            t = self.vtype(v)
            if t.startswith('mod:'):
                out += [([a] + c, tt) for c, tt in self.chains(t[4:], depth - 1)]
            else:
                out.append(([a], t))
        for sub in self.mods:
            if sub.startswith(m + '.') and '.' not in sub[len(m) + 1:] and sub in self.loaded:
                a = sub[len(m) + 1:]
                if a not in self.mods[m]:
                    out += [([a] + c, tt) for c, tt in self.chains(sub, depth - 1)]
        return out


def import_binding(s, sim=None):
    return (sim or ModSim('c14pkg_0')).bind(s)


def gen_scalar(rng, t):
    if t == 'int':
        return rng.choice([0, 1, 2, 3, 5, 7, 10, -1, -4, 12])
    if t == 'str':
        return rng.choice(['', 'a', 'ab', 'xyz', 'seven'])
    if t == 'bool':
        return rng.choice([True, False])
    return None


def gen_context(rng):
    heap, ctx, types = [], [], {}
    nk = rng.choice([1, 2, 3, 3, 4, 4, 5, 6])
    pool = INT_KEYS * 2 + LIST_KEYS * 3 + SHADOW_KEYS
    keys = []
    while len(keys) < nk:
        k = rng.choice(pool)
        if k not in keys:
            keys.append(k)
    if not any(k in LIST_KEYS for k in keys):
        keys.append('lst')
    if not any(k in INT_KEYS for k in keys) and rng.random() < 0.8:
        keys.append('a')
    rng.shuffle(keys)
    view = rng.random() < 0.14
    for k in keys:
        if k in LIST_KEYS:
            t = 'list'
        elif k in INT_KEYS:
            t = rng.choice(['int'] * 6 + ['bool', 'str'])
        else:
            t = rng.choice(['int', 'int', 'str', 'list', 'none', 'bool'])
        if t == 'list':
            if heap and rng.random() < 0.15:
                v = {'ref': rng.randrange(len(heap))}      # the same object under two keys
            else:
                n = rng.choice([0, 1, 2, 2, 3, 3])
                items = [gen_scalar(rng, 'int') for _ in range(n)]
                if heap and rng.random() < 0.08:
                    items.append({'ref': rng.randrange(len(heap))})
                elif rng.random() < 0.05:
                    items.append(rng.choice(['s', None, True]))
                heap.append(items)
                v = {'ref': len(heap) - 1}
        else:
            v = gen_scalar(rng, t)
        ctx.append([k, v])
        types[k] = t
    if view and 'peek' not in types:
        # a context value that is a live view of the context (reads it when called)
        ctx.insert(rng.randrange(len(ctx) + 1), ['peek', {'view': 1}])
        types['peek'] = 'view'
    return heap, ctx, types


class Scope:
    def __init__(self, locs=None, in_comp=False, in_iter=False, iters=(), in_lam=False, in_class=False):
        self.locs = dict(locs or {})
        self.in_comp, self.in_iter, self.in_lam, self.in_class = in_comp, in_iter, in_lam, in_class
        self.iters = set(iters)

    def child(self, **kw):
        s = Scope(self.locs, self.in_comp, self.in_iter, self.iters, self.in_lam, self.in_class)
        for k, v in kw.items():
            setattr(s, k, v)
        return s


class Gen:
    def __init__(self, rng, genv, wild=0.06, sim=None):
        self.sim = sim or ModSim('c14pkg_0')
        self.rng = rng
        self.genv = genv          # global names -> type (context, imports, block bindings)
        self.wild = wild
        self.new_globals = {}     # names bound at module level by := (eval) while generating

    # -- name resolution as the generator sees it
    def typeof(self, name, sc):
        if name in sc.locs:
            return sc.locs[name]
        if name in self.genv:
            return self.genv[name]
        return BUILTINS.get(name)

    def names(self, t, sc):
        out = [k for k, v in sc.locs.items() if v == t]
        out += [k for k, v in self.genv.items() if v == t and k not in sc.locs]
        if t == 'native':
            out += [k for k in BUILTINS if k not in sc.locs and k not in self.genv]
        return out

    def native(self, name, sc):
        return self.typeof(name, sc) == 'native' and name not in sc.locs and name not in self.genv

    def pick(self, opts):
        tot = sum(w for w, _ in opts)
        r = self.rng.random() * tot
        for w, f in opts:
            r -= w
            if r <= 0:
                return f()
        return opts[-1][1]()

    def mod_reads(self, t, sc):
        """expressions name.a.b.X of type t through the module objects bound to global names"""
        out = []
        for k, kt in self.genv.items():
            if isinstance(kt, str) and kt.startswith('mod:') and k not in sc.locs:
                for chain, ct in self.sim.chains(kt[4:]):
                    if ct == t:
                        e = ['name', k]
                        for a in chain:
                            e = ['attr', e, a]
                        out.append(e)
        return out

    # -- expressions
    def expr(self, t, d, sc):
        rng = self.rng
        if rng.random() < self.wild:
            return self.wild_expr(d, sc)
        if t == 'any':
            t = rng.choice(['int'] * 5 + ['list'] * 4 + ['bool', 'str', 'none'])
        if t == 'int':
            return self.int_expr(d, sc)
        if t == 'list':
            return self.list_expr(d, sc)
        if t == 'bool':
            if d > 0 and rng.random() < 0.8:
                op = rng.choice(['eq', 'lt', 'eq'])
                tt = 'int' if op == 'lt' else rng.choice(['int', 'int', 'list'])
                return ['bin', op, self.expr(tt, d - 1, sc), self.expr(tt, d - 1, sc)]
            return ['bool', rng.choice([True, False])]
        if t == 'str':
            mr = self.mod_reads('str', sc)
            if mr and rng.random() < 0.5:
                return rng.choice(mr)
            ns = self.names('str', sc)
            if ns and rng.random() < 0.5:
                return ['name', rng.choice(ns)]
            if d > 0 and rng.random() < 0.3:
                return ['bin', 'add', self.expr('str', d - 1, sc), self.expr('str', d - 1, sc)]
            return ['str', gen_scalar(rng, 'str')]
        if t == 'none':
            ls = self.names('list', sc)
            if ls and not sc.in_comp and not sc.in_iter and rng.random() < 0.6:
                return ['append', ['name', rng.choice(ls)], self.expr('int', max(d - 1, 0), sc)]
            return ['none']
        return ['none']

    def walrus(self, t, d, sc):
        rng = self.rng
        cands = [x for x in FRESH + list(self.genv)[:4] if x not in sc.iters and x != '__builtins__']
        x = rng.choice(cands) if rng.random() < 0.7 else rng.choice([c for c in cands if c in FRESH] or cands)
        e = ['walrus', x, self.expr(t, d - 1, sc)]
        if sc.in_lam:
            sc.locs[x] = t
        elif not sc.in_comp:
            self.new_globals[x] = t
            self.genv[x] = t
        return e

    def can_walrus(self, sc):
        return not sc.in_iter and not (sc.in_class and sc.in_comp)

    def lam(self, t, d, sc):
        rng = self.rng
        k = rng.choice([0, 1, 1, 2])
        ps = rng.sample(LOCALS, k)
        pts = [rng.choice(['int', 'int', 'list']) for _ in ps]
        args = [self.expr(pt, d - 1, sc) for pt in pts]
        inner = sc.child(in_lam=True, iters=set(), in_class=False)
        inner.locs = dict(sc.locs)
        inner.locs.update(dict(zip(ps, pts)))
        body = self.expr(t, d - 1, inner)
        return ['lam', ps, body, args]

    def comp(self, d, sc, elt_t='int'):
        rng = self.rng
        nc = rng.choice([1, 1, 1, 2, 2, 3])
        clauses = []
        inner = sc.child(in_comp=True)
        inner.locs = dict(sc.locs)
        vs = [rng.choice(LOCALS) for _ in range(nc)]
        inner.iters = set(sc.iters) | set(vs)
        for i, v in enumerate(vs):
            src_sc = (sc if i == 0 else inner).child(in_iter=True)
            if i > 0:
                src_sc.in_comp = True
                src_sc.iters = set(inner.iters)
            it = self.list_expr(max(d - 1, 0), src_sc, simple=rng.random() < 0.6)
            clauses.append([v, it])
            inner.locs[v] = 'int'
            if i > 0:
                pass
        elt = self.expr(elt_t, d - 1, inner)
        return ['comp', elt, clauses]

    def int_expr(self, d, sc):
        rng = self.rng
        ns = self.names('int', sc) + self.names('bool', sc)
        ls = self.names('list', sc)
        opts = [(2, lambda: ['int', gen_scalar(rng, 'int')])]
        if ns:
            opts.append((5, lambda: ['name', rng.choice(ns)]))
        if self.genv.get('peek') == 'view' and 'peek' not in sc.locs:
            ks = [k for k, v in self.genv.items() if v in ('int', 'bool') and k not in sc.locs]
            if ks:
                opts.append((2.5, lambda: ['call', ['name', 'peek'], [['str', rng.choice(ks)]]]))
        mr = self.mod_reads('int', sc)
        if mr:
            opts.append((6, lambda: rng.choice(mr)))
        if d > 0:
            opts.append((3, lambda: ['bin', 'add', self.int_expr(d - 1, sc), self.int_expr(d - 1, sc)]))
            if self.native('len', sc):
                opts.append((1.5, lambda: ['call', ['name', 'len'], [self.list_expr(d - 1, sc)]]))
            if self.native('sum', sc):
                opts.append((1, lambda: ['call', ['name', 'sum'], [self.list_expr(d - 1, sc)]]))
            if self.native('abs', sc):
                opts.append((0.7, lambda: ['call', ['name', 'abs'], [self.int_expr(d - 1, sc)]]))
            for g in [k for k in ('gcd', 'g') if self.typeof(k, sc) == 'native' and k in self.genv]:
                opts.append((1.5, lambda g=g: ['call', ['name', g], [self.int_expr(d - 1, sc), self.int_expr(d - 1, sc)]]))
            for k, kt in list(self.genv.items()):
                if kt == 'mod:math' and k not in sc.locs:
                    opts.append((1.5, lambda k=k: ['call', ['attr', ['name', k], 'gcd'],
                                                   [self.int_expr(d - 1, sc), self.int_expr(d - 1, sc)]]))
            for f, ft in self.genv.items():
                if isinstance(ft, str) and ft.startswith('func:') and f not in sc.locs:
                    k = int(ft[5:])
                    opts.append((2.5, lambda f=f, k=k: ['call', ['name', f], [self.int_expr(d - 1, sc) for _ in range(k)]]))
                if isinstance(ft, str) and ft.startswith('cls:') and f not in sc.locs:
                    attrs = [a for a in ft[4:].split(',') if a]
                    if attrs:
                        opts.append((2, lambda f=f, attrs=attrs: ['attr', ['name', f], rng.choice(attrs)]))
            opts.append((3.0, lambda: self.lam('int', d, sc)))
            if self.can_walrus(sc):
                opts.append((3.0 if sc.in_comp or sc.in_lam else 1.4, lambda: self.walrus('int', d, sc)))
        return self.pick(opts)

    def list_expr(self, d, sc, simple=False):
        rng = self.rng
        ls = self.names('list', sc)
        opts = [(1.5, lambda: ['list', [self.int_expr(max(d - 1, 0), sc) for _ in range(rng.choice([0, 1, 2, 2, 3]))]])]
        if ls:
            opts.append((6 if simple else 4, lambda: ['name', rng.choice(ls)]))
        if d > 0 and not simple:
            opts.append((2.5, lambda: self.comp(d, sc)))
            opts.append((1.2, lambda: ['bin', 'add', self.list_expr(d - 1, sc), self.list_expr(d - 1, sc)]))
            if self.native('list', sc):
                opts.append((0.7, lambda: ['call', ['name', 'list'], [self.list_expr(d - 1, sc)]]))
            opts.append((0.8, lambda: self.lam('list', d, sc)))
            if self.can_walrus(sc):
                opts.append((0.7, lambda: self.walrus('list', d, sc)))
        return self.pick(opts)

    def wild_chain(self, sc):
        """a dotted path through a module name that may or may not resolve (un-imported submodules)"""
        rng = self.rng
        ms = [k for k, kt in self.genv.items() if isinstance(kt, str) and kt.startswith('mod:')]
        e = ['name', rng.choice(ms or list(self.genv) or ['a'])]
        for _ in range(rng.choice([1, 2, 2, 3])):
            e = ['attr', e, rng.choice(ATTR_POOL)]
        return e

    def wild_expr(self, d, sc):
        rng = self.rng
        allnames = list(sc.locs) + list(self.genv) + list(BUILTINS)
        opts = [
            (2, lambda: ['name', rng.choice(UNKNOWN)]),
            (3, lambda: ['name', rng.choice(allnames)]),
            (1, lambda: ['call', ['name', rng.choice([x for x in allnames if x != 'id' or x in self.genv])],
                         [self.expr('any', max(d - 1, 0), sc)]]),
            (1, lambda: ['attr', ['name', rng.choice(allnames)], rng.choice(ATTR_POOL)]),
            (1.5, lambda: self.wild_chain(sc)),
            (1, lambda: ['bin', rng.choice(['add', 'eq', 'lt']), self.expr('any', max(d - 1, 0), sc),
                         self.expr('any', max(d - 1, 0), sc)]),
            (0.6, lambda: ['comp', ['name', 'x'], [['x', self.expr('any', max(d - 1, 0), sc.child(in_iter=True))]]]),
            (0.6, lambda: ['lam', ['x'], ['name', 'x'], [self.expr('any', max(d - 1, 0), sc) for _ in range(rng.choice([0, 1, 2]))]]),
        ]
        if not sc.in_comp and not sc.in_iter:
            opts.append((0.6, lambda: ['append', ['name', rng.choice(allnames)], ['int', 1]]))
        return self.pick(opts)


# ---------------------------------------------------------------- hand-written seeds that every run includes

def seeds():
    base = {'heap': [[1, 2]], 'ctx': [['a', 1], ['lst', {'ref': 0}]]}
    N = lambda x: ['name', x]   # noqa
    out = []

    def ev(exprs, imports=(), **kw):
        c = dict(base, kind='eval', imports=list(imports), exprs=exprs)
        c.update(kw)
        out.append(c)

    def ex(block, **kw):
        c = dict(base, kind='exec', block=block)
        c.update(kw)
        out.append(c)
    ev([['walrus', 'y', ['bin', 'add', N('a'), ['int', 2]]]])
    ev([['comp', ['walrus', 'y', N('x')], [['x', N('lst')]]], N('y'), ['lam', [], N('y'), []]])
    ev([['bin', 'add', ['comp', ['walrus', 'y', N('x')], [['x', N('lst')]]], ['list', [N('y')]]]])
    ev([['lam', ['x'], ['bin', 'add', N('y'), ['walrus', 'y', N('x')]], [['int', 5]]]],
       ctx=[['a', 1], ['lst', {'ref': 0}], ['y', 9]])
    ev([['lam', ['x'], ['lam', ['z'], ['bin', 'add', ['bin', 'add', N('x'), N('z')], N('a')], [['int', 2]]], [['int', 1]]]])
    ev([['comp', ['lam', ['q'], ['bin', 'add', ['bin', 'add', N('q'), N('x')], N('a')], [['int', 1]]], [['x', N('lst')]]]])
    ev([['comp', ['bin', 'add', ['bin', 'add', N('x'), N('y')], ['bin', 'add', N('z'), N('a')]],
         [['x', N('lst')], ['y', N('lst')], ['z', N('lst')]]]])
    ev([['call', N('gcd'), [['int', 4], ['int', 6]]], ['lam', [], ['call', ['attr', N('math'), 'gcd'], [N('a'), ['int', 6]]], []]],
       imports=[['import', 'math'], ['from', 'math', 'gcd', 'gcd']])
    ev([N('len'), ['lam', [], N('len'), []], ['comp', N('len'), [['x', N('lst')]]], ['call', N('len'), [N('lst')]]],
       ctx=[['a', 1], ['lst', {'ref': 0}], ['len', 9]])
    ev([N('gcd'), ['lam', [], N('gcd'), []]], imports=[['from', 'math', 'gcd', 'gcd']],
       ctx=[['gcd', 1], ['lst', {'ref': 0}]])
    ev([['append', N('lst'), ['int', 3]], N('lst')])
    ev([['walrus', 'lst', ['bin', 'add', N('lst'), ['list', [['int', 1]]]]]])
    ev([['comp', ['int', 1], [['x', N('lst')], ['z', N('z')]]]])
    ev([['lam', ['x'], ['bin', 'add', ['comp', ['walrus', 'y', ['bin', 'add', N('x'), N('i')]], [['i', N('lst')]]],
                        ['list', [N('y')]]], [['int', 5]]]])
    ex([['assign', 'x', ['bin', 'add', N('a'), ['int', 1]]], ['save', ['x'], []]])
    ex([['assign', 'x', ['int', 1]], ['import', 'math'], ['from', 'math', 'gcd', 'g'],
        ['def', 'f', ['q'], ['bin', 'add', N('q'), N('a')]],
        ['class', 'C', [['p', N('a')], ['q', ['comp', N('i'), [['i', N('lst')]]]]]],
        ['expr', ['comp', N('i'), [['i', N('lst')]]]], ['save', [], [['r', ['call', N('f'), [['int', 1]]]]]]])
    ex([['expr', ['append', N('lst'), ['int', 1]]]])
    ex([['aug', 'lst', ['list', [['int', 3]]]], ['aug', 'a', ['int', 1]], ['save', [], [['q', N('py')]]]])
    ex([['assign', 'x', N('save')], ['save', [], [['x', ['int', 1]]]]], ctx=[['a', 1], ['lst', {'ref': 0}], ['save', 5]])
    ex([['assign', 'x', ['int', 1]], ['save', ['x', 'nope'], []]])
    ex([['assign', 'x', ['int', 1]], ['save', ['x'], []], ['assign', 'y', N('nope')], ['save', ['a'], []]])
    ex([['del', 'a'], ['class', 'C', [['b', ['int', 2]], ['e', ['lam', [], N('b'), []]]]]])
    ex([['class', 'C', [['lst', ['list', [['int', 5]]]], ['d', ['comp', N('x'), [['x', N('lst')]]]],
                        ['w', ['walrus', 'v', ['int', 3]]]]],
        ['save', [], [['d', ['attr', N('C'), 'd']], ['v', ['attr', N('C'), 'v']]]]])
    ex([['def', 'f', ['x'], ['walrus', 'a', N('x')]], ['assign', 'r', ['call', N('f'), [['int', 5]]]], ['save', ['r', 'a'], []]])
    ex([['save', ['a'], [['a', ['int', 5]], ['zz', ['int', 1]]]]])
    # several names in one from-import, a not-yet-imported sub-module first: later names still come from the package
    R3 = 'c14pkg_seed03'
    out.append({'kind': 'eval', 'heap': [[1, 2]], 'ctx': [['a', 1], ['lst', {'ref': 0}]], 'pkg': R3,
                'imports': [['fromn', R3, [['sub', 'sub'], ['TOP', 'TOP']]]],
                'exprs': [N('TOP'), ['lam', [], N('TOP'), []], ['comp', N('TOP'), [['i', N('lst')]]], ['attr', N('sub'), 'TOP']]})
    R4 = 'c14pkg_seed04'
    out.append({'kind': 'eval', 'heap': [[1, 2]], 'ctx': [['a', 1], ['lst', {'ref': 0}]], 'pkg': R4,
                'imports': [['fromn', R4, [['other', 'oth'], ['sub', 'sb'], ['ONLY', 'ONLY'], ['TOP', 'T']]]],
                'exprs': [['bin', 'add', N('ONLY'), N('a')], N('T'), ['attr', N('oth'), 'NAME'], ['attr', N('sb'), 'SUBC']]})
    # an import hidden by a context key at pyimport time is readable once the key is gone
    out.append({'kind': 'eval', 'heap': [[1, 2]], 'ctx': [['gcd', 5], ['lst', {'ref': 0}]],
                'imports': [['from', 'math', 'gcd', 'gcd']],
                'exprs': [N('gcd'), ['call', N('gcd'), [['int', 4], ['int', 6]]], ['lam', [], ['call', N('gcd'), [['int', 4], ['int', 6]]], []],
                          ['comp', ['call', N('gcd'), [N('x'), ['int', 4]]], [['x', N('lst')]]]],
                'steps': [['import', [['from', 'math', 'gcd', 'gcd']]], ['eval', N('gcd')], ['drop', 'gcd'],
                          ['eval', ['call', N('gcd'), [['int', 4], ['int', 6]]]],
                          ['eval', ['lam', [], ['call', N('gcd'), [['int', 4], ['int', 6]]], []]],
                          ['eval', ['comp', ['call', N('gcd'), [N('x'), ['int', 4]]], [['x', N('lst')]]]]]})
    # a second pyimport step re-binds an imported name: reads before and after, at every depth
    Q = 'c14pkg_seed02'
    out.append({'kind': 'eval', 'heap': [[1, 2]], 'ctx': [['a', 1], ['lst', {'ref': 0}]], 'pkg': Q,
                'imports': [['from', f'{Q}.sub', 'mod', 'm'], ['importas', f'{Q}.other', 'm']],
                'exprs': [['attr', N('m'), 'CONST'], ['attr', N('m'), 'NAME'], ['lam', [], ['attr', N('m'), 'NAME'], []],
                          ['comp', ['attr', N('m'), 'NAME'], [['i', N('lst')]]]],
                'steps': [['import', [['from', f'{Q}.sub', 'mod', 'm']]], ['eval', ['attr', N('m'), 'CONST']],
                          ['import', [['importas', f'{Q}.other', 'm']]], ['eval', ['attr', N('m'), 'NAME']],
                          ['eval', ['lam', [], ['attr', N('m'), 'NAME'], []]],
                          ['eval', ['comp', ['attr', N('m'), 'NAME'], [['i', N('lst')]]]]]})
    out.append({'kind': 'eval', 'heap': [[1, 2]], 'ctx': [['a', 1], ['lst', {'ref': 0}]],
                'imports': [['from', 'math', 'gcd', 'g'], ['importas', 'math', 'g']],
                'exprs': [['call', N('g'), [['int', 4], ['int', 6]]], ['call', ['attr', N('g'), 'gcd'], [['int', 4], ['int', 6]]], N('g')],
                'steps': [['import', [['from', 'math', 'gcd', 'g']]], ['eval', ['call', N('g'), [['int', 4], ['int', 6]]]],
                          ['import', [['importas', 'math', 'g']]],
                          ['eval', ['call', ['attr', N('g'), 'gcd'], [['int', 4], ['int', 6]]]], ['eval', N('g')]]})
    # save() writes at the moment of the call: save then raise; save then read through a live view
    ex([['assign', 'attempt', ['int', 2]], ['save', ['attempt'], [['k', ['int', 7]]]], ['expr', N('nope')]])
    ex([['save', [], [['a', ['int', 5]]]], ['assign', 'z', ['bin', 'add', ['int', 1], ['str', 'a']]], ['save', [], [['b', ['int', 6]]]]])
    ex([['assign', 'x', ['int', 5]], ['save', ['x'], []], ['assign', 'seen', ['call', N('peek'), [['str', 'x']]]], ['save', ['seen'], []]],
       ctx=[['a', 1], ['lst', {'ref': 0}], ['peek', {'view': 1}]])
    ex([['save', [], [['a', ['int', 9]]]], ['save', [], [['r', ['bin', 'add', ['call', N('peek'), [['str', 'a']]], ['int', 1]]]]]],
       ctx=[['a', 1], ['lst', {'ref': 0}], ['peek', {'view': 1}]])
    ev([['call', N('peek'), [['str', 'a']]], ['lam', [], ['call', N('peek'), [['str', 'a']]], []]],
       ctx=[['a', 1], ['lst', {'ref': 0}], ['peek', {'view': 1}]])
    # whatever a keyword of save(...) is called, it arrives in context
    ex([['save', [], [['namespace', ['str', 'prod-ns']]]]])
    ex([['assign', 'replicas', ['int', 3]], ['save', ['replicas'], [['context', ['int', 7]], ['key', ['str', 'v']]]]])
    ex([['assign', 'x', ['int', 1]], ['save', ['x', 'a'], [['args', ['int', 1]], ['kwargs', ['int', 2]], ['self', ['none']],
                                                          ['save', ['int', 4]], ['d', N('lst')], ['arg', ['int', 5]]]]])
    # dotted imports over a throw-away package: the path resolves through the top-level name
    P = 'c14pkg_seed01'

    def path(*attrs):
        e = N(P)
        for a in attrs:
            e = ['attr', e, a]
        return e
    const = path('sub', 'mod', 'CONST')
    ev([['bin', 'add', const, N('a')], ['lam', ['k'], ['bin', 'add', const, N('k')], [['int', 2]]],
        ['comp', ['bin', 'add', const, N('x')], [['x', N('lst')]]], path('other', 'NAME')],
       imports=[['import', f'{P}.sub.mod']], pkg=P)
    ev([['attr', N('m'), 'CONST'], ['attr', N('leaf'), 'WORD'], N('Y'), path('sub', 'SUBC'), ['attr', N('oth'), 'NAME']],
       imports=[['importas', f'{P}.sub.mod', 'm'], ['from', f'{P}.sub', 'mod', 'leaf'],
                ['from', f'{P}.sub.mod', 'CONST', 'Y'], ['import', P], ['importas', f'{P}.other', 'oth']], pkg=P)
    ev([path('sub', 'mod', 'CONST')], imports=[['import', P]], pkg=P)
    ev([['attr', ['attr', N('os'), 'path'], 'sep'], ['attr', ['attr', N('urllib'), 'parse'], 'quote'],
        ['attr', ['attr', ['attr', N('xml'), 'dom'], 'minidom'], 'parseString'], ['attr', N('osp'), 'sep']],
       imports=[['import', 'os.path'], ['import', 'urllib.parse'], ['import', 'xml.dom.minidom'], ['importas', 'os.path', 'osp']])
    ex([['import', f'{P}.sub.mod'], ['def', 'f', ['k'], ['bin', 'add', const, N('k')]],
        ['save', [], [['r', ['call', N('f'), [['int', 2]]]], ['w', path('sub', 'mod', 'WORD')]]]], pkg=P)
    ex([['from', f'{P}.sub', 'mod', 'leaf'], ['importas', f'{P}.other', 'oth'],
        ['save', [], [['r', ['attr', N('leaf'), 'CONST']], ['n', ['attr', N('oth'), 'NAME']]]],
        ['assign', 'x', N(P)]], pkg=P)
    return out


# ---------------------------------------------------------------- cases

def new_pkg(rng):
    return f'c14pkg_{rng.randrange(10 ** 6):06d}'


def mentions_pkg(stmts, P):
    return any(isinstance(x, str) and (x == P or x.startswith(P + '.')) for s in stmts for x in s[1:])


def rebinding_pairs(P):
    """pairs of import statements that bind the SAME name to different objects"""
    return [
        ([['importas', f'{P}.sub.mod', 'x']], [['from', P, 'other', 'x']]),
        ([['from', f'{P}.sub', 'mod', 'm']], [['importas', f'{P}.other', 'm']]),
        ([['import', P]], [['from', f'{P}.sub', 'mod', P]]),
        ([['from', f'{P}.sub', 'mod', P]], [['import', f'{P}.other']]),
        ([['from', f'{P}.sub.mod', 'CONST', 'v']], [['from', f'{P}.sub.mod', 'WORD', 'v']]),
        ([['from', 'math', 'gcd', 'g']], [['importas', 'math', 'g']]),
        ([['importas', 'urllib.parse', 'u']], [['importas', 'os.path', 'u']]),
        ([['from', 'c14_mod', 'K', 'v']], [['from', 'c14_mod', 'S', 'v']]),
        ([['from', 'xml.dom', 'minidom', 'xml']], [['import', 'xml.dom.minidom']]),
        ([['from', 'os', 'path', 'p']], [['from', f'{P}.sub', 'SUBC', 'p']]),
    ]


def read_forms(rng, g, name, t):
    """reads of an imported name: bare, through a lambda, in a comprehension, and down to a constant"""
    outs = [['name', name], ['lam', [], ['name', name], []], ['comp', ['name', name], [['i', ['list', [['int', 0]]]]]]]
    if isinstance(t, str) and t.startswith('mod:'):
        for chain, ct in g.sim.chains(t[4:]):
            e = ['name', name]
            for a in chain:
                e = ['attr', e, a]
            outs += [e, ['lam', ['k'], e, [['int', 0]]], ['comp', e, [['i', ['name', 'lst']]]]]
    return rng.choice(outs)


def gen_session_case(rng):
    """two or three pyimport steps on one Context, re-binding a name, with !py reads between and after"""
    heap, ctx, types = gen_context(rng)
    P = new_pkg(rng)
    sim = ModSim(P)
    first, second = rng.choice(rebinding_pairs(P))
    if rng.random() < 0.3:
        first, second = second, first
    forms = import_forms(P)
    blocks = [list(map(list, first)), list(map(list, second))]
    if rng.random() < 0.35:
        blocks.append(list(map(list, rng.choice([first, second]))))       # bind it back / again
    for b in blocks:
        if rng.random() < 0.4:
            b.insert(rng.randrange(len(b) + 1), list(rng.choice(forms[8:])))
    genv = {}
    g = Gen(rng, genv, sim=sim)
    steps, exprs, imports = [], [], []
    for b in blocks:
        steps.append(['import', b])
        imports += b
        for st in b:
            for k, t in sim.bind_all(st):
                if k not in types:
                    genv[k] = t
        for k, t in types.items():
            genv[k] = t
        name = L_binding(b)
        for _ in range(rng.choice([0, 1, 1, 2])):
            e = read_forms(rng, g, name, genv.get(name)) if rng.random() < 0.7 else \
                g.expr('any', rng.choice([1, 2, 3]), Scope())
            steps.append(['eval', e])
            exprs.append(e)
    if not exprs:
        e = read_forms(rng, g, L_binding(blocks[-1]), genv.get(L_binding(blocks[-1])))
        steps.append(['eval', e])
        exprs.append(e)
    case = {'kind': 'eval', 'heap': heap, 'ctx': ctx, 'imports': imports, 'exprs': exprs, 'steps': steps}
    if mentions_pkg(imports, P):
        case['pkg'] = P
    return case


def L_binding(block):
    import c14_lang as L
    return L.stmt_binding_name(block[0]) if len(block) == 1 else \
        [L.stmt_binding_name(s) for s in block if L.stmt_binding_name(s) in ('x', 'm', 'v', 'g', 'u', 'p', 'xml')
         or L.stmt_binding_name(s).startswith('c14pkg_')][0]


def gen_hidden_import_case(rng):
    """a pyimport binds a name that is a context key at that moment; later the key goes away and !py
    strings read the name (module level, lambda, comprehension, dotted path)"""
    import c14_lang as L
    heap, ctx, types = gen_context(rng)
    P = new_pkg(rng)
    sim = ModSim(P)
    forms = import_forms(P)
    stmt = list(rng.choice(forms))
    names = L.stmt_binding_names(stmt)
    k = rng.choice(names)
    if k not in types:
        v = gen_scalar(rng, rng.choice(['int', 'str', 'none', 'bool']))
        ctx.insert(rng.randrange(len(ctx) + 1), [k, v])
        types[k] = 'int' if isinstance(v, int) and not isinstance(v, bool) else 'any'
    block = [stmt]
    if rng.random() < 0.4:
        block.insert(rng.randrange(2), list(rng.choice(forms)))
    genv = {}
    g = Gen(rng, genv, sim=sim)
    bound = {}
    for st in block:
        for n, t in sim.bind_all(st):
            bound[n] = t
    steps, exprs = [['import', block]], []

    def ev(e):
        steps.append(['eval', e])
        exprs.append(e)
    genv.update(bound)
    genv.update(types)
    for _ in range(rng.choice([0, 1, 1])):
        ev(read_forms(rng, g, k, types[k]) if rng.random() < 0.6 else g.expr('any', 2, Scope()))
    steps.append(['drop', k])
    types.pop(k)
    genv.clear()
    genv.update(bound)
    genv.update(types)
    for _ in range(rng.choice([1, 2, 2, 3])):
        ev(read_forms(rng, g, k, bound.get(k)) if rng.random() < 0.75 else g.expr('any', rng.choice([1, 2, 3]), Scope()))
    if rng.random() < 0.25:
        steps.append(['import', [list(rng.choice(forms))]])
        for n, t in sim.bind_all(steps[-1][1][0]):
            genv.setdefault(n, t)
        ev(read_forms(rng, g, k, bound.get(k)))
    imports = [x for st in steps if st[0] == 'import' for x in st[1]]
    case = {'kind': 'eval', 'heap': heap, 'ctx': ctx, 'imports': imports, 'exprs': exprs, 'steps': steps}
    if mentions_pkg(imports, P):
        case['pkg'] = P
    return case


def gen_eval_case(rng):
    r = rng.random()
    if r < 0.16:
        return gen_session_case(rng)
    if r < 0.28:
        return gen_hidden_import_case(rng)
    heap, ctx, types = gen_context(rng)
    P = new_pkg(rng)
    sim = ModSim(P)
    imports = []
    if rng.random() < 0.55:
        forms = import_forms(P)
        imports = [list(rng.choice(forms[8:] if rng.random() < 0.75 else forms)) for _ in range(rng.choice([1, 1, 2, 3]))]
    genv = {}
    for s in imports:
        for k, t in sim.bind_all(s):
            genv[k] = t
    genv.update(types)           # context first in the chain: it shadows imports
    g = Gen(rng, genv, sim=sim)
    exprs = []
    n = rng.choice([1, 1, 2, 2, 3])
    for i in range(n):
        if i > 0 and rng.random() < 0.45:
            # read back what earlier expressions may have bound, at module level / in a lambda / in a comprehension
            cands = [x[1] for e in exprs for x in _walk(e) if x[0] == 'walrus'] or list(genv) or ['a']
            x = rng.choice(cands)
            form = rng.random()
            if form < 0.5:
                exprs.append(['name', x])
            elif form < 0.75:
                exprs.append(['lam', [], ['name', x], []])
            else:
                exprs.append(['comp', ['name', x], [['i', ['list', [['int', 0]]]]]])
        else:
            exprs.append(g.expr('any', rng.choice([1, 2, 3, 3, 4, 4]), Scope()))
    case = {'kind': 'eval', 'heap': heap, 'ctx': ctx, 'imports': imports, 'exprs': exprs}
    if mentions_pkg(imports, P):
        case['pkg'] = P
    return case


def _walk(e):
    import c14_lang as L
    return L.walk(e)


def gen_exec_case(rng):
    heap, ctx, types = gen_context(rng)
    genv = dict(types)
    P = new_pkg(rng)
    sim = ModSim(P)
    g = Gen(rng, genv, sim=sim)
    block = []
    n = rng.choice([1, 2, 3, 3, 4, 5, 6])
    bound = []
    for _ in range(n):
        r = rng.random()
        sc = Scope()
        d = rng.choice([1, 2, 2, 3, 4])
        if r < 0.28:
            t = rng.choice(['int', 'int', 'list', 'bool', 'str'])
            x = rng.choice(['x', 'y', 'r', 'v', 'out'] + list(types)[:3])
            e = g.expr(t, d, sc)
            block.append(['assign', x, e])
            genv[x] = t
            bound.append(x)
        elif r < 0.38:
            t = rng.choice(['int', 'list'])
            ns = [k for k, v in genv.items() if v == t]
            if ns:
                x = rng.choice(ns)
                block.append(['aug', x, g.expr(t, max(d - 1, 0), sc)])
                bound.append(x)
        elif r < 0.48:
            forms = import_forms(P)
            s = list(rng.choice(forms[:6] if rng.random() < 0.35 else forms[8:]))
            block.append(list(s))
            for k, t in sim.bind_all(s):
                genv[k] = t
                bound.append(k)
        elif r < 0.58:
            k = rng.choice([0, 1, 1, 2])
            ps = rng.sample(LOCALS, k)
            inner = Scope(dict.fromkeys(ps, 'int'), in_lam=True)
            f = rng.choice(['f', 'f', 'h'])
            body = g.expr('int', d, inner)
            block.append(['def', f, ps, body])
            genv[f] = f'func:{k}'
            bound.append(f)
        elif r < 0.66:
            attrs = []
            csc = Scope(in_class=True)
            for a in rng.sample(['p', 'q', 'b', 'lst'], rng.choice([0, 1, 2, 2])):
                t = 'list' if a == 'lst' else 'int'
                attrs.append([a, g.expr(t, max(d - 1, 1), csc)])
                csc.locs[a] = t      # later attributes of the class body can read earlier ones
            c = rng.choice(['C', 'C', 'D'])
            block.append(['class', c, attrs])
            genv[c] = 'cls:' + ','.join(a for a, _ in attrs if a != 'lst')
            bound.append(c)
        elif r < 0.86:
            names = []
            cands = [b for b in bound if b not in ('save', '__builtins__')] + list(types)[:2]
            if cands:
                names = rng.sample(sorted(set(cands)), min(len(set(cands)), rng.choice([0, 1, 1, 2])))
            if rng.random() < 0.04:
                names.append('nope')
            kws = []
            # keyword names include ones that could collide with parameters of an implementation of save
            pool = ['r', 'out', 'k', 'a', 'lst'] if rng.random() < 0.55 else SAVE_KW_TRAPS
            for k in rng.sample(pool, rng.choice([0, 1, 1, 2, 3] if pool is SAVE_KW_TRAPS else [0, 0, 1, 2])):
                kws.append([k, g.expr('any', max(d - 1, 0), sc) if rng.random() < 0.5
                            else rng.choice([['int', 3], ['str', 'prod-ns'], ['none'], ['bool', True], ['name', 'lst']])])
            names = [x for x in names if x != 'save']
            block.append(['save', names, kws])
            saved_keys = names + [k for k, _ in kws]
            if genv.get('peek') == 'view' and saved_keys and rng.random() < 0.6:
                # read a key back through the live view right after saving it, and save what was seen
                k = rng.choice(saved_keys)
                block.append(['assign', 'seen', ['call', ['name', 'peek'], [['str', k]]]])
                block.append(['save', ['seen'], []])
                genv['seen'] = 'int'
                bound.append('seen')
            if rng.random() < 0.22:
                # ... and then the block fails: what was saved before must have arrived
                block.append(rng.choice([['expr', ['name', 'nope']],
                                         ['assign', 'z', ['bin', 'add', ['int', 1], ['str', 'a']]],
                                         ['expr', ['attr', ['int', 3], 'p']]]))
                break
        elif r < 0.95:
            block.append(['expr', g.expr(rng.choice(['none', 'none', 'int', 'list']), d, sc)])
        else:
            ns = [k for k in genv if k not in ('save',)]
            if ns:
                x = rng.choice(ns)
                block.append(['del', x])
                genv.pop(x, None)
    if not block:
        block.append(['assign', 'x', ['int', 1]])
    case = {'kind': 'exec', 'heap': heap, 'ctx': ctx, 'block': block}
    if mentions_pkg([s for s in block if s[0] in ('import', 'importas', 'from', 'fromn')], P):
        case['pkg'] = P
    return case
