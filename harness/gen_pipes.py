"""Seeded generator of terminating pypyr pipelines (engine cases).

Termination by construction: groups are ordered and call/jump/switch only target LATER
groups (handlers included); pipelines are ordered and pype only targets LATER pipelines;
while always has a max <= 4; retry always has a max <= 4.

A profile is a dict of weights/probabilities; every property's check tilts the defaults.
"""

DEFAULT = {
    'bodies': {'probe': 40, 'fail': 13, 'incr': 8, 'set': 5, 'call': 9, 'jump': 3, 'switch': 3,
               'stop': 2, 'stoppipeline': 2, 'stopstepgroup': 2, 'clear': 2, 'clearall': 1, 'pype': 5,
               'merge': 3, 'default': 2},
    'p_foreach': 0.18, 'p_while': 0.12, 'p_retry': 0.15, 'p_run': 0.15, 'p_skip': 0.10,
    'p_swallow': 0.20, 'p_onerror': 0.10, 'p_simple': 0.04, 'p_cached': 0.05,
    'n_groups': (1, 5), 'n_steps': (1, 5), 'n_pipes': (1, 3),
    'p_handlers': 0.5, 'p_api_groups': 0.35, 'p_fail_when': 0.6, 'p_empty_foreach_literal': 0.0,
    'p_fmt_groupname': 0.2, 'p_clear_counters': 0.3, 'p_parser': 0.15,
}

ERRS = ['ValueError', 'RuntimeError', 'TypeError', 'ZeroDivisionError', 'vfail.CustomError',
        'pypyr.errors.ContextError', 'vfail.InnerError',
        'pypyr.errors.MultiError']      # without child errors its instances are FALSY (len 0)
HALF = {'f': [1, 2]}
DICT_IN_KEYS = ['flag', 'nflag', 'sflag', 'n', 'lst', 'empty', 'cnt', 'grp', 'word', 'tup']


def merged(profile):
    p = dict(DEFAULT)
    for k, v in (profile or {}).items():
        if k == 'bodies':
            b = dict(DEFAULT['bodies'])
            b.update(v)
            p['bodies'] = b
        else:
            p[k] = v
    return p


def weighted(rng, weights):
    items = [(k, w) for k, w in weights.items() if w > 0]
    tot = sum(w for _, w in items)
    x = rng.random() * tot
    for k, w in items:
        x -= w
        if x <= 0:
            return k
    return items[-1][0]


def py(e):
    return {'py': e}


def name(x):
    return ['name', x]


def gen_bool_expr(rng, in_loops):
    """A decorator value that should resolve to a truth value, possibly changing per iteration."""
    r = rng.random()
    if r < 0.22:
        return rng.choice([True, False])
    if r < 0.40:
        return rng.choice(['true', 'True', 'TRUE', 'false', '1', '0', '1.0', '1.00', 'yes', '', ' 1', 'tRuE', 'None',
                           'true\n', '1\n', '1.0\n', 'TRUE\n', 'true\n\n', 'true ', '\ttrue', 'true\r\n', '{nl}', '{nl}'])
    if r < 0.52:
        return rng.choice(['{flag}', '{nflag}', '{sflag}', '{n}', '{empty}', 'x{flag}', '{word}', '{flag}', '{nflag}',
                           '{missing_key}', '{byt}', '{ebyt}'])
    if r < 0.58:
        return rng.choice([0, 1, 2, None, HALF, {'l': []}, {'l': [0]}, {'d': []}])
    # !py expressions
    opts = [
        ['cmp', 'lt', name('cnt'), ['int', rng.choice([1, 2, 3])]],
        ['cmp', 'ge', name('cnt'), ['int', rng.choice([1, 2])]],
        name('flag'), ['not', name('flag')], name('sflag'), ['str', 'false'], ['str', ''],
        ['cmp', 'eq', name('word'), ['str', 'abc']],
        ['and', name('flag'), ['cmp', 'lt', name('cnt'), ['int', 2]]],
        ['or', name('nflag'), ['cmp', 'gt', ['len', name('lst')], ['int', 1]]],
        ['in', ['int', 2], name('lst')],
    ]
    if 'foreach' in in_loops:
        opts += [['cmp', 'ne', name('i'), ['str', 'b']], ['cmp', 'eq', name('i'), ['int', 2]],
                 ['cmp', 'ne', name('i'), ['int', 1]]]
    if 'while' in in_loops:
        opts += [['cmp', 'lt', name('whileCounter'), ['int', 2]], ['cmp', 'ne', name('whileCounter'), ['int', 2]]]
    if 'retry' in in_loops:
        opts += [['cmp', 'lt', name('retryCounter'), ['int', 2]]]
    if rng.random() < 0.03:
        # an assignment expression binding the name of a context key: the binding lives for that one
        # evaluation only (the Coq model is silent on these: the reference interpreter is the oracle)
        k, v = rng.choice([('cnt', ['int', 5]), ('cnt', ['int', 0]), ('flag', ['bool', False]), ('flag', ['bool', True]),
                           ('word', ['str', 'abc']), ('n', ['int', 9])])
        return py(rng.choice([['cmp', 'eq', ['walrus', k, v], v], ['cmp', 'ne', ['walrus', k, v], v],
                              ['or', ['cmp', 'eq', ['walrus', k, v], ['none']], rng.choice(opts)]]))
    return py(rng.choice(opts))


def gen_foreach(rng, p):
    r = rng.random()
    if r < p['p_empty_foreach_literal']:
        return rng.choice([{'l': []}, ''])
    if r < 0.35:
        return {'l': rng.choice([[1, 2], ['a', 'b'], ['a', 'b', 'c'], [1], [None, 0], [{'l': [1, 2]}, 'x'], [True, 'b', 3]])}
    if r < 0.55:
        return rng.choice(['{lst}', '{empty}', '{tup}'])
    if r < 0.75:
        v = py(rng.choice([name('lst'), name('empty'), ['list', [['int', 1], name('n')]],
                           ['tuple', [['str', 'a'], ['str', 'b']]], name('tup'),
                           ['add', name('lst'), ['list', [['int', 9]]]]]))
        if rng.random() < 0.3:
            v['iter'] = True      # written iter(<expr>): a one-shot iterator, consumed once by the loop
        return v
    if r < 0.85:
        return {'d': [['k1', 1], ['k2', 2]]}
    if r < 0.88:
        return rng.choice([3, '{n}'])           # not iterable -> TypeError
    return {'l': ['{word}', '{n}', 'lit']}       # items are formatted with the list


def gen_while(rng, safe=True):
    """safe = the body cannot touch whileCounter, so a counter-based stop without max terminates."""
    w = {}
    r = rng.random()
    if r < 0.75 or not safe:
        w['max'] = rng.choice([1, 2, 3, 3, 4, 0, -1, '{n}', '2', py(['add', name('n'), ['int', 1]])])
    if 'max' not in w or rng.random() < 0.55:
        w['stop'] = rng.choice([py(['cmp', 'ge', name('cnt'), ['int', rng.choice([1, 2, 3])]]),
                                py(['cmp', 'ge', name('whileCounter'), ['int', rng.choice([1, 2, 3])]]),
                                '{sflag}', '{flag}', True, False, 'false',
                                py(['cmp', 'eq', name('whileCounter'), ['int', 2]])])
    if 'max' not in w:
        # stop must become true: only counters guarantee it
        w['stop'] = py(['cmp', 'ge', name('whileCounter'), ['int', rng.choice([1, 2, 3])]])
    if rng.random() < 0.5:
        w['sleep'] = rng.choice([0, 1, HALF, 2, '{n}'])
    if rng.random() < 0.4:
        w['errorOnMax'] = rng.choice([True, False, 'true', '{flag}', py(name('flag'))])
    return w


def gen_retry(rng):
    r = {'max': rng.choice([1, 2, 3, 3, 4, '{n}', '3'])}
    x = rng.random()
    if x < 0.3:
        r['sleep'] = rng.choice([0, 1, HALF, 2])
    elif x < 0.45:
        r['sleep'] = {'l': rng.choice([[1, 2], [HALF, 1, 2], [2], [0, HALF]])}
    elif x < 0.55:
        r['sleep'] = '{n}'
    if rng.random() < 0.5:
        r['backoff'] = rng.choice(['fixed', 'jitter', 'linear', 'linearjitter', 'exponential',
                                   'exponentialjitter', '{bo}'])
        if isinstance(r.get('sleep'), dict) and 'l' in r['sleep'] and r['backoff'] not in ('fixed', 'jitter'):
            r['backoff'] = rng.choice(['fixed', 'jitter'])
    if rng.random() < 0.35:
        r['jrc'] = rng.choice([0, HALF, {'f': [1, 4]}, 1])
    if rng.random() < 0.35:
        r['sleepMax'] = rng.choice([1, 2, 3, HALF, 0, {'f': [5, 2]}])
    if rng.random() < 0.25:
        r['backoffArgs'] = {'d': [['base', rng.choice([2, 3, {'f': [3, 2]}])]]}
    if rng.random() < 0.12:
        # cap stress: the jitter range must be taken from the CAPPED duration
        r = {'max': rng.choice([3, 4, 5, 6]), 'sleep': rng.choice([2, 3, {'f': [3, 2]}]),
             'backoff': rng.choice(['linearjitter', 'exponentialjitter', 'jitter', 'linear', 'exponential']),
             'jrc': rng.choice([{'f': [3, 4]}, {'f': [7, 8]}, HALF, 1]),   # dyadic: exact in binary floating point
             'sleepMax': rng.choice([1, 2, {'f': [5, 2]}, 4])}
    if rng.random() < 0.08:
        # a DECAYING exponential schedule (base < 1) under a cap: the cap applies to each duration, the
        # schedule comes back under it
        r = {'max': rng.choice([4, 5, 6]), 'sleep': rng.choice([8, 4, 16]),
             'backoff': rng.choice(['exponential', 'exponential', 'exponentialjitter']),
             'sleepMax': rng.choice([3, 2, {'f': [5, 2]}]),
             'backoffArgs': {'d': [['base', rng.choice([HALF, {'f': [1, 4]}])]]}}
        if r['backoff'] == 'exponentialjitter':
            r['jrc'] = rng.choice([HALF, 1])
    if rng.random() < 0.25:
        r['stopOn'] = {'l': rng.sample(ERRS, rng.randrange(1, 3))}
    if rng.random() < 0.25:
        r['retryOn'] = {'l': rng.sample(ERRS, rng.randrange(1, 4))}
    return r


def later(rng, names, k=1):
    if not names:
        return None
    return [rng.choice(names) for _ in range(k)]


def gen_cof_config(rng, targets, handlers, p):
    """config for call/jump: str | list | dict with groups/success/failure."""
    r = rng.random()
    g = later(rng, targets, rng.choice([1, 1, 2]))
    if rng.random() < p['p_fmt_groupname']:
        g = ['{grp}'] + g[1:]
    if r < 0.4:
        return g[0]
    if r < 0.6:
        return {'l': g}
    d = [['groups', {'l': g} if rng.random() < 0.7 else g[0]]]
    if handlers and rng.random() < 0.6:
        d.append(['success', rng.choice(handlers)])
    if handlers and rng.random() < 0.6:
        d.append(['failure', rng.choice(handlers)])
    return {'d': d}


def gen_step(rng, p, pipe, group, idx, targets, handlers, later_pipes, depth_tag=''):
    tag = f'{pipe}/{group}/{idx}'
    body = weighted(rng, p['bodies'])
    if body in ('call', 'jump', 'switch') and not targets:
        body = 'probe'
    if body == 'pype' and not later_pipes:
        body = 'probe'
    if body in ('stop', 'stoppipeline', 'stopstepgroup') and rng.random() < p['p_simple'] * 4:
        return {'body': body, 'simple': True}
    if body == 'probe' and rng.random() < p['p_simple']:
        return {'body': body, 'simple': True}
    st = {'body': body}
    loops = []
    if rng.random() < p['p_while']:
        st['while'] = gen_while(rng, safe=body in ('probe', 'fail', 'incr'))
        loops.append('while')
    if rng.random() < p['p_foreach']:
        st['foreach'] = gen_foreach(rng, p)
        loops.append('foreach')
    if rng.random() < p['p_retry']:
        st['retry'] = gen_retry(rng)
        if body in ('stop', 'stoppipeline', 'stopstepgroup') and rng.random() < 0.6:
            # an unbounded retry: safe here, the body can only issue its instruction (never retried)
            st['retry'] = {k: v for k, v in st['retry'].items() if k != 'max'}
            st['retry'].setdefault('sleep', 0)
        loops.append('retry')
    if rng.random() < p['p_run']:
        st['run'] = gen_bool_expr(rng, loops)
    if rng.random() < p['p_skip']:
        st['skip'] = gen_bool_expr(rng, loops)
    if rng.random() < p['p_swallow']:
        st['swallow'] = gen_bool_expr(rng, loops) if rng.random() < 0.5 else True
    strs = [k for k in ('run', 'skip', 'swallow') if isinstance(st.get(k), str) and st[k].strip() == st[k] != ''
            and '\n' not in st[k]]
    if strs and rng.random() < 0.3:
        # the same text written as an anchored scalar or a literal block scalar: the round-trip yaml
        # loader then hands over a str SUBCLASS, which is a string like any other to the decorators
        st['ystyle'] = {k: rng.choice(['anchor', 'block']) for k in strs}
    if rng.random() < p['p_onerror']:
        st['onError'] = rng.choice(['custom {n}', {'d': [['code', 7], ['at', '{word}']]}, 'plain', '{word}',
                                    {'l': ['{n}', 1]}, '{missing_key}' if rng.random() < 0.4 else 'x', 0, ''])
        live = [{'foreach': 'i', 'while': 'whileCounter', 'retry': 'retryCounter'}[lp] for lp in loops] + ['cnt']
        if rng.random() < 0.5:
            k = rng.choice(live)
            st['onError'] = rng.choice(['at {%s}' % k, {'d': [['item', '{%s}' % k], ['n', '{n}']]},
                                        {'l': ['{%s}' % k, 'braces {{kept}}']}])
    if rng.random() < 0.12:
        # a plain-text description: only logged, must change nothing
        st['description'] = rng.choice(['does a thing', 'step of ' + group, 'note: 100%', 'about {word}', 'n is {n}',
                                        '{missing_key}' if rng.random() < 0.3 else 'plain', ''])
    inn = [['ptag', tag]]
    if rng.random() < 0.5:
        inn.append(['pwatch', {'l': rng.sample(['cnt', 'flag', 'arg1', 'call', 'out1', 'i', 'set', 'word', 'shared'],
                                              rng.randrange(1, 4))}])
    if rng.random() < 0.3:
        inn.append(['arg1', rng.choice(['v', 1, '{word}', None, {'l': [1]}])])
    if rng.random() < 0.1:
        inn.append([rng.choice(['cnt', 'flag', 'word']), rng.choice([5, True, 'over'])])   # overrides
    elif rng.random() < 0.06:
        # an in-argument EQUAL to the context value of that name but of another type (1 == True,
        # 0 == False): it still overrides — the body and the decorators see the argument
        k, v = rng.choice([('n', True), ('flag', 0), ('flag', 1), ('cnt', False), ('nflag', 0), ('nflag', 1)])
        inn.append([k, v])
        if body == 'probe':
            inn[:] = [x for x in inn if x[0] != 'pwatch'] + [['pwatch', {'l': [k, 'word']}]]
    if body == 'fail':
        cfg = [['err', rng.choice(ERRS)],
               ['msg', rng.choice(['boom', 'failed at {ptag}', 'i={i}' if 'foreach' in loops else 'n={n}', 'x', '',
                                   'payload {{n}}' if rng.random() < 0.7 else 'lone {{ brace'])]]
        if cfg[0][1] == 'pypyr.errors.MultiError' and cfg[1][1] == '':
            cfg[1][1] = 'boom'       # MultiError prints a stock text for an empty message: not the step's doing
        if rng.random() < p['p_fail_when']:
            conds = [['cmp', 'lt', name('cnt'), ['int', rng.choice([1, 2])]], name('flag'), ['not', name('flag')]]
            if 'retry' in loops:
                conds += [['cmp', 'lt', name('retryCounter'), ['int', rng.choice([2, 3])]]] * 4
            if 'foreach' in loops:
                conds += [['cmp', 'eq', name('i'), ['str', 'b']], ['cmp', 'eq', name('i'), ['int', 2]]] * 2
            if 'while' in loops:
                conds += [['cmp', 'eq', name('whileCounter'), ['int', 2]]] * 2
            cfg.append(['when', py(rng.choice(conds))])
        if 'retry' in loops and rng.random() < 0.25:
            # raised `from` another error: filters, names and records go by the error itself
            cfg.append(['cause', rng.choice(['KeyError', 'ValueError', 'vfail.CustomError', 'RuntimeError',
                                             'pypyr.errors.ContextError'])])
        if rng.random() < p['p_cached']:
            # a step that raises ONE pre-built exception object again at every failure
            k = rng.choice([0, 0, 1])
            cfg[0], cfg[1] = [['err', 'RuntimeError'], ['msg', 'the thing is down']] if k == 0 else \
                [['err', 'vfail.CustomError'], ['msg', 'cached {n}']]
            cfg.append(['cached', k])
        inn.append(['vfail', {'d': cfg}])
    elif body == 'incr':
        inn.append(['vincr', rng.choice(['cnt', 'cnt', 'other', 'n'])])
    elif body == 'set':
        inn.append(['set', {'d': rng.choice([
            [['word', 'changed']], [['flag', False]], [['flag', True], ['sflag', 'true']],
            [['cnt', py(['add', name('cnt'), ['int', 1]])]], [['out1', 'from {ptag}']],
            [['{word}', 1]], [['lst', {'l': [7, '{n}']}]],
            [['a1', 1], ['a2', '{a1}']]])}])
    elif body in ('merge', 'default'):
        payload = rng.choice([
            [['word', 'merged {n}']], [['mlist', {'l': [9, '{word}']}]], [['cnt', 7]], [['newkey', {'d': [['a', 1], ['b', '{word}']]}]],
            [['nested', {'d': [['x', {'l': [1]}]]}], ['nested2', {'d': []}]], [['{word}', 'dyn']], [['flag', None]],
            [['tup', 'str-over-tuple']], [['missing', '{nokey}']]])
        inn.append(['contextMerge' if body == 'merge' else 'defaults', {'d': payload}])
    elif body == 'clear':
        ks = rng.sample(['i', 'whileCounter', 'retryCounter', 'call', 'switch', 'cnt', 'word', 'jump', 'arg1'],
                        rng.randrange(1, 4)) if rng.random() < p['p_clear_counters'] + 0.5 else ['word']
        inn.append(['contextClear', {'l': ks}])
    elif body in ('call', 'jump'):
        inn.append([body, gen_cof_config(rng, targets, handlers, p)])
    elif body == 'switch':
        cases = []
        for _ in range(rng.randrange(1, 4)):
            cases.append({'d': [['case', gen_bool_expr(rng, loops)],
                                ['call', gen_cof_config(rng, targets, handlers, p)]]})
        if rng.random() < 0.3:
            # a case that cannot be evaluated: harmless when an earlier case already matched
            cases.insert(rng.randrange(1, len(cases) + 1),
                         {'d': [['case', rng.choice(['{nokey}', '{lst[9]}', py(['cmp', 'eq', name('undefined_name'), ['int', 1]])])],
                                ['call', gen_cof_config(rng, targets, handlers, p)]]})
        if rng.random() < 0.5:
            cases.append({'d': [['default', gen_cof_config(rng, targets, handlers, p)]]})
        inn.append(['switch', {'l': cases}])
    elif body == 'pype':
        child = rng.choice(later_pipes)
        cfg = [['name', child]]
        r = rng.random()
        if r < 0.45:
            cfg.append(['args', {'d': rng.choice([[['cnt', 0]], [['flag', True], ['word', 'child {word}']],
                                                  [['shared', '{cnt}']], [],
                                                  [['lst', {'l': [8]}], ['mlist', {'l': [5, 6]}], ['cnt', 0]],
                                                  [['lst', {'l': [8, 9]}], ['mlist', {'l': ['c1']}]]])}])
        if rng.random() < 0.3:
            cfg.append(['useParentContext', rng.choice([True, False])])
        if rng.random() < 0.4:
            cfg.append(['out', rng.choice(['cnt', {'l': ['cnt', 'word']}, {'d': [['out1', 'cnt'], ['out2', 'word']]},
                                           'nokey', {'l': []}, 'lst', {'l': ['lst', 'mlist']}, {'d': [['mlist', 'lst']]},
                                           'mlist'])])
        if rng.random() < 0.3:
            cfg.append(['raiseError', rng.choice([True, False])])
        if rng.random() < 0.3:
            cfg.append(['pipeArg', rng.choice(['fail', 'fail now', 'a b', 'none', 'x', 'k=v w'])])
            if rng.random() < 0.3:
                cfg.append(['skipParse', rng.choice([True, False])])
        elif rng.random() < 0.1:
            cfg.append(['skipParse', False])
        if rng.random() < 0.25:
            cfg.append(['groups', rng.choice(['steps', {'l': ['steps', 'g1']}, 'g1'])])
            if rng.random() < 0.5:
                cfg.append(['success', 'on_success'])
            if rng.random() < 0.5:
                cfg.append(['failure', rng.choice(['on_failure', 'fh'])])
        inn.append(['pype', {'d': cfg}])
    if body == 'clearall' and rng.random() < 0.5:
        pass
    st['in'] = inn
    return st


def gen_pipeline(rng, p, pname, later_pipes):
    n_groups = rng.randrange(p['n_groups'][0], p['n_groups'][1] + 1)
    order = ['steps'] + [f'g{i}' for i in range(1, n_groups)]
    handlers = []
    if rng.random() < p['p_handlers']:
        handlers = rng.sample(['on_success', 'on_failure', 'sh', 'fh'], rng.randrange(1, 4))
    handlers = [h for h in ['on_success', 'on_failure', 'sh', 'fh'] if h in handlers]   # fixed global order
    all_groups = order + handlers + ['gz']      # gz: terminal group, the only target of '{grp}'
    groups = []
    for gi, g in enumerate(all_groups):
        targets = all_groups[gi + 1:]
        hs = [h for h in handlers if h in targets]
        n_steps = rng.randrange(p['n_steps'][0], p['n_steps'][1] + 1)
        if g in handlers:
            n_steps = rng.randrange(1, 4)
        if rng.random() < 0.03:
            groups.append([g, None if rng.random() < 0.5 else []])
            continue
        if g == 'gz':
            groups.append([g, [{'body': 'probe', 'in': [['ptag', f'{pname}/gz/0']]}]])
            continue
        steps = [gen_step(rng, p, pname, g, i, targets, hs, later_pipes) for i in range(n_steps)]
        groups.append([g, steps])
    if rng.random() < p['p_parser']:
        groups.insert(0, ['context_parser', None])
    return groups, order, handlers


def gen_case(rng, profile=None):
    p = merged(profile)
    n_pipes = rng.randrange(p['n_pipes'][0], p['n_pipes'][1] + 1)
    names = ['main'] + [f'child{i}' for i in range(1, n_pipes)]
    lib = []
    main_order, main_handlers = None, None
    for i, pn in enumerate(names):
        groups, order, handlers = gen_pipeline(rng, p, pn, names[i + 1:])
        lib.append([pn, groups])
        if i == 0:
            main_order, main_handlers = order, handlers
    dict_in = [['flag', rng.choice([True, False])], ['nflag', rng.choice([True, False])],
               ['sflag', rng.choice(['true', 'false', 'True', '0', '1'])], ['n', rng.choice([1, 2, 3])],
               ['lst', {'l': rng.choice([[1, 2], ['a', 'b'], [2, 'b', 3], []])}], ['empty', {'l': []}],
               ['cnt', 0], ['grp', 'nogroup' if rng.random() < 0.07 else 'gz'],
               ['word', rng.choice(['abc', 'x y', 'true'])], ['tup', {'t': ['t1', 't2']}],
               ['bo', rng.choice(['fixed', 'linear'])], ['mlist', {'l': [0]}],
               ['nl', rng.choice(['true\n', '1\n', 'True\n', '1.0\n', 'false\n'])],
               ['byt', {'b': rng.choice(['raw', 'true', '0', 'False'])}], ['ebyt', {'b': ''}]]
    case = {'lib': lib, 'main': 'main', 'dict_in': dict_in, 'jit': rng.choice([[1, 4], [0, 1], [1, 1], [1, 2]])}
    if rng.random() < 0.06:
        case['flow'] = True         # the pipeline file written on one line, flow style
    if rng.random() < 0.1:
        case['debuglog'] = True     # run with every log level enabled (handlers discard the records)
    if rng.random() < 0.04:
        case['dict_in'] = None
    if rng.random() < 0.12:
        case['args_in'] = rng.choice([['fail'], ['a', 'b'], ['none'], [], ['x=1', 'fail']])
    if rng.random() < p['p_api_groups']:
        k = rng.randrange(1, min(3, len(main_order)) + 1)
        case['groups'] = rng.sample(main_order, k) if rng.random() < 0.7 else [rng.choice(main_order + ['absent'])]
        if rng.random() < 0.5 and main_handlers:
            case['success'] = rng.choice(main_handlers)
        if rng.random() < 0.5 and main_handlers:
            case['failure'] = rng.choice(main_handlers)
    elif rng.random() < 0.1 and main_handlers:
        # partially given: only a handler, groups defaulted
        case[rng.choice(['success', 'failure'])] = rng.choice(main_handlers)
    if rng.random() < 0.04:
        # an EMPTY groups list (as `pypyr pipe --groups` gives): everything is defaulted, handlers too
        case['groups'] = []
        if rng.random() < 0.7:
            case.pop('success', None)
            case.pop('failure', None)
    return case


def main_parser_failure(rng, case):
    """the top-level pipeline's context parser fails (mostly); its failure handler is a full group
    with a control-of-flow step in the middle (call / jump / switch / stops / failing step)."""
    groups = case['lib'][0][1]
    if not any(g == 'context_parser' for g, _ in groups):
        groups.insert(0, ['context_parser', None])
    hname = case.get('failure') or 'on_failure'
    handler = [{'body': 'probe', 'in': [['ptag', f'main/{hname}/0']]}]
    kind = rng.choice(['call', 'call', 'jump', 'switch', 'stoppipeline', 'stopstepgroup', 'stop', 'fail', 'probe'])
    tag = ['ptag', f'main/{hname}/1']
    if kind == 'call':
        handler.append({'body': 'call', 'in': [tag, ['call', rng.choice(['gz', '{grp}', {'d': [['groups', {'l': ['gz']}]]}])]]})
    elif kind == 'jump':
        handler.append({'body': 'jump', 'in': [tag, ['jump', 'gz']]})
    elif kind == 'switch':
        handler.append({'body': 'switch', 'in': [tag, ['switch', {'l': [{'d': [['case', '{flag}'], ['call', 'gz']]},
                                                                        {'d': [['default', 'gz']]}]}]]})
    elif kind == 'fail':
        handler.append({'body': 'fail', 'in': [tag, ['vfail', {'d': [['err', 'RuntimeError'], ['msg', 'handler']]}]]})
    elif kind != 'probe':
        handler.append({'body': kind, 'in': [tag]})
    handler.append({'body': 'probe', 'in': [['ptag', f'main/{hname}/2']]})
    if not any(g == hname for g, _ in groups):
        groups.append([hname, handler])
    else:
        for gs in groups:
            if gs[0] == hname:
                gs[1] = handler
    if not any(g == 'gz' for g, _ in groups):
        groups.append(['gz', [{'body': 'probe', 'in': [['ptag', 'main/gz/0']]}]])
    groups.sort(key=lambda gs: gs[0] == 'gz')
    case['args_in'] = rng.choice([['fail'], ['fail', 'x'], ['fail'], ['ok']])
    return case


def shared_failure_handler(rng, case):
    """several failures routed to the SAME call-level failure group, which ends quietly
    (stopstepgroup), fails itself, or just completes: every routing must run it again."""
    groups = case['lib'][0][1]
    keep = [gs for gs in groups if gs[0] not in ('steps', 'shf', 'shg', 'gz')]
    end = rng.choice(['stopstepgroup', 'stopstepgroup', 'probe', 'fail'])
    handler = [{'body': 'probe', 'in': [['ptag', 'main/shf/0']]}]
    if end == 'fail':
        handler.append({'body': 'fail', 'in': [['ptag', 'main/shf/1'], ['vfail', {'d': [['err', 'RuntimeError'], ['msg', 'handler']]}]]})
    elif end == 'stopstepgroup':
        handler.append({'body': 'stopstepgroup', 'in': [['ptag', 'main/shf/1']]})
    failing = [{'body': 'probe', 'in': [['ptag', 'main/shg/0']]},
               {'body': 'fail', 'in': [['ptag', 'main/shg/1'], ['vfail', {'d': [['err', 'ValueError'], ['msg', 'boom']]}]]}]
    cfg = {'d': [['groups', {'l': ['shg']}], ['failure', 'shf']]}
    callstep = {'body': 'call', 'in': [['ptag', 'main/steps/0'], ['call', cfg]]}
    shape = rng.choice(['foreach', 'two', 'while', 'retry'])
    steps = [callstep]
    if shape == 'foreach':
        callstep['foreach'] = {'l': [1, 2, 3]}
    elif shape == 'while':
        callstep['while'] = {'max': 3}
    elif shape == 'retry':
        callstep['retry'] = {'max': 3}
    else:
        steps.append({'body': 'call', 'in': [['ptag', 'main/steps/1'], ['call', cfg]]})
    if rng.random() < 0.5:
        callstep['swallow'] = True
    steps.append({'body': 'probe', 'in': [['ptag', 'main/steps/after']]})
    case['lib'][0][1] = [['steps', steps]] + keep + [['shg', failing], ['shf', handler],
                                                    ['gz', [{'body': 'probe', 'in': [['ptag', 'main/gz/0']]}]]]
    case.pop('groups', None)
    return case


def recursive_call(rng, case):
    """a group that calls ITSELF from a looping step, to a fixed depth (a depth counter goes up on entry
    and down on exit, so every iteration of every level recurses again): every activation of the
    calling step keeps its own loop counters, restored when the nested call returns."""
    groups = [gs for gs in case['lib'][0][1] if gs[0] not in ('steps', 'rec', 'gz')]
    depth = rng.choice([2, 3, 3])
    loop = rng.choice(['foreach+while', 'foreach+while', 'foreach+retry', 'while', 'foreach'])
    rcall = {'body': 'call', 'in': [['ptag', 'main/rec/2'], ['call', 'rec']],
             'run': py(['cmp', 'lt', name('cnt'), ['int', depth]])}
    if 'foreach' in loop:
        rcall['foreach'] = {'l': rng.choice([['x', 'y'], [1, 2]])}
    if 'while' in loop:
        rcall['while'] = {'max': 2}
    if 'retry' in loop:
        rcall['retry'] = {'max': 2}
    rec = [{'body': 'set', 'in': [['ptag', 'main/rec/0'], ['set', {'d': [['cnt', py(['add', name('cnt'), ['int', 1]])]]}]]},
           {'body': 'probe', 'in': [['ptag', 'main/rec/1'], ['pwatch', {'l': ['cnt']}]]},
           rcall,
           {'body': 'set', 'in': [['ptag', 'main/rec/3'], ['set', {'d': [['cnt', py(['sub', name('cnt'), ['int', 1]])]]}]]}]
    top = {'body': 'call', 'in': [['ptag', 'main/steps/0'], ['call', 'rec']]}
    case['lib'][0][1] = [['steps', [top, {'body': 'probe', 'in': [['ptag', 'main/steps/after'],
                                                               ['pwatch', {'l': ['cnt', 'i']}]]}]]] + groups + \
        [['rec', rec], ['gz', [{'body': 'probe', 'in': [['ptag', 'main/gz/0']]}]]]
    case.pop('groups', None)
    return case


def falsy_item_call(rng, case):
    """a foreach over items that are falsy (0, '', False, None) whose body calls a group running its
    own foreach: the caller's current item is put back when the call returns, whatever its value."""
    groups = [gs for gs in case['lib'][0][1] if gs[0] not in ('steps', 'fic', 'gz')]
    items = rng.choice([[0, 1], [1, 0], ['', 'a'], [False, True], [None, 0], [0], [0, None], [None], ['a', None]])
    callee = [{'body': 'probe', 'in': [['ptag', 'main/fic/0'], ['pwatch', {'l': ['i']}]]},
              {'body': 'probe', 'in': [['ptag', 'main/fic/1']], 'foreach': {'l': ['p', 'q']}}]
    callstep = {'body': 'call', 'in': [['ptag', 'main/steps/0'], ['call', 'fic']], 'foreach': {'l': items}}
    shape = rng.choice(['plain', 'retry', 'while'])
    if shape == 'retry':
        callee.append({'body': 'fail', 'in': [['ptag', 'main/fic/2'],
                                             ['vfail', {'d': [['err', 'ValueError'], ['msg', 'again'],
                                                              ['when', py(['cmp', 'lt', name('retryCounter'), ['int', 2]])]]}]]})
        callstep['retry'] = {'max': 3}
    elif shape == 'while':
        callstep['while'] = {'max': 2}
    case['lib'][0][1] = [['steps', [callstep, {'body': 'probe', 'in': [['ptag', 'main/steps/after'],
                                                                    ['pwatch', {'l': ['i']}]]}]]] + groups + \
        [['fic', callee], ['gz', [{'body': 'probe', 'in': [['ptag', 'main/gz/0']]}]]]
    case.pop('groups', None)
    return case


def handler_jumps(rng, case):
    """a failure handler (of the pipeline, or of a call) that JUMPS to another group which then stops /
    fails / completes: only a stop issued by the failure group itself ends the failure quietly."""
    groups = [gs for gs in case['lib'][0][1] if gs[0] not in ('steps', 'hj', 'hjt', 'hjb', 'gz', 'on_failure')]
    end = rng.choice(['stopstepgroup', 'stopstepgroup', 'stop', 'stoppipeline', 'probe', 'fail'])
    target = [{'body': 'probe', 'in': [['ptag', 'main/hjt/0']]}]
    if end == 'fail':
        target.append({'body': 'fail', 'in': [['ptag', 'main/hjt/1'], ['vfail', {'d': [['err', 'RuntimeError'], ['msg', 'in target']]}]]})
    elif end != 'probe':
        target.append({'body': end, 'in': [['ptag', 'main/hjt/1']]})
    target.append({'body': 'probe', 'in': [['ptag', 'main/hjt/2']]})
    handler = [{'body': 'probe', 'in': [['ptag', 'main/hj/0']]},
               {'body': 'jump', 'in': [['ptag', 'main/hj/1'], ['jump', rng.choice(['hjt', {'l': ['hjt']}, {'d': [['groups', {'l': ['hjt']}]]},
                                                                             {'l': ['hjt', 'gz']}, {'l': ['hjt', 'gz']},
                                                                             {'d': [['groups', {'l': ['hjt', 'gz']}]]}])]]},
               {'body': 'probe', 'in': [['ptag', 'main/hj/2']]}]
    failing = [{'body': 'probe', 'in': [['ptag', 'main/hjb/0']]},
               {'body': 'fail', 'in': [['ptag', 'main/hjb/1'], ['vfail', {'d': [['err', 'ValueError'], ['msg', 'boom']]}]]}]
    after = {'body': 'probe', 'in': [['ptag', 'main/steps/after']]}
    if rng.random() < 0.5:
        # pipeline-level: the failing step is in steps, on_failure is the jumping handler
        steps = [failing[1], after]
        extra = [['on_failure', handler]]
        case.pop('failure', None)
    else:
        cfg = {'d': [['groups', {'l': ['hjb']}], ['failure', 'hj']]}
        callstep = {'body': 'call', 'in': [['ptag', 'main/steps/0'], ['call', cfg]]}
        if rng.random() < 0.4:
            callstep['swallow'] = True
        steps = [callstep, after]
        extra = [['hjb', failing], ['hj', handler]]
    case['lib'][0][1] = [['steps', steps]] + groups + extra + [['hjt', target],
                                                              ['gz', [{'body': 'probe', 'in': [['ptag', 'main/gz/0']]}]]]
    case.pop('groups', None)
    return case


def pype_out_containers(rng, case):
    """a child with its own context hands CONTAINERS back through `out` into parent keys that already
    hold containers: the parent's value is replaced by the child's, never combined with it."""
    if len(case['lib']) < 2 or case.get('dict_in') is None:
        return case
    child = case['lib'][1][0]
    args = rng.choice([[['lst', {'l': [8]}], ['mlist', {'l': [5, 6]}], ['cnt', 0]],
                       [['lst', {'l': []}], ['mlist', {'l': ['c1']}], ['newd', {'d': [['k', 1]]}]],
                       [['lst', {'l': [1, 2]}], ['mlist', {'l': [0]}]]])
    out = rng.choice(['lst', {'l': ['lst', 'mlist']}, {'d': [['mlist', 'lst']]}, {'d': [['lst', 'mlist'], ['fresh', 'lst']]},
                      'newd'])
    cfg = [['name', child], ['args', {'d': args}], ['out', out]]
    if rng.random() < 0.3:
        cfg.append(['useParentContext', False])
    first = {'body': 'pype', 'in': [['ptag', 'main/steps/0'], ['pype', {'d': cfg}]]}
    if rng.random() < 0.3:
        first['foreach'] = {'l': [1, 2]}
    watch = {'body': 'probe', 'in': [['ptag', 'main/steps/w'], ['pwatch', {'l': ['lst', 'mlist', 'fresh', 'newd']}]]}
    # the child: something simple that completes (optionally growing its own list first)
    cg = [{'body': 'probe', 'in': [['ptag', f'{child}/steps/0'], ['pwatch', {'l': ['lst']}]]}]
    if rng.random() < 0.5:
        cg.append({'body': 'set', 'in': [['ptag', f'{child}/steps/1'], ['set', {'d': [['lst', {'l': [7, 'x']}]]}]]})
    case['lib'][1][1] = [['steps', cg], ['gz', [{'body': 'probe', 'in': [['ptag', f'{child}/gz/0']]}]]]
    for g in case['lib'][0][1]:
        if g[0] == 'steps':
            g[1] = [first, watch] + (g[1] or [])
            break
    else:
        case['lib'][0][1].insert(0, ['steps', [first, watch]])
    return case


def retry_in_loop(rng, case):
    """a retried step inside foreach / while that fails in several iterations: every iteration starts
    its own retry loop, with the back-off schedule from the start and sleep read at that moment."""
    kind = rng.choice(['list', 'expr', 'linear', 'list'])
    retry = {'max': rng.choice([3, 4])}
    if kind == 'list':
        retry['sleep'] = {'l': rng.choice([[HALF, 1, 2], [1, 2], [0, HALF, 1]])}
        if rng.random() < 0.4:
            retry['backoff'] = rng.choice(['fixed', 'jitter'])
    elif kind == 'expr':
        retry['sleep'] = '{i}'
    else:
        retry.update({'sleep': 1, 'backoff': rng.choice(['linear', 'exponential'])})
    fails_until = rng.choice([2, 3])
    st = {'body': 'fail', 'retry': retry,
          'in': [['ptag', 'main/steps/0'],
                 ['vfail', {'d': [['err', 'ValueError'], ['msg', 'again'],
                                  ['when', py(['cmp', 'lt', name('retryCounter'), ['int', fails_until]])]]}]]}
    if rng.random() < 0.7:
        st['foreach'] = {'l': rng.choice([[1, 2, 3], [2, 1], [1, 1]])}
    else:
        st['while'] = {'max': 3}
        if kind == 'expr':
            retry['sleep'] = '{whileCounter}'
    for g in case['lib'][0][1]:
        if g[0] == 'steps':
            g[1] = [st] + (g[1] or [])
            break
    else:
        case['lib'][0][1].insert(0, ['steps', [st]])
    return case


def per_iteration_decorators(rng, case):
    """a failing step inside foreach / while whose swallow (run, skip) is an expression of the loop
    counter that flips between iterations: every iteration evaluates the decorator anew, so the
    iteration where swallow is false raises although earlier ones were swallowed."""
    loop = rng.choice(['foreach', 'foreach', 'while'])
    st = {'body': 'fail', 'in': [['ptag', 'main/steps/pid'],
                                 ['vfail', {'d': [['err', rng.choice(['ValueError', 'RuntimeError'])], ['msg', 'it {ptag}']]}]]}
    if loop == 'foreach':
        st['foreach'] = {'l': rng.choice([[1, 2, 3], [2, 1], [1, 1, 2], ['a', 'b']])}
        sw = rng.choice([py(['cmp', 'ne', name('i'), ['int', 2]]), py(['cmp', 'eq', name('i'), ['int', 1]]),
                         py(['cmp', 'ne', name('i'), ['str', 'b']]), py(['cmp', 'lt', name('i'), ['int', 3]]) if
                         st['foreach']['l'][0] != 'a' else py(['cmp', 'eq', name('i'), ['str', 'a']])])
    else:
        st['while'] = {'max': 3}
        sw = rng.choice([py(['cmp', 'lt', name('whileCounter'), ['int', 2]]), py(['cmp', 'ne', name('whileCounter'), ['int', 2]]),
                         py(['cmp', 'eq', name('whileCounter'), ['int', 1]])])
    st['swallow'] = sw
    r = rng.random()
    if r < 0.2:
        st['onError'] = 'at {ptag}'
    elif r < 0.35:
        st['run'] = sw if rng.random() < 0.5 else True
    for g in case['lib'][0][1]:
        if g[0] == 'steps':
            g[1] = [st] + (g[1] or [])
            break
    else:
        case['lib'][0][1].insert(0, ['steps', [st]])
    return case


def empty_foreach_call(rng, case):
    """a call / switch step carrying a literal EMPTY foreach (which pypyr treats as no foreach: the step
    runs once, finding F7): the called group runs, the caller resumes, no counter is touched."""
    groups = [gs for gs in case['lib'][0][1] if gs[0] not in ('steps', 'efc', 'gz')]
    fe = rng.choice([{'l': []}, {'l': []}, ''])
    if rng.random() < 0.6:
        st = {'body': 'call', 'foreach': fe, 'in': [['ptag', 'main/steps/0'], ['call', rng.choice(['efc', {'l': ['efc', 'gz']}])]]}
    else:
        st = {'body': 'switch', 'foreach': fe,
              'in': [['ptag', 'main/steps/0'], ['switch', {'l': [{'d': [['case', True], ['call', 'efc']]}]}]]}
    callee = [{'body': 'probe', 'in': [['ptag', 'main/efc/0'], ['pwatch', {'l': ['i', 'cnt']}]]}]
    if rng.random() < 0.3:
        callee.append({'body': 'fail', 'in': [['ptag', 'main/efc/1'], ['vfail', {'d': [['err', 'ValueError'], ['msg', 'in callee']]}]]})
    case['lib'][0][1] = [['steps', [st, {'body': 'probe', 'in': [['ptag', 'main/steps/after'], ['pwatch', {'l': ['i']}]]}]]] \
        + groups + [['efc', callee], ['gz', [{'body': 'probe', 'in': [['ptag', 'main/gz/0']]}]]]
    case.pop('groups', None)
    return case


def lazy_foreach(rng, case):
    """foreach over a GENERATOR expression whose filter reads a key the body changes: the items are
    pulled one at a time, each test made against the context as the previous iterations left it."""
    x = name('x')
    items = rng.choice([[1, 2, 3], [1, 2, 3, 4], [2, 1, 3]])
    cond = rng.choice([['cmp', 'gt', x, ['mul', name('cnt'), ['int', 2]]],
                       ['cmp', 'ne', x, ['add', name('cnt'), ['int', 1]]],
                       ['cmp', 'ge', x, ['add', name('cnt'), name('cnt')]]])
    st = {'body': 'incr', 'foreach': py(['genexp', x, 'x', ['list', [['int', v] for v in items]], cond]),
          'in': [['ptag', 'main/steps/lazy'], ['vincr', 'cnt']]}
    if rng.random() < 0.3:
        st['while'] = {'max': 2}
    probe = {'body': 'probe', 'in': [['ptag', 'main/steps/lazy-after'], ['pwatch', {'l': ['cnt', 'i']}]]}
    for g in case['lib'][0][1]:
        if g[0] == 'steps':
            g[1] = [st, probe] + (g[1] or [])
            break
    else:
        case['lib'][0][1].insert(0, ['steps', [st, probe]])
    return case


def ctx_config_call(rng, case):
    """call / switch configuration that lives in the context (set by an earlier step, not given through
    `in`): the callee removes or overwrites it; when the call returns the caller's configuration is the
    caller's again — also for a caller without any loop decorator."""
    groups = [gs for gs in case['lib'][0][1] if gs[0] not in ('steps', 'ccg', 'gz')]
    kind = rng.choice(['call', 'call', 'switch'])
    cfg = 'ccg' if kind == 'call' and rng.random() < 0.5 else \
        ({'d': [['groups', {'l': ['ccg']}]]} if kind == 'call' else
         {'l': [{'d': [['case', True], ['call', 'ccg']]}]})
    setcfg = {'body': 'set', 'in': [['ptag', 'main/steps/0'], ['set', {'d': [[kind, cfg]]}]]}
    caller = {'body': kind, 'in': [['ptag', 'main/steps/1']]}
    shape = rng.choice(['bare', 'bare', 'foreach', 'swallow'])
    if shape == 'foreach':
        caller['foreach'] = {'l': [1, 2]}
    elif shape == 'swallow':
        caller['swallow'] = True
    spoil = rng.choice(['clear', 'set', 'setdict'])
    callee = [{'body': 'probe', 'in': [['ptag', 'main/ccg/0'], ['pwatch', {'l': [kind]}]]}]
    if spoil == 'clear':
        callee.append({'body': 'clear', 'in': [['ptag', 'main/ccg/1'], ['contextClear', {'l': [kind]}]]})
    else:
        callee.append({'body': 'set', 'in': [['ptag', 'main/ccg/1'],
                                            ['set', {'d': [[kind, 'gz' if spoil == 'set' else {'d': [['groups', 'gz']]}]]}]]})
    after = {'body': 'probe', 'in': [['ptag', 'main/steps/2'], ['pwatch', {'l': [kind]}]]}
    again = {'body': kind, 'in': [['ptag', 'main/steps/3']]}
    steps = [setcfg, caller, after] + ([again, dict(after, **{'in': [['ptag', 'main/steps/4'], ['pwatch', {'l': [kind]}]]})]
                                       if rng.random() < 0.5 else [])
    case['lib'][0][1] = [['steps', steps]] + groups + [['ccg', callee],
                                                      ['gz', [{'body': 'probe', 'in': [['ptag', 'main/gz/0']]}]]]
    case.pop('groups', None)
    return case


def walrus_shadow(rng, case):
    """a !py decorator that binds a name with := , then later !py decorators reading the context key of
    the same name (as run / skip / swallow, also inside loops): the binding must be gone."""
    if case.get('dict_in') is None:
        return case
    d = dict((k, v) for k, v in case['dict_in'])
    k = rng.choice(['cnt', 'flag', 'n'])
    stale = {'cnt': ['int', 5], 'flag': ['bool', not d.get('flag', True)], 'n': ['int', 9]}[k]
    reader = {'cnt': ['cmp', 'lt', name('cnt'), ['int', 2]], 'flag': name('flag'),
              'n': ['cmp', 'lt', name('n'), ['int', 5]]}[k]
    first = {'body': 'probe', 'in': [['ptag', 'main/steps/w0']], 'run': py(['cmp', 'eq', ['walrus', k, stale], stale])}
    second = {'body': rng.choice(['probe', 'incr']), 'in': [['ptag', 'main/steps/w1'], ['vincr', 'other']],
              rng.choice(['run', 'skip']): py(reader)}
    if rng.random() < 0.4:
        second['foreach'] = {'l': [1, 2]}
    third = {'body': 'fail', 'in': [['ptag', 'main/steps/w2'], ['vfail', {'d': [['err', 'ValueError'], ['msg', 'x']]}]],
             'swallow': py(reader if k != 'flag' else ['or', name('flag'), ['not', name('flag')]])}
    for g in case['lib'][0][1]:
        if g[0] == 'steps':
            g[1] = [first, second] + ([third] if rng.random() < 0.5 else []) + (g[1] or [])
            break
    else:
        case['lib'][0][1].insert(0, ['steps', [first, second]])
    return case


def features(case):
    """feature tags for evidence distributions."""
    tags = set()
    for pn, groups in case['lib']:
        for g, steps in groups:
            for st in steps or []:
                tags.add('body:' + st['body'])
                for k in ('foreach', 'while', 'retry', 'run', 'skip', 'swallow', 'onError'):
                    if k in st:
                        tags.add('dec:' + k)
                if st.get('simple'):
                    tags.add('simple-step')
    if len(case['lib']) > 1:
        tags.add('multi-pipeline')
    if case.get('groups'):
        tags.add('api-groups')
    return sorted(tags)
