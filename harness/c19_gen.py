"""C19 scenario generator.

The quick tier is an exhaustive grid:
   name form  x  subset of candidate locations holding <name>.yaml  x  call shape
(see `grid()`), plus a handful of fixed special scenarios (cache-key collisions, a changed
pipelines_subdir, shared custom-module names).  The thorough tier adds random layouts."""
from c19_lib import FILE_LOADER

BITS4 = ('par', 'cwd', 'sub', 'blt')

# (tag, pype options on the hop that requests the leaf, directory the explicit parent denotes)
VARIANTS = [
    ('default', {}, None),
    ('rfp-false', {'resolve': False}, None),
    ('rfp-true', {'resolve': True}, None),
    ('parent-abs', {'parent': '$T/oth'}, 'oth'),
    ('parent-rel', {'parent': 'oth'}, 'cwd/oth'),
    ('parent-dotrel', {'parent': './oth/../oth/'}, 'cwd/oth'),
    ('parent-abs-rfp-false', {'parent': '$T/oth', 'resolve': False}, 'oth'),
    ('parent-null', {'parent': None}, None),
    ('parent-empty', {'parent': ''}, None),
    ('parent-missing', {'parent': '$T/nowhere'}, None),
    ('parent-is-cwd', {'parent': '$T/cwd'}, None),
    ('loader-custom', {'loader': 'c19_loader'}, None),
    ('loader-custom-rfp-true', {'loader': 'c19_loader', 'resolve': True}, None),
    ('loader-same', {'loader': FILE_LOADER}, None),
    ('loader-null', {'loader': None}, None),
    ('pydir', {'pydir': '$T/pyd'}, None),
]


def shapes():
    """Each shape: callers = [(file path, name used to reach it, pype opts on that hop)], the
    first reached from the root invocation; `par` = directory of the last caller (where the
    'par' bit puts the leaf file); hop = options on the hop requesting the leaf."""
    out = []
    out.append(dict(tag='root', callers=[], par='par', inv={}))
    out.append(dict(tag='root-pydir', callers=[], par='par', inv={'py_dir': '$T/pyd'}))
    out.append(dict(tag='root-loader-file', callers=[], par='par', inv={'loader': FILE_LOADER}))
    out.append(dict(tag='root-custom', callers=[], par='par', inv={'loader': 'c19_loader'}))
    for vt, opts, oth in VARIANTS:
        out.append(dict(tag='d1-' + vt, callers=[('par/c1.yaml', '$T/par/c1', {})], par='par',
                        hop=opts, oth=oth))
    out.append(dict(tag='d1-caller-in-cwd', callers=[('cwd/c1.yaml', 'c1', {})], par='par',
                    hop={}))
    out.append(dict(tag='d1-caller-in-cwd-pipelines', callers=[('cwd/pipelines/c1.yaml', 'c1', {})],
                    par='par', hop={}))
    out.append(dict(tag='d2-abs', callers=[('cwd/c0.yaml', 'c0', {}), ('par/c1.yaml', '$T/par/c1', {})],
                    par='par', hop={}))
    out.append(dict(tag='d2-nested', callers=[('cwd/c0.yaml', 'c0', {}),
                                              ('cwd/par/c1.yaml', 'par/c1', {})],
                    par='cwd/par', hop={}))
    out.append(dict(tag='d2-mid-optout', callers=[('g0/c0.yaml', '$T/g0/c0', {}),
                                                  ('par/c1.yaml', '$T/par/c1', {'resolve': False})],
                    par='par', hop={}, decoys=['g0']))
    out.append(dict(tag='d3-abs', callers=[('g0/c0.yaml', '$T/g0/c0', {}),
                                           ('g1/c1.yaml', '$T/g1/c1', {}),
                                           ('par/c2.yaml', '$T/par/c2', {})],
                    par='par', hop={}, decoys=['g0', 'g1']))
    out.append(dict(tag='d3-cascade', callers=[('g0/c0.yaml', '$T/g0/c0', {}),
                                               ('g0/c1.yaml', 'c1', {}),
                                               ('g0/k/c2.yaml', 'k/c2', {})],
                    par='g0/k', hop={}, decoys=['g0']))
    out.append(dict(tag='d3-rfp-false', callers=[('g0/c0.yaml', '$T/g0/c0', {}),
                                                 ('g1/c1.yaml', '$T/g1/c1', {}),
                                                 ('par/c2.yaml', '$T/par/c2', {})],
                    par='par', hop={'resolve': False}, decoys=['g0', 'g1']))
    out.append(dict(tag='tail', callers=[('par/c1.yaml', '$T/par/c1', {})], par='par', hop={},
                    tail=True))
    # custom loaders: the parent handed to the loader cascades through PipelineInfo
    for ld in ('c19_loader', 'c19_loader_np', 'c19_loader_nl'):
        out.append(dict(tag='cust-root-' + ld, callers=[('par/c1.yaml', '$T/par/c1', {})], par='par',
                        hop={}, inv={'loader': ld}, caller_mods=False))
        out.append(dict(tag='cust-mid-' + ld,
                        callers=[('g0/c0.yaml', '$T/g0/c0', {}),
                                 ('g1/c1.yaml', '$T/g1/c1', {'loader': ld, 'parent': '$T/par'})],
                        par='par', hop={}, caller_mods=False, decoys=['g0', 'g1']))
    out.append(dict(tag='cust-mid-np-rfp-true',
                    callers=[('g0/c0.yaml', '$T/g0/c0', {}),
                             ('g1/c1.yaml', '$T/g1/c1', {'loader': 'c19_loader_np', 'parent': '$T/par'})],
                    par='par', hop={'resolve': True}, caller_mods=False, decoys=['g0', 'g1']))
    out.append(dict(tag='cust-mid-back-to-file',
                    callers=[('g0/c0.yaml', '$T/g0/c0', {}),
                             ('g1/c1.yaml', '$T/g1/c1', {'loader': 'c19_loader', 'parent': '$T/par'})],
                    par='par', hop={'loader': FILE_LOADER}, caller_mods=False, decoys=['g0', 'g1']))
    return out


FORMS = ('plain', 'nested', 'abs', 'real')
# names with dots in the last component and in directory components; `.yaml` is appended to
# the WHOLE name, so <stem>.yaml files lying around are decoys, never candidates
DOTTED_FORMS = ('dotted', 'dotted-nested', 'dotted-abs')
DOTTED_SHAPES = ('root', 'd1-default', 'd1-rfp-false', 'd1-parent-abs', 'd2-nested', 'd3-cascade',
                 'cust-root-c19_loader')


class Builder:
    def __init__(self):
        self.files, self.mods, self.dirs, self.n = [], [], set(), 0

    def add(self, path, calls=(), mod=True, modname=None):
        m = None
        if mod:
            m = modname or f'c19m_{self.n}'
            d = path.rsplit('/', 1)[0]
            mp = f'{d}/{m}.py'
            if mp not in self.mods:
                self.mods.append(mp)
        self.n += 1
        self.files.append({'path': path, 'mod': m, 'calls': list(calls)})

    def case(self, invoke, builtin='blt', subdir=None, tags=()):
        return {'files': self.files, 'mods': self.mods, 'dirs': sorted(self.dirs),
                'builtin': builtin, 'subdir': subdir, 'invoke': invoke, 'tags': list(tags)}


def leaf_name(form):
    return {'plain': 'leaf', 'nested': 'nd/leaf', 'abs': '$T/abs/leaf', 'real': 'donothing',
            'dotted': 'leaf.v2', 'dotted-nested': 'nd.x/leaf.step2',
            'dotted-abs': '$T/abs.d/leaf.nightly'}[form]


def leaf_rel(form):
    """file name of the leaf relative to a candidate directory"""
    return {'plain': 'leaf.yaml', 'nested': 'nd/leaf.yaml', 'abs': 'leaf.yaml',
            'real': 'donothing.yaml', 'dotted': 'leaf.v2.yaml',
            'dotted-nested': 'nd.x/leaf.step2.yaml', 'dotted-abs': 'leaf.nightly.yaml'}[form]


def stem_rel(form):
    """the file a loader that chops the name at its last dot would look for"""
    return {'dotted': 'leaf.yaml', 'dotted-nested': 'nd.x/leaf.yaml', 'dotted-abs': 'leaf.yaml'}[form]


ABS_DIR = {'abs': 'abs', 'dotted-abs': 'abs.d'}


def make_case(form, shape, present, subdir=None, stems=False):
    """present: set of bits among par/cwd/sub/blt/oth/abs."""
    b = Builder()
    sd = subdir or 'pipelines'
    loc = {'par': shape['par'], 'cwd': 'cwd', 'sub': 'cwd/' + sd, 'blt': 'blt'}
    if shape['tag'] in ('d1-caller-in-cwd', 'd1-caller-in-cwd-pipelines') or not shape['callers']:
        loc['par'] = 'par'            # a decoy: not a candidate location in these shapes
    if shape.get('oth'):
        loc['oth'] = shape['oth']
    b.dirs.update(['cwd', 'cwd/' + sd, 'par', 'pyd', 'oth', 'cwd/oth'])
    if form != 'real':
        b.dirs.add('blt')
    lname = leaf_name(form)
    hop = dict(shape.get('hop') or {})
    callers = shape['callers']
    for i, (path, _ref, _o) in enumerate(callers):
        if i + 1 < len(callers):
            nxt = callers[i + 1]
            call = dict(nxt[2])
            call['name'] = nxt[1]
        else:
            call = dict(hop)
            call['name'] = lname
        b.add(path, [call], mod=shape.get('caller_mods', True))
    leaf_calls = [{'name': 'tail'}] if shape.get('tail') else []
    for bit in ('par', 'oth', 'cwd', 'sub', 'blt'):
        if bit in present and bit in loc and not (form == 'real' and bit == 'blt'):
            b.add(loc[bit] + '/' + leaf_rel(form), leaf_calls)
    if form in ABS_DIR and 'abs' in present:
        b.add(ABS_DIR[form] + '/' + leaf_rel(form), leaf_calls)
    if form in ABS_DIR:
        b.dirs.add(ABS_DIR[form])
    if stems:
        for d in sorted(set(loc.values()) | ({ABS_DIR[form]} if form in ABS_DIR else set())):
            b.add(d + '/' + stem_rel(form), [])
    for d in shape.get('decoys', []):
        b.add(d + '/' + leaf_rel(form), [])
    if shape.get('tail'):
        for d in ('par', 'cwd', 'cwd/' + sd, 'blt', 'par/nd'):
            b.add(d + '/tail.yaml', [])
    if callers:
        inv = {'name': callers[0][1]}
    else:
        inv = {'name': lname}
    inv.update(shape.get('inv') or {})
    inv.setdefault('loader', None)
    inv.setdefault('py_dir', None)
    tags = ['form:' + form + ('+stem-decoys' if stems else ''), 'shape:' + shape['tag'],
            'present:' + (','.join(sorted(present)) or 'none')]
    return b.case(inv, builtin=None if form == 'real' else 'blt', subdir=subdir, tags=tags)


def subsets(bits):
    bits = list(bits)
    for m in range(1 << len(bits)):
        yield {bits[i] for i in range(len(bits)) if m >> i & 1}


CORE_SHAPES = ('root', 'root-pydir', 'd1-default', 'd1-rfp-false', 'd1-parent-abs', 'd1-loader-custom',
               'd1-pydir', 'd2-abs', 'd2-nested', 'd3-abs', 'd3-cascade', 'd3-rfp-false')


def grid():
    """core shapes: every subset x every name form; the other shapes: every subset for plain
    names and a few subsets for the other forms."""
    cases = []
    for shape in shapes():
        core = shape['tag'] in CORE_SHAPES
        for form in FORMS:
            bits = list(BITS4)
            if shape.get('oth'):
                bits.append('oth')
            if form == 'real':
                bits.remove('blt')
            if form == 'abs':
                if shape['tag'] in ('root', 'd1-default'):
                    subs = list(subsets(bits))
                elif core:
                    subs = [set(), {'cwd'}, {'par', 'sub'}, set(bits)]
                else:
                    subs = [{'cwd'}]
                for s in subs:
                    for a in (set(), {'abs'}):
                        cases.append(make_case(form, shape, s | a))
                continue
            if core or form == 'plain':
                subs = list(subsets(bits))
            else:
                subs = [set(), {'sub'}, set(bits) - {'cwd'}]
            for s in subs:
                cases.append(make_case(form, shape, s))
    for shape in shapes():
        if shape['tag'] not in DOTTED_SHAPES:
            continue
        bits = list(BITS4) + (['oth'] if shape.get('oth') else [])
        for form in DOTTED_FORMS:
            if form == 'dotted' and shape['tag'] in ('root', 'd1-default'):
                subs = list(subsets(BITS4))
            else:
                subs = [set(), {'cwd'}, {'par', 'sub'}, set(bits)]
            for sset in subs:
                for a in ((set(), {'abs'}) if form == 'dotted-abs' else (set(),)):
                    for stems in (False, True):
                        cases.append(make_case(form, shape, sset | a, stems=stems))
    cases += specials()
    return cases


def specials():
    out = []
    # (the two cache-key collision layouts of DESIGN F4 live in corpus/C19/ and run first)
    # same shapes without the colliding first request: the right file runs
    b = Builder()
    b.add('x/c0.yaml', [{'name': '$T/x+q/c1'}])
    b.add('x/q+r.yaml', [])
    b.add('x+q/c1.yaml', [{'name': 'r'}])
    b.add('x+q/r.yaml', [])
    out.append(b.case({'name': '$T/x/c0', 'loader': None, 'py_dir': None},
                      tags=['special:plus-in-names-no-collision']))
    # --- a configured pipelines_subdir ---------------------------------------------------
    sh = [s for s in shapes() if s['tag'] in ('root', 'd1-default')]
    for shape in sh:
        for s in subsets(BITS4):
            out.append(make_case('plain', shape, s, subdir='pl2'))
    # --- the same custom module name next to two pipelines: the first loaded one wins ------
    b = Builder()
    b.add('par/c1.yaml', [{'name': 'leaf'}], modname='c19shared')
    b.add('cwd/leaf.yaml', [], modname='c19shared')
    out.append(b.case({'name': '$T/par/c1', 'loader': None, 'py_dir': None},
                      tags=['special:shared-module-name']))
    # --- a DIRECTORY called leaf.yaml is not a pipeline file: the search moves on ------------
    for shape in sh:
        c = make_case('plain', shape, {'sub', 'blt'})
        c['dirs'] = sorted(set(c['dirs']) | {'cwd/leaf.yaml', 'par/leaf.yaml'})
        c['tags'].append('special:directory-named-like-the-pipeline')
        out.append(c)
        c = make_case('plain', shape, set())
        c['dirs'] = sorted(set(c['dirs']) | {'cwd/leaf.yaml', 'blt/leaf.yaml'})
        c['tags'].append('special:directory-named-like-the-pipeline')
        out.append(c)
    # --- directories whose paths differ only by letter case: each pipeline's own custom step
    #     module must import, whichever loads first; also against entries that are on sys.path
    #     before pypyr runs ------------------------------------------------------------------
    for first, second in (('work/Deploy', 'work/deploy'), ('work/deploy', 'work/Deploy'),
                          ('Work/deploy', 'work/deploy'), ('cwd/Jobs', 'cwd/jobs')):
        # as two pype children of one caller
        b = Builder()
        b.add('g0/c0.yaml', [{'name': f'$T/{first}/job'}, {'name': f'$T/{second}/job'}])
        b.add(f'{first}/job.yaml', [])
        b.add(f'{second}/job.yaml', [])
        out.append(b.case({'name': '$T/g0/c0', 'loader': None, 'py_dir': None},
                          tags=['special:case-twin-dirs-children']))
        # the first one is the root run, the second its child (absolute and parent-relative)
        b = Builder()
        b.add(f'{first}/job.yaml', [{'name': f'$T/{second}/job2'}])
        b.add(f'{second}/job2.yaml', [{'name': 'job3'}])
        b.add(f'{second}/job3.yaml', [])
        out.append(b.case({'name': f'$T/{first}/job', 'loader': None, 'py_dir': None},
                          tags=['special:case-twin-dirs-root-then-child']))
    for a, c in (('Jobs', 'jobs'), ('jobs', 'Jobs')):
        # nested relative names from cwd
        b = Builder()
        b.add('cwd/c0.yaml', [{'name': f'{a}/job'}, {'name': f'{c}/job'}])
        b.add(f'cwd/{a}/job.yaml', [])
        b.add(f'cwd/{c}/job.yaml', [])
        out.append(b.case({'name': 'c0', 'loader': None, 'py_dir': None},
                          tags=['special:case-twin-dirs-nested-names']))
    for pre, d in (('$T/WORK', 'work'), ('$T/work', 'WORK'), ('$T/work', 'work'), ('$T/Cwd', 'cwd')):
        b = Builder()
        b.add(f'{d}/job.yaml', [{'name': 'job2'}])
        b.add(f'{d}/job2.yaml', [])
        b.dirs.add(pre[3:])
        c = b.case({'name': f'$T/{d}/job', 'loader': None, 'py_dir': None},
                   tags=['special:sys-path-entry-differs-by-case' if pre[3:] != d
                         else 'special:sys-path-entry-already-there'])
        c['pre_syspath'] = [pre]
        out.append(c)
    # pyDir differing by case from the pipeline's directory
    b = Builder()
    b.add('par/c1.yaml', [{'name': '$T/work/job', 'pydir': '$T/WORK'}])
    b.add('work/job.yaml', [])
    b.dirs.add('WORK')
    out.append(b.case({'name': '$T/par/c1', 'loader': None, 'py_dir': '$T/PAR'},
                      tags=['special:pydir-differs-by-case']))
    # --- a custom step module is first asked for from a place where it is NOT importable
    #     (failing, swallowed or not) and then by the pipeline sitting next to it --------------
    def probe_then_owner(first_dir, owner_dir, probe_loader=None):
        b = Builder()
        b.files.append({'path': f'{first_dir}/probe.yaml', 'mod': 'c19step', 'calls': []})
        b.files.append({'path': f'{owner_dir}/owner.yaml', 'mod': 'c19step', 'calls': []})
        b.mods.append(f'{owner_dir}/c19step.py')
        return b
    for first_dir, owner_dir in (('cwd', 'cwd/sub'), ('g1', 'par'), ('cwd/pipelines', 'cwd')):
        for ld in (None, 'c19_loader'):
            # two pype children of one caller, the failing one swallowed
            b = probe_then_owner(first_dir, owner_dir)
            c1 = {'name': f'$T/{first_dir}/probe', 'raise': False}
            if ld:
                c1['loader'] = ld
            b.add('g0/c0.yaml', [c1, {'name': f'$T/{owner_dir}/owner'}], mod=False)
            out.append(b.case({'name': '$T/g0/c0', 'loader': None, 'py_dir': None},
                              tags=['special:module-first-asked-elsewhere-swallowed']))
            # the same as consecutive root runs of one process (first fails, not swallowed)
            b = probe_then_owner(first_dir, owner_dir)
            c = b.case({'name': f'$T/{first_dir}/probe', 'loader': ld, 'py_dir': None},
                       tags=['special:module-first-asked-elsewhere-root-runs'])
            c['more_invokes'] = [{'name': f'$T/{owner_dir}/owner', 'loader': None, 'py_dir': None}]
            out.append(c)
        # owner first, then the other pipeline: by then the module is importable from there too
        b = probe_then_owner(first_dir, owner_dir)
        b.add('g0/c0.yaml', [{'name': f'$T/{owner_dir}/owner'}, {'name': f'$T/{first_dir}/probe', 'raise': False}],
              mod=False)
        out.append(b.case({'name': '$T/g0/c0', 'loader': None, 'py_dir': None},
                          tags=['special:module-owner-first']))
        # nested: the swallowed failure happens two levels down
        b = probe_then_owner(first_dir, owner_dir)
        b.add('g0/c0.yaml', [{'name': '$T/g0/mid', 'raise': False}, {'name': f'$T/{owner_dir}/owner'}], mod=False)
        b.add('g0/mid.yaml', [{'name': f'$T/{first_dir}/probe'}, {'name': '$T/g0/never'}], mod=False)
        b.add('g0/never.yaml', [], mod=False)
        out.append(b.case({'name': '$T/g0/c0', 'loader': None, 'py_dir': None},
                          tags=['special:module-first-asked-elsewhere-nested-swallow']))
    # a swallowed not-found child, then business as usual; and three root runs in a row
    b = Builder()
    b.add('par/c1.yaml', [{'name': 'nowhere', 'raise': False}, {'name': 'leaf'}])
    b.add('par/leaf.yaml', [])
    c = b.case({'name': '$T/par/c1', 'loader': None, 'py_dir': None}, tags=['special:swallowed-not-found'])
    c['more_invokes'] = [{'name': 'nowhere', 'loader': None, 'py_dir': None},
                         {'name': '$T/par/leaf', 'loader': None, 'py_dir': None}]
    out.append(c)
    # --- the same pipeline requested twice (cache hit, same answer) ------------------------
    b = Builder()
    b.add('par/c1.yaml', [{'name': 'leaf'}, {'name': 'leaf'}, {'name': 'leaf', 'resolve': False}])
    b.add('par/leaf.yaml', [])
    b.add('cwd/leaf.yaml', [])
    out.append(b.case({'name': '$T/par/c1', 'loader': None, 'py_dir': None},
                      tags=['special:repeat-request']))
    # --- pyDir makes a module outside the pipeline's directory importable ------------------
    b = Builder()
    b.add('par/c1.yaml', [{'name': 'leaf', 'pydir': '$T/pyd'}])
    b.files.append({'path': 'cwd/leaf.yaml', 'mod': 'c19far', 'calls': []})
    b.mods.append('pyd/c19far.py')
    out.append(b.case({'name': '$T/par/c1', 'loader': None, 'py_dir': None},
                      tags=['special:pydir-module']))
    b = Builder()
    b.add('par/c1.yaml', [{'name': 'leaf'}])
    b.files.append({'path': 'cwd/leaf.yaml', 'mod': 'c19far', 'calls': []})
    b.mods.append('pyd/c19far.py')
    out.append(b.case({'name': '$T/par/c1', 'loader': None, 'py_dir': None},
                      tags=['special:module-not-on-path']))
    return out


# ------------------------------------------------------------------ random layouts

DIR_POOL = ['cwd', 'cwd/pipelines', 'par', 'oth', 'blt', 'g0', 'cwd/nd', 'par/nd', 'cwd/oth', 'Par', 'G0', 'Oth',
            'x', 'x+q', 'cwd/q', 'g0/k', 'cwd/pipelines/nd', 'blt/nd']
NAME_POOL = ['a', 'b', 'c', 'nd/d', 'nd/e', 'q+r', 'r', 'k/f', 'a.v2', 'nd/d.s1', 'n.d/g.h']   # distinct base names: call graphs stay acyclic


def random_case(rng):
    b = Builder()
    names = rng.sample(NAME_POOL, rng.randint(2, 5))
    rank = {n: i for i, n in enumerate(names)}
    dirs = rng.sample(DIR_POOL, rng.randint(2, 7))
    b.dirs.update(rng.sample(DIR_POOL, rng.randint(0, 4)))
    b.dirs.update(['cwd', 'blt'])
    placed = []
    for n in names:
        for d in dirs:
            if rng.random() < 0.45:
                placed.append((d, n))
    if not placed:
        placed.append((dirs[0], names[0]))
    shared = rng.random() < 0.15

    def ref(n, d_hint=None):
        """how a call names pipeline n: relative, or absolute in one of the dirs"""
        if rng.random() < 0.2:
            return '$T/' + rng.choice(dirs) + '/' + n
        return n

    for d, n in placed:
        calls = []
        later = [m for m in names if rank[m] > rank[n]]
        for _ in range(rng.choice([0, 0, 1, 1, 2])):
            if not later:
                break
            c = {'name': ref(rng.choice(later))}
            r = rng.random()
            if r < 0.15:
                c['resolve'] = rng.random() < 0.3
            r = rng.random()
            if r < 0.25:
                c['parent'] = rng.choice(['$T/' + rng.choice(DIR_POOL), rng.choice(['oth', 'q', 'nd', './nd', 'nd/..']),
                                          None, '', '$T/nowhere', '$T/cwd'])
            r = rng.random()
            if r < 0.25:
                c['loader'] = rng.choice(['c19_loader', 'c19_loader_np', 'c19_loader_nl',
                                          FILE_LOADER, None, ''])
            if rng.random() < 0.15:
                c['raise'] = False
            if rng.random() < 0.1:
                c['pydir'] = rng.choice(['$T/' + rng.choice(DIR_POOL), '$T/nowhere', ''])
            calls.append(c)
        b.add(f'{d}/{n}.yaml', calls, mod=rng.random() < 0.7,
              modname='c19shared' if shared and rng.random() < 0.5 else None)
    taken = {f['path'] for f in b.files}
    for n in names:
        for d in dirs:
            if rng.random() < 0.06 and f'{d}/{n}.yaml' not in taken:
                b.dirs.add(f'{d}/{n}.yaml')          # a directory with the pipeline's file name
    inv = {'name': ref(names[0]), 'loader': rng.choice([None, None, None, FILE_LOADER, 'c19_loader',
                                                       'c19_loader_np', 'c19_loader_nl']),
           'py_dir': rng.choice([None, None, None, '$T/' + rng.choice(DIR_POOL)])}
    c = b.case(inv, tags=['random'])
    if rng.random() < 0.2:
        c['more_invokes'] = [{'name': ref(rng.choice(names)), 'loader': None, 'py_dir': None}
                             for _ in range(rng.randint(1, 2))]
    if rng.random() < 0.15:
        c['pre_syspath'] = ['$T/' + rng.choice(DIR_POOL + ['PAR', 'Cwd', 'g0'])]
    return c


MAX_CASES = 6000      # one subprocess per case: keeps a widened search within minutes


def generate(rng, n, tier):
    g = grid()
    if n < len(g):
        keep = [c for c in g if any(t.startswith('special:') for t in c['tags'])][:max(0, n // 10)]
        rest = [c for c in g if c not in keep]
        idx = sorted(rng.sample(range(len(rest)), max(0, n - len(keep))))
        return keep + [rest[i] for i in idx]
    out = list(g)
    if tier == 'thorough':
        while len(out) < min(n, MAX_CASES):
            out.append(random_case(rng))
    return out
