"""C13 helper: replay a model schedule on the REAL pypyr.moduleloader.add_sys_path with real
threads.  Gates (one per instruction of the add_sys_path model in Model/Cache.v):

    start     A0: `path in _known_dirs`           (_known_dirs replaced by a gated set subclass)
    acquire   AAcquire: _sys_path_lock.__enter__  (controller-driven mutex)
    contains  ACheck: `path_str not in sys.path`  (sys.path replaced by a gated list subclass)
    append    AAppend: sys.path.append(path_str)
    release   ARelease: _sys_path_lock.__exit__
    known     AKnown: _known_dirs.add(path)

Directories are real (created in a temp sandbox, or deliberately missing)."""
import shutil
import sys
import tempfile
import threading
from pathlib import Path

from c13_sched import Abort, Ctl, CtlLock, TIMEOUT


def run_syspath(case):
    import pypyr.moduleloader as ml
    progs = case['progs']
    n = len(progs)
    ctl = Ctl(n)
    d = Path(tempfile.mkdtemp(prefix='c13sp-')).resolve()
    names = {}

    def worker_t():
        return getattr(ctl.local, 't', None)

    def name_of(x):
        return names.get(str(x), str(x))

    class GatedSet(set):
        def __contains__(self, x):
            if worker_t() is not None:
                ctl.gate('start')
            return set.__contains__(self, x)

        def add(self, x):
            t = worker_t()
            if t is not None:
                ctl.gate('known')
            set.add(self, x)
            if t is not None:
                ctl.ev('known', t, name_of(x))

    class GatedList(list):
        def __contains__(self, x):
            if worker_t() is not None:
                ctl.gate('contains')
            return list.__contains__(self, x)

        def append(self, x):
            t = worker_t()
            if t is not None:
                ctl.gate('append')
            list.append(self, x)
            if t is not None:
                ctl.ev('append', t, name_of(x))

    orig_path, orig_known, orig_lock = sys.path, ml._known_dirs, ml._sys_path_lock
    try:
        for nm, exists in case['dirs'].items():
            p = d / nm
            names[str(p)] = nm
            if exists:
                p.mkdir()
        gl = GatedList(orig_path)
        for nm in case['pre']:
            list.append(gl, str(d / nm))
        n0 = len(gl)
        sys.path = gl
        ml._known_dirs = GatedSet()
        ml._sys_path_lock = CtlLock(ctl)

        returns = []

        def worker(t):
            ctl.local.t = t
            try:
                for nm in progs[t]:
                    p = d / nm
                    ml.add_sys_path(p if case.get('as_path') else str(p))
                    # what this caller finds right after its call returned (ungated read)
                    returns.append([t, nm, list.__contains__(sys.path, str(p))])
            except Abort:
                pass
            finally:
                ctl.finish(t)
        threads = [threading.Thread(target=worker, args=(t,), daemon=True) for t in range(n)]
        status = 'ok'
        for th in threads:
            th.start()
        for t in case['sched']:
            if t < n and ctl.step(t) == 'timeout':
                status = 'timeout'
                break
        unfinished = [[t, ctl.at[t]] for t in range(n) if not ctl.done[t]]
        ctl.kill()
        for th in threads:
            th.join(TIMEOUT)
        appended = [name_of(x) for x in list(gl)[n0:]]
        counts = {nm: sum(1 for x in gl if x == str(d / nm)) for nm in case['dirs']}
    finally:
        sys.path = orig_path
        ml._known_dirs = orig_known
        ml._sys_path_lock = orig_lock
        shutil.rmtree(d, ignore_errors=True)
    return {'events': ctl.events, 'status': status, 'unfinished': unfinished, 'appended': appended,
            'counts': counts, 'returns': returns, 'anomalies': ctl.anomalies}
