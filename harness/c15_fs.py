"""C15 helper: run the REAL pypyr file-rewrite steps on a scratch directory with the file-system
primitives that `pypyr.utils.filesystem` calls wrapped inside that module's namespace.

Primitives (each one is a snapshot boundary and a possible fault point, numbered 0,1,2,... in
the order the code issues them over the whole step run):

  open-r:<name>         fs.open(path [, 'r'/'rt'/'rb'])      (source handle)
  open-w:<name>         fs.open(path, 'w'/'wt'/'wb')         (direct out handle - not in place)
  mktemp:<dir>          fs.NamedTemporaryFile(dir=...)
  write                 <handle>.write(chunk)  (writelines = the loop `for l in lines: write(l)`,
                        which is what _io._IOBase.writelines does)
  close-w               close / __exit__ of the temp or out handle
  close-src             close / __exit__ of the source handle
  replace:<tmp>><dst>   fs.os.replace(src, dst)
  remove:<tmp>          fs.os.remove(path)
  sys:<audit event>     ANY other os.* / shutil.* call the implementation makes on a path inside the
                        scratch directory while the step runs (os.chmod, shutil.copymode, os.utime,
                        os.link, os.rename, os.truncate, ...): discovered at run time through a
                        Python audit hook, not from a list, so a call newly inserted between the end
                        of writing and the rename is a fault point too.  Not traced: read-only
                        events (listdir / scandir / walk / xattr reads) and mkdir of a directory
                        that already exists.  The hook raises Injected(k) to make that call fail.

A fault {k: 'raise'} makes primitive k raise `Injected(k)` INSTEAD of acting (a failing close
still releases the descriptor, as CPython does).  {k: 'crash'} stops the observation at k (the
snapshot taken there is what a kill at that instant leaves behind); the rest of the run is not
recorded.  The directory is snapshotted (names + bytes) before every primitive and at the end.
"""
import contextlib
import importlib
import os
import shutil
import tempfile

STEPS = {
    'fileformat': ('pypyr.steps.fileformat', 'fileFormat'),
    'filereplace': ('pypyr.steps.filereplace', 'fileReplace'),
    'fileformatjson': ('pypyr.steps.fileformatjson', 'fileFormatJson'),
    'fileformatyaml': ('pypyr.steps.fileformatyaml', 'fileFormatYaml'),
    'fileformattoml': ('pypyr.steps.fileformattoml', 'fileFormatToml'),
}
STREAM = ('fileformat', 'filereplace')


_ACTIVE = None          # the Ctl of the step run in progress (audit hook target)
_HOOKED = False
READ_ONLY_EVENTS = ('os.listdir', 'os.scandir', 'os.walk', 'os.fwalk', 'os.getxattr', 'os.listxattr')


def _audit(event, args):
    ctl = _ACTIVE
    if ctl is None or ctl.mute or ctl.crashed:
        return
    if not (event.startswith('os.') or event.startswith('shutil.')) or event in READ_ONLY_EVENTS:
        return
    inside = []
    for a in args:
        if isinstance(a, bytes):
            try:
                a = a.decode()
            except UnicodeDecodeError:
                continue
        if isinstance(a, os.PathLike):
            a = os.fspath(a)
        if isinstance(a, str) and a:
            r = os.path.abspath(a)
            if r == ctl.root or r.startswith(ctl.root + os.sep) \
                    or os.path.realpath(a).startswith(ctl.root + os.sep):
                inside.append(a)
    if not inside:
        return
    if event == 'os.mkdir' and os.path.isdir(inside[0]):
        return                   # mkdir(exist_ok=True) on an existing directory: no effect
    ctl.mute += 1                # the snapshot below walks the directory
    try:
        k = ctl.n
        bad = ctl.prim('sys:' + event)
    finally:
        ctl.mute -= 1
    if bad:
        raise Injected(k)


def ensure_hook():
    global _HOOKED
    if not _HOOKED:
        import sys
        sys.addaudithook(_audit)
        _HOOKED = True


class Injected(OSError):
    def __init__(self, k):
        super().__init__(f'injected fault at primitive {k}')
        self.k = k


class SimCrash(BaseException):
    """In-process stand-in for a kill: nothing after it is observed."""


def snapshot(root):
    """Sorted [[relative name, bytes as latin-1 text]]; directories appear as 'name/' -> '';
    a symbolic link appears as itself, '<symlink:target>' (it is an entry of its own: what it
    points at is listed under the target's name); a hard link is an ordinary entry."""
    out = []
    for base, dirs, files in os.walk(root):
        rel = os.path.relpath(base, root)
        rel = '' if rel == '.' else rel + '/'
        for d in dirs:
            out.append([rel + d + '/', ''])
        for f in files:
            p = os.path.join(base, f)
            if os.path.islink(p):
                out.append([rel + f, '<symlink:' + os.readlink(p) + '>'])
                continue
            try:
                with open(p, 'rb') as fh:
                    out.append([rel + f, fh.read().decode('latin-1')])
            except OSError:           # vanished between listdir and open: not expected
                out.append([rel + f, '<unreadable>'])
    out.sort()
    return out


class Ctl:
    def __init__(self, root, faults=None, record_chunks=False, kill=False):
        self.root = os.path.realpath(root)
        self.faults = dict(faults or {})
        self.n = 0
        self.events = []          # [tag, snapshot]
        self.temps = []           # absolute names handed out by NamedTemporaryFile
        self.crashed = False
        self.chunks = []          # record_chunks: every chunk passed to write (bytes)
        self.record_chunks = record_chunks
        self.kill = kill
        self.hit = []             # [k, tag] of every fault that fired
        self.mute = 0             # >0: calls made by the harness itself / by a wrapped primitive

    # -- names
    def rel(self, p):
        p = os.path.realpath(os.fspath(p)) if not isinstance(p, str) else os.path.realpath(p)
        if p == self.root:
            return ''
        if p.startswith(self.root + os.sep):
            return p[len(self.root) + 1:]
        return '<outside>' + p

    def canon(self, relname):
        for t in self.temps:
            if relname == self.rel(t):
                d = os.path.dirname(relname)
                return (d + '/' if d else '') + '<tmp>'
        return relname

    def snap(self):
        self.mute += 1
        try:
            return sorted([self.canon(n), b] for n, b in snapshot(self.root))
        finally:
            self.mute -= 1

    # -- the primitive boundary
    def prim(self, tag):
        """Called BEFORE the primitive acts. Returns True if it must raise instead of acting."""
        if self.crashed:
            return False
        k = self.n
        self.n += 1
        self.events.append([tag, self.snap()])
        mode = self.faults.get(k)
        if mode == 'crash':
            self.hit.append([k, tag, 'crash'])
            if self.kill:
                os._exit(77)
            self.crashed = True
            raise SimCrash()
        if mode == 'raise':
            self.hit.append([k, tag, 'raise'])
            return True
        return False


class FileProxy:
    """Wraps a real file object; write and close are primitives."""

    def __init__(self, f, ctl, role):
        self.__dict__['_f'] = f
        self.__dict__['_ctl'] = ctl
        self.__dict__['_role'] = role
        self.__dict__['_closed_once'] = False

    def __getattr__(self, name):
        return getattr(self.__dict__['_f'], name)

    def __iter__(self):
        return iter(self._f)

    def __next__(self):
        return next(self._f)

    def __enter__(self):
        self._f.__enter__()
        return self

    def __exit__(self, *exc):
        self.close()
        return False

    def close(self):
        if self.__dict__['_closed_once']:
            return self._f.close()
        self.__dict__['_closed_once'] = True
        ctl = self._ctl
        tag = 'close-src' if self._role == 'src' else 'close-w'
        k = ctl.n
        try:
            bad = ctl.prim(tag)
        except SimCrash:
            self._f.close()
            raise
        if bad:
            try:
                self._f.close()      # the descriptor is released even when close() fails
            finally:
                raise Injected(k)
        return self._f.close()

    def write(self, data):
        ctl = self._ctl
        enc = getattr(self._f, 'encoding', None)
        if isinstance(data, str) and enc:
            # a chunk the encoding cannot represent raises in the text layer before anything
            # reaches the file: a data failure, not a failing primitive
            data.encode(enc, getattr(self._f, 'errors', None) or 'strict')
        k = ctl.n
        if ctl.prim('write'):
            raise Injected(k)
        if ctl.record_chunks:
            ctl.chunks.append(data.encode(self._f.encoding or 'utf-8')
                              if isinstance(data, str) else bytes(data))
        return self._f.write(data)

    def writelines(self, lines):
        # == _io._IOBase.writelines: iterate, call self.write(line) for each
        for line in lines:
            self.write(line)


class OsShim:
    """Stands in for the `os` name inside pypyr.utils.filesystem."""

    def __init__(self, ctl):
        self.__dict__['_ctl'] = ctl

    def __getattr__(self, name):
        return getattr(os, name)

    def replace(self, src, dst, **kw):
        ctl = self._ctl
        k = ctl.n
        tag = f'replace:{ctl.canon(ctl.rel(src))}>{ctl.rel(dst)}'
        if ctl.prim(tag):
            raise Injected(k)
        ctl.mute += 1
        try:
            return os.replace(src, dst, **kw)
        finally:
            ctl.mute -= 1

    def remove(self, path, **kw):
        ctl = self._ctl
        k = ctl.n
        if ctl.prim(f'remove:{ctl.canon(ctl.rel(path))}'):
            raise Injected(k)
        ctl.mute += 1
        try:
            return os.remove(path, **kw)
        finally:
            ctl.mute -= 1

    unlink = remove


@contextlib.contextmanager
def installed(ctl):
    """Patch pypyr.utils.filesystem's own names `open`, `NamedTemporaryFile`, `os`."""
    import pypyr.utils.filesystem as fs
    real_ntf = fs.NamedTemporaryFile
    had_open = 'open' in fs.__dict__
    old_open = fs.__dict__.get('open')
    old_os = fs.os

    def h_open(path, mode='r', *a, **kw):
        k = ctl.n
        writing = any(c in mode for c in 'wax+')
        tag = ('open-w:' if writing else 'open-r:') + ctl.rel(path)
        if ctl.prim(tag):
            raise Injected(k)
        return FileProxy(open(path, mode, *a, **kw), ctl, 'out' if writing else 'src')

    def h_ntf(*a, **kw):
        k = ctl.n
        d = kw.get('dir')
        reld = ctl.rel(d) if d else '<default>'
        if ctl.prim('mktemp:' + (reld + '/' if reld else '')):
            raise Injected(k)
        ctl.mute += 1
        try:
            t = real_ntf(*a, **kw)
        finally:
            ctl.mute -= 1
        ctl.temps.append(t.name)
        t.file = FileProxy(t.file, ctl, 'tmp')
        return t

    global _ACTIVE
    ensure_hook()
    fs.open = h_open
    fs.NamedTemporaryFile = h_ntf
    fs.os = OsShim(ctl)
    _ACTIVE = ctl
    try:
        yield
    finally:
        _ACTIVE = None
        fs.NamedTemporaryFile = real_ntf
        fs.os = old_os
        if had_open:
            fs.open = old_open
        else:
            del fs.open


def build_context(case, root):
    """The step configuration.  `in` / `out` of the case are the names the files REALLY have,
    relative to root.  `in_cfg` / `out_cfg` (optional) are how the pipeline spells them: strings
    that still contain formatting ('{{x}}' for a literal brace, '{k}' for a context value) or
    {'sic': path} for a !sic string - what one pass of formatting turns into `in` / `out`."""
    from pypyr.context import Context
    from pypyr.dsl import SicString
    step = case['step']
    key = STEPS[step][1]

    def absp(x):
        return os.path.join(root, x)

    def cfgval(v):
        if isinstance(v, list):
            return [cfgval(x) for x in v]
        if isinstance(v, dict) and 'sic' in v:
            return SicString(absp(v['sic']))
        return absp(v)
    vin = case.get('in_cfg', case['in'])
    cfg = {'in': cfgval(vin)}
    vout = case.get('out_cfg', case.get('out'))
    if vout is not None:
        cfg['out'] = cfgval(vout)
    if step == 'filereplace':
        cfg['replacePairs'] = dict(case.get('pairs') or [])
    if case.get('enc_out'):
        cfg['encodingOut'] = case['enc_out']
    d = {k: ctx_value(v) for k, v in (case.get('ctx') or [])}
    d[key] = cfg
    return Context(d)


class Unserialisable:
    """an arbitrary object: no json / yaml / toml representation"""

    def __repr__(self):
        return '<Unserialisable>'


def ctx_value(v):
    """context values the case cannot hold as JSON: {'__set__': [...]}, {'__obj__': n}"""
    if isinstance(v, dict) and '__set__' in v:
        return set(v['__set__'])
    if isinstance(v, dict) and '__obj__' in v:
        return Unserialisable()
    return v


def populate(root, files, links=None):
    """links: [[name, target name (relative to root), 'sym' | 'hard']], made after the files."""
    for name, content in files:
        p = os.path.join(root, name)
        if name.endswith('/'):
            os.makedirs(p, exist_ok=True)
            continue
        os.makedirs(os.path.dirname(p), exist_ok=True)
        with open(p, 'wb') as fh:
            fh.write(content.encode('latin-1'))
    for name, target, kind in links or []:
        p = os.path.join(root, name)
        os.makedirs(os.path.dirname(p), exist_ok=True)
        if kind == 'hard':
            os.link(os.path.join(root, target), p)
        else:
            os.symlink(os.path.relpath(os.path.join(root, target), os.path.dirname(p)), p)


def classify(e, stream):
    """exception -> canonical outcome."""
    from pypyr.errors import Error, KeyNotInContextError
    if isinstance(e, Injected):
        return ['raised', 'inj', e.k]
    if isinstance(e, KeyNotInContextError):
        return ['raised', 'format', -1]
    name = type(e).__name__
    mod = type(e).__module__ or ''
    if isinstance(e, UnicodeDecodeError):
        # stream rewriters read lazily: an undecodable source fails while producing an item
        return ['raised', 'format' if stream else 'load', -1]
    if name == 'RepresenterError' or isinstance(e, (TypeError, UnicodeEncodeError)):
        # the serialiser cannot represent / encode a value: a data failure while producing output
        return ['raised', 'format', -1]
    if name in ('JSONDecodeError', 'TOMLDecodeError') or mod.startswith('ruamel'):
        return ['raised', 'load', -1]
    if type(e) is Error:
        return ['raised', 'config', -1]
    return ['raised', 'other:' + name + ':' + str(e)[:80], -1]


def run_step(case, root, faults=None, record_chunks=False, kill=False):
    """Run the real step once on `root` (already populated). Returns (ctl, outcome)."""
    mod = importlib.import_module(STEPS[case['step']][0])
    ctx = build_context(case, root)
    ctl = Ctl(root, faults, record_chunks, kill)
    outcome = ['ok', '', -1]
    # (ruamel's emitter prints repr(data) to stdout when a stream write raises)
    with installed(ctl), open(os.devnull, 'w') as null, contextlib.redirect_stdout(null):
        try:
            mod.run_step(ctx)
        except SimCrash:
            outcome = ['crashed', '', -1]
        except Exception as e:  # noqa
            outcome = classify(e, case['step'] in STREAM)
    return ctl, outcome


def glob_paths(case, root):
    """What get_glob will return, relative to root (the glob module is trusted; same call)."""
    import glob as _glob
    vin = case['in']
    pats = vin if isinstance(vin, list) else [vin]
    out = []
    for p in pats:
        for m in _glob.glob(os.path.join(root, p), recursive=True):
            out.append(os.path.relpath(m, root))
    return out


def reference_plan(case, content):
    """Run the real step, fault-free, in place on a one-file scratch directory holding `content`;
    return the data-dependent plan of that rewrite: [load_ok, [chunk | None ...]] where None marks
    the item whose formatting raised, and the resulting bytes (or None when it failed)."""
    root = tempfile.mkdtemp(prefix='c15ref_')
    try:
        populate(root, [['f', content]])
        one = dict(case)
        one['in'] = 'f'
        one['out'] = None
        one.pop('in_cfg', None)
        one.pop('out_cfg', None)
        ctl, outcome = run_step(one, root, record_chunks=True)
        chunks = [c.decode('latin-1') for c in ctl.chunks]
        if outcome[0] == 'ok':
            try:
                with open(os.path.join(root, 'f'), 'rb') as fh:
                    new = fh.read().decode('latin-1')
            except OSError:       # the rewrite "succeeded" and the file is gone (a mutant)
                return {'load_ok': True, 'items': chunks, 'new': None, 'weird': 'source vanished'}
            return {'load_ok': True, 'items': chunks, 'new': new}
        if outcome[1] == 'format':
            return {'load_ok': True, 'items': chunks + [None], 'new': None}
        if outcome[1] == 'load':
            return {'load_ok': False, 'items': [], 'new': None}
        return {'load_ok': True, 'items': chunks, 'new': None, 'weird': outcome}
    finally:
        shutil.rmtree(root, ignore_errors=True)


def observe(case):
    """Full observation of one case (see props/C15.py for the schema)."""
    root = tempfile.mkdtemp(prefix='c15_')
    try:
        populate(root, case['files'], case.get('links'))
        before = snapshot(root)
        paths = glob_paths(case, root)
        targets = resolve_targets(case, root, paths)
        faults = {int(k): m for k, m in case.get('faults', [])}
        ctl, outcome = run_step(case, root, faults)
        final = ctl.events[-1][1] if outcome[0] == 'crashed' else ctl.snap()
        obs = {'before': before, 'paths': paths, 'events': ctl.events, 'outcome': outcome,
               'final': final, 'hit': ctl.hit, 'nprims': ctl.n, 'targets': targets}
    finally:
        shutil.rmtree(root, ignore_errors=True)
    obs['table'] = plan_table(case, before, paths, targets)
    return obs


def plan_table(case, before, paths, targets):
    """data plans for every content a target can hold when its turn comes"""
    table = {}
    cur = {n: b for n, b in before}
    many_to_one = len(paths) > 1 and case.get('out') not in (None, '') \
        and not case['out'].endswith('/')
    for p in paths:
        if many_to_one or p not in cur or p.endswith('/') or (p + '/') in cur:
            continue
        c = cur[p]
        if c not in table:
            table[c] = reference_plan(case, c)
        if table[c]['new'] is not None and in_place(targets, p):
            cur[p] = table[c]['new']
    return [[c, pl] for c, pl in table.items()]


def target_of(case, p):
    """the out path of in-file p, as SPELLED by the step arguments"""
    out = case.get('out')
    if out is None:
        return None
    if out == '' or out.endswith('/'):
        return out + os.path.basename(p)
    return out


def resolve_targets(case, root, paths):
    """[[p, file that p's out path DENOTES or None]] - computed on the populated directory before
    the run.  'Same file' is decided as the operating system does (os.path.samefile: symbolic
    links, hard links, '..' and '.' spellings all name the in file), any other spelling is
    canonicalised with realpath (a symlink to another file denotes that file)."""
    res = []
    for p in paths:
        t = target_of(case, p)
        if t is None:
            res.append([p, None])
            continue
        at, ap = os.path.join(root, t), os.path.join(root, p)
        if os.path.isfile(at) and os.path.isfile(ap) and os.path.samefile(at, ap):
            res.append([p, p])
        else:
            res.append([p, os.path.relpath(os.path.realpath(at), os.path.realpath(root))])
    return res


def in_place(targets, p):
    for q, t in targets:
        if q == p:
            return t is None or t == p
    return True
