"""C12 custom pipeline loader that WRAPS the file loader: it looks for a pipeline called `child` in
an alternative directory first and otherwise delegates to pypyr.loaders.file, handing back the
file loader's own PipelineDefinition object (the one held by the process-wide file_cache)."""
import c12_state
import pypyr.loaders.file as file_loader


def get_pipeline_definition(pipeline_name, parent):
    alt = c12_state.ALT_DIR[0]
    if alt and str(pipeline_name) == 'child':
        return file_loader.get_pipeline_definition('child', alt)
    return file_loader.get_pipeline_definition(pipeline_name, parent)
