"""C02 — control-of-flow signals are never treated as errors and unwind their scope."""
from props.engine_common import RefProp, EngineProp


class Prop(RefProp):
    id = 'C02'
    props_file = 'theories/Props/C02.v'
    aspects = ('outcome', 'trace-tags', 'errors')
    n_cases = {'quick': 500, 'thorough': 15000}
    profile = {'bodies': {'probe': 38, 'fail': 8, 'incr': 4, 'set': 2, 'call': 14, 'jump': 6, 'switch': 3,
                          'stop': 7, 'stoppipeline': 6, 'stopstepgroup': 7, 'clear': 0, 'clearall': 0, 'pype': 7},
               'p_swallow': 0.45, 'p_retry': 0.3, 'p_foreach': 0.2, 'p_while': 0.15, 'p_handlers': 0.7,
               'n_pipes': (1, 3), 'p_simple': 0.08}
    rule = ('generated pipelines dense in stop / stoppipeline / stopstepgroup / call / jump under swallow, '
            'retry, foreach, while, inside called and jumped-to groups, handlers and child pipelines; '
            'non-trivial = at least two probe events or an error outcome. Monitors: no control-of-flow name '
            'in runErrors, balanced call stack, and the reference interpreter (executed steps, outcome, '
            'runErrors) on the single-pipeline fragment')
    trusted_base = EngineProp.engine_trusted

    def generate(self, rng, n, tier):
        import gen_pipes
        cases = []
        for _ in range(n):
            case = gen_pipes.gen_case(rng, self.profile)
            r = rng.random()
            if r < 0.06:
                gen_pipes.main_parser_failure(rng, case)
            elif r < 0.12:
                gen_pipes.handler_jumps(rng, case)
            cases.append(case)
        return cases
