"""C08 — formatting expressions resolve by the documented substitution/recursion rules."""
import json
import string

import gen_values as G
import pv
from core import PropBase, fail


def run_format(case):
    """Shared by C08/C09: run Context.get_formatted_value on the real code."""
    from pypyr.context import Context
    from pypyr.errors import get_error_name
    opaque = {}
    ctx = Context(pv.to_py({'d': case['ctx']}, opaque))
    val = pv.to_py(case['val'], opaque)
    canon = pv.Canon(opaque)
    before_ctx = canon(dict(ctx))
    before_val = canon(val)
    try:
        out = ctx.get_formatted_value(val)
        res = ['ok', canon(out)]
    except RecursionError:
        res = ['err', 'RecursionError', '']
        out = None
    except Exception as e:
        res = ['err', get_error_name(e), str(e)]
        out = None
    after_ctx = canon(dict(ctx))
    after_val = canon(val)
    return {'res': res, 'ctx_unchanged': pv.pv_equal(before_ctx, after_ctx),
            'val_unchanged': pv.pv_equal(before_val, after_val)}, ctx, val, out


def plain_scalar(v):
    return v is None or isinstance(v, (bool, int)) or (isinstance(v, str) and not G.has_brace(v)) \
        or (isinstance(v, dict) and 'f' in v)


class Prop(PropBase):
    id = 'C08'
    coq_imports = ['PV.Model.Format']
    props_file = 'theories/Props/C08.v'
    n_cases = {'quick': 1500, 'thorough': 40000}
    rule = ('cases = (context, value) with the value a format string built from parts (literal / '
            'escaped brace / field with accessor path, conversion, spec, rf/ff, nested spec), a '
            'special tag, or a small container of those; context values reference earlier keys '
            '(chains to depth 6); 5% malformed strings. non-trivial = result is ok and differs from '
            'the input, or is an error; distinct by case hash')
    trusted_base = [
        'CPython semantics of str.format tokenisation (MarkupIterator) and __format__ are MODELLED '
        '(Model/Format.v parse_fmt, format_field) and validated only by the correspondence run',
        'format specs beyond [[fill]align][width] on str/int, attribute access, !a, non-ASCII json '
        'and set reprs are outside the model (verdict 2, counted)',
        'Tie B (tools/py2coq_c08.py -> Gen/GenC08.v, C08_source_*_is_model): RecursionSpec.__init__, '
        'RecursiveFormatter._format_keep_type / _get_formatted_iterable / vformat and the way Context '
        'builds and calls the formatter are re-translated from the current source and proved equal to '
        'the model; the translator ASSUMES: string.Formatter.parse / get_field / _vformat / '
        'convert_field / format_field (CPython, checked not to be overridden) and the special tags\' '
        'get_value are the model\'s parse / get_field / vformat_std / convert_field / format_field / '
        'eval_pystring, json_dumps (instances in Model/FormatSrc.v; with args=None every numbered or '
        'auto-numbered field raises in get_field, so auto_arg_index stays 0 on every continuing path); '
        'docstrings, used_args book-keeping and check_unused_args are effect-free; memoising by id() '
        'inside one top-level call (memo shared only between calls with the same is_recursive) cannot '
        'change a result; isinstance over the value universe is the table classes_of; '
        'obj.__class__(items) rebuilds a dict / list / tuple / set of the same kind (container '
        'SUBCLASSES are not in the value universe: monitors only); format_spec[:2] / [2:] on UTF-8 '
        'bytes agree with code points because they are only compared with ASCII prefixes',
    ]

    def generate(self, rng, n, tier):
        cases = []
        for _ in range(n):
            if rng.random() < 0.12:
                cases.append(gen_rf_case(rng))
                continue
            if rng.random() < 0.05:
                cases.append(gen_walrus_case(rng))
                continue
            pairs, cmap = G.gen_context(rng)
            avail = [k for k, _ in pairs]
            r = rng.random()
            if r < 0.62:
                val = G.gen_fmt_string(rng, avail, cmap)
            elif r < 0.80:
                val = G.gen_tagged(rng, avail, cmap)
            else:
                val = G.gen_tree(rng, 2, lambda g: G.gen_leaf_fmt(g, avail, cmap, 0.5))
            cases.append({'ctx': pairs, 'val': val})
        return cases

    def run_impl(self, case):
        obs, ctx, val, out = run_format(case)
        # second oracles, computed on the implementation side
        v = case['val']
        if isinstance(v, str):
            try:
                obs['parse'] = [list(t) for t in string.Formatter().parse(v)]
            except ValueError as e:
                obs['parse'] = ['err', str(e)]
        if isinstance(v, dict) and 'py' in v:
            try:
                obs['plain_eval'] = ['ok', pv.Canon()(eval(pv.render_expr(v['py']), {}, dict(ctx)))]
            except Exception as e:
                obs['plain_eval'] = ['err', type(e).__name__]
        if isinstance(v, dict) and 'jsonify' in v and obs['res'][0] == 'ok':
            try:
                inner = ctx.get_formatted_value(val.value)
                obs['json_of_formatted'] = json.dumps(inner)
            except Exception as e:
                obs['json_of_formatted'] = None
        return obs

    def coq_check(self, case, obs):
        ctx = pv.coq_dict(case['ctx'])
        val = pv.coq_val(case['val'])
        res = obs['res']
        if res[0] == 'err' and res[1] == 'RecursionError':
            # Python ran out of stack: the model must run out of fuel (or be out of fragment)
            return f'(if is_unsup (format_value FUEL {ctx} {val}) then 0 else 1)%nat'
        return f'(verdict val_eqb (format_value FUEL {ctx} {val}) {pv.coq_res(res, pv.coq_val)})'

    def coq_model_obs(self, case):
        return f'format_value FUEL {pv.coq_dict(case["ctx"])} {pv.coq_val(case["val"])}'

    # ---- monitors: written from the property statement, not from the model
    def monitor(self, case, obs):
        out = []
        v = case['val']
        res = obs['res']
        cmap = {k: x for k, x in case['ctx']}
        try:
            want = ref_format(v, cmap, False, 0)
        except RefUnsupported:
            want = None
        except RefMissing:
            want = 'missing'
        if want == 'missing':
            pass        # covered by missing-key-raises below
        elif want is not None and not (res[0] == 'ok' and pv.pv_equal(res[1], want)):
            out.append(fail('documented-rules', f'{v!r} formatted to {res!r}; the documented rules '
                                                f'(single-expression / one-level / rf / ff) give {want!r}'))
        if isinstance(v, dict) and 'sic' in v:
            if res != ['ok', v['sic']]:
                out.append(fail('sic-verbatim', f'!sic {v["sic"]!r} formatted to {res!r}'))
        if isinstance(v, dict) and 'py' in v and 'plain_eval' in obs:
            pe = obs['plain_eval']
            if pe[0] == 'ok' and res[0] == 'ok' and not pv.pv_equal(pe[1], res[1]) \
                    and not _has_obj(pe[1]):
                out.append(fail('py-evaluates', f'!py gave {res[1]!r}, plain eval gives {pe[1]!r}'))
            if pe[0] == 'ok' and res[0] == 'err':
                out.append(fail('py-evaluates', f'!py raised {res!r}, plain eval gives {pe[1]!r}'))
        if isinstance(v, dict) and 'jsonify' in v and res[0] == 'ok':
            if obs.get('json_of_formatted') is not None and res[1] != obs['json_of_formatted']:
                out.append(fail('jsonify', f'!jsonify gave {res[1]!r}, json of formatted value is '
                                           f'{obs["json_of_formatted"]!r}'))
        if isinstance(v, str) and isinstance(obs.get('parse'), list) and obs['parse'][:1] != ['err']:
            items = obs['parse']
            fields = [(lit, name, spec, conv) for lit, name, spec, conv in items if name is not None]
            firsts = [_first(name) for _, name, _, _ in fields]
            # missing key -> key-lookup error, never a partial result
            missing = [f for f in firsts if f not in cmap and not f.isdigit() and f != '']
            if missing and res[0] == 'ok':
                out.append(fail('missing-key-raises', f'{v!r} references absent {missing[0]!r} but '
                                                      f'formatted to {res[1]!r}'))
            plain = all(n == f and s == '' and f in cmap and plain_scalar(cmap[f])
                        for (_, n, s, _), f in zip(fields, firsts))
            nent = sum(1 for lit, *_ in items if lit) + len(fields)
            if plain and fields:
                # python's own str.format is the oracle for flat references
                try:
                    want = v.format(**{k: pv.to_py(x) for k, x in cmap.items() if plain_scalar(x)})
                except Exception:
                    want = None
                if want is not None:
                    if nent >= 2 and res != ['ok', want]:
                        out.append(fail('mixed-is-flat-string', f'{v!r} -> {res!r}, str.format gives {want!r}'))
                    if nent == 1 and fields[0][3] is None:
                        src = cmap[firsts[0]]
                        if not (res[0] == 'ok' and pv.pv_equal(res[1], src)):
                            out.append(fail('single-expr-keeps-type',
                                            f'{v!r} with {firsts[0]}={src!r} -> {res!r}'))
            # the rf / ff flag is the first two characters of the spec and nothing more: the rest is the
            # standard format spec, applied as python's format() does. Oracle: str.format on the same
            # string with the flags cut off, for plain scalar values without braces of their own.
            flagged = all(n == f and f in cmap and plain_scalar(cmap[f]) and not G.has_brace(cmap[f])
                          and '{' not in s and (s[:2] in ('rf', 'ff') or s == '' or s[0] not in 'rf')
                          for (_, n, s, _), f in zip(fields, firsts))
            if flagged and fields and any(s[:2] in ('rf', 'ff') and len(s) > 2 for _, _, s, _ in fields):
                stripped = ''.join(
                    lit.replace('{', '{{').replace('}', '}}') +
                    ('' if n is None else '{' + n + ('!' + c if c else '') +
                     ((':' + (sp[2:] if sp[:2] in ('rf', 'ff') else sp)) if (sp[2:] if sp[:2] in ('rf', 'ff') else sp) else '') + '}')
                    for lit, n, sp, c in items)
                try:
                    want = stripped.format(**{k: pv.to_py(x) for k, x in cmap.items() if plain_scalar(x)})
                except Exception:
                    want = None
                if want is not None and not (res[0] == 'ok' and res[1] == want):
                    out.append(fail('flag-then-standard-spec',
                                    f'{v!r} -> {res!r}; with the rf/ff flags cut off str.format gives {want!r}'))
            if len(items) == 1 and len(fields) == 1 and not items[0][0]:
                lit, name, spec, conv = items[0]
                if spec == 'ff' and conv is None and name in cmap and not _has_obj(cmap[name]) \
                        and not isinstance(cmap[name], dict):
                    if not (res[0] == 'ok' and pv.pv_equal(res[1], cmap[name])):
                        out.append(fail('ff-is-flat', f'{v!r} with {name}={cmap[name]!r} -> {res!r}'))
            if not fields and res[0] == 'ok':
                want = ''.join(lit for lit, *_ in items)
                if res[1] != want:
                    out.append(fail('escapes', f'{v!r} -> {res[1]!r}, expected {want!r}'))
        return out

    def nontrivial(self, case, obs):
        r = obs['res']
        return r[0] == 'err' or not pv.pv_equal(r[1], case['val'])

    def describe(self, case, obs):
        v = case['val']
        tags = ['res:' + (obs['res'][0] if obs['res'][0] == 'ok' else obs['res'][1])]
        if isinstance(v, str):
            tags.append('val:str')
            if isinstance(obs.get('parse'), list) and obs['parse'][:1] != ['err']:
                nf = sum(1 for it in obs['parse'] if it[1] is not None)
                tags.append(f'fields:{min(nf, 3)}')
                if any(it[2] for it in obs['parse'] if it[1] is not None):
                    tags.append('has-spec')
                if any(it[3] for it in obs['parse'] if it[1] is not None):
                    tags.append('has-conv')
                if any((it[2] or '').startswith(('rf', 'ff')) for it in obs['parse'] if it[1] is not None):
                    tags.append('rf/ff')
            else:
                tags.append('parse-error')
        elif isinstance(v, dict):
            tags.append('val:' + next(iter(v)))
        else:
            tags.append('val:scalar')
        return tags


def _first(name):
    for i, c in enumerate(name):
        if c in '.[':
            return name[:i]
    return name


def _has_obj(v):
    if isinstance(v, dict):
        if 'obj' in v:
            return True
        return any(_has_obj(x) for x in v.values())
    if isinstance(v, list):
        return any(_has_obj(x) for x in v)
    return False


# ---- a clean-room evaluator of the DOCUMENTED rules on a small fragment: '{ident}' fields with
# spec '' / 'rf' / 'ff', plain scalars, strs, lists, tuples, dicts. Written from the property text.
class RefUnsupported(Exception):
    pass


class RefMissing(Exception):
    pass


def ref_str(x):
    if isinstance(x, bool) or x is None or isinstance(x, int):
        return str(x)
    if isinstance(x, str):
        return x
    raise RefUnsupported()


def ref_format(v, cmap, rec, depth):
    if depth > 40:
        raise RefUnsupported()
    if v is None or isinstance(v, (bool, int)):
        return v
    if isinstance(v, str):
        if '{' not in v and '}' not in v:
            return v
        try:
            items = list(string.Formatter().parse(v))
        except ValueError:
            raise RefUnsupported()
        # literal text comes out of parse() already un-escaped ({{ -> {) and is emitted as it is
        fields = [it for it in items if it[1] is not None]
        for lit, name, spec, conv in fields:
            if conv or spec not in ('', 'rf', 'ff') or not name.isidentifier():
                raise RefUnsupported()
        nent = sum(1 for it in items if it[0]) + len(fields)
        if nent == 1 and len(fields) == 1:
            name, spec = fields[0][1], fields[0][2]
            if name not in cmap:
                raise RefMissing()
            obj = cmap[name]
            if spec == 'ff':
                return obj
            return ref_format(obj, cmap, True if spec == 'rf' else rec, depth + 1)
        out = []
        for lit, name, spec, conv in items:
            out.append(lit)
            if name is None:
                continue
            if name not in cmap:
                raise RefMissing()
            obj = cmap[name]
            if spec == 'rf' or (rec and spec != 'ff'):
                obj = ref_format(obj, cmap, True, depth + 1)
            out.append(ref_str(obj))
        return ''.join(out)
    if isinstance(v, dict):
        if 'sic' in v:
            return v['sic']         # !sic: the literal text, whatever it is (also the empty string)
        if 'py' in v:
            # !py: what plain Python gives for the expression, names resolved in the context; names the
            # expression binds itself (:=) live for this one evaluation only
            try:
                scope = {k: pv.to_py(x) for k, x in cmap.items() if isinstance(k, str)}
                out = pv.Canon()(eval(pv.render_expr(v['py']), {}, scope))
            except Exception:
                raise RefUnsupported()
            if _has_obj(out):
                raise RefUnsupported()      # opaque objects are compared by identity elsewhere
            return out
        if 'l' in v:
            return {'l': [ref_format(x, cmap, rec, depth + 1) for x in v['l']]}
        if 't' in v:
            return {'t': [ref_format(x, cmap, rec, depth + 1) for x in v['t']]}
        if 's' in v:
            ms = [ref_format(x, cmap, rec, depth + 1) for x in v['s']]
            if any(not isinstance(m, (str, int)) or isinstance(m, bool) for m in ms):
                raise RefUnsupported()
            return {'s': sorted({repr(m): m for m in ms}.values(), key=pv.set_sort_key)}
        if 'd' in v:
            ks = [ref_format(k, cmap, rec, depth + 1) for k, _ in v['d']]
            if any(not isinstance(k, (str, int)) or isinstance(k, bool) for k in ks) or len(set(map(repr, ks))) != len(ks):
                raise RefUnsupported()
            return {'d': [[k, ref_format(x, cmap, rec, depth + 1)] for k, (_, x) in zip(ks, v['d'])]}
    raise RefUnsupported()


def gen_walrus_case(rng):
    """several !py strings formatted in ONE call on one context: a name bound with := in one of them must
    not be visible to the next, which reads the context key of that name."""
    k = rng.choice(['n', 'k', 'flag'])
    ctxv = {'n': 3, 'k': 'x', 'flag': True}[k]
    bound = {'n': ['int', 5], 'k': ['str', 'bound'], 'flag': ['bool', False]}[k]
    w = rng.choice(['walrus', 'walrus_ns'])
    binder = {'py': rng.choice([[w, k, bound], ['tuple', [[w, k, bound], ['name', k]]],
                                ['cmp', 'eq', [w, k, bound], bound]])}
    reader = {'py': rng.choice([['name', k], ['tuple', [['name', k], ['int', 1]]], ['list', [['name', k]]]])}
    shape = rng.choice(['l', 'd', 'nested', 't'])
    if shape == 'l':
        val = {'l': [binder, reader, 'txt {' + k + '}']}
    elif shape == 't':
        val = {'t': [binder, reader]}
    elif shape == 'd':
        val = {'d': [['a', binder], ['b', reader], ['c', '{' + k + '}']]}
    else:
        val = {'l': [{'d': [['x', binder]]}, {'l': [reader, reader]}]}
    return {'ctx': [['n', 3], ['k', 'x'], ['flag', True], ['other', 1]], 'val': val}


def gen_rf_case(rng):
    """rf / ff through containers: elements that are mixed text referencing keys that hold
    further expressions."""
    c = rng.choice(['C', 'see', 7, 'x {{y}} z', '{{not an expr}}', {'sic': 'keep {y} raw'}, '{d:ff}', '{d}'])
    ctx = [['y', 'SURPRISE'], ['d', rng.choice(['{y}', 'd {{y}}', 5])],
           ['c', c], ['b', rng.choice(['{c}', 'b{c}b', '{c}{c}'])],
           ['a', rng.choice(['{b}', 'a {b}', '{b} {c}'])]]
    elems = [rng.choice(['x {b} y', '{b}', '{a}!', 'plain', '{a} and {b}', 3]) for _ in range(rng.randrange(1, 4))]
    kind = rng.choice(['l', 'l', 't', 'd', 'nested'])
    if kind == 'l':
        cont = {'l': elems}
    elif kind == 't':
        cont = {'t': elems}
    elif kind == 'd':
        # keys are string nodes too: mixed text over a key that holds a further expression
        keyf = rng.choice(['k%d', 'k%d', 'k%d-{b}', '{a}-k%d', 'k%d {{lit}} {b}'])
        cont = {'d': [[keyf % i, e] for i, e in enumerate(elems)]}
    else:
        cont = {'l': [{'d': [['in', elems[0]]]}, {'t': elems}]}
    ctx.append(['cont', cont])
    val = rng.choice(['{cont:rf}', '{cont}', '{cont:ff}', {'l': ['{cont:rf}', '{a:rf}']}, '{a:rf}', 'pre {a:rf} post',
                      {'d': [['k', '{cont:rf}']]}, '{a}', 'mix {a} {b:rf} {c:ff}'])
    if rng.random() < 0.3:
        # siblings that refer to the SAME context value with different recursion flags: each member
        # formats as it would on its own, whatever the order
        k = rng.choice(['a', 'cont', 'b'])
        pair = [rng.choice(['{%s}', '{%s:ff}']) % k, '{%s:rf}' % k]
        if rng.random() < 0.5:
            pair.reverse()
        shape = rng.choice(['l', 't', 'd', 'nested'])
        val = {'l': pair} if shape == 'l' else {'t': pair} if shape == 't' else \
            {'d': [['p', pair[0]], ['q', pair[1]]]} if shape == 'd' else \
            {'d': [['p', {'l': [pair[0]]}], ['q', {'d': [['r', pair[1]]]}]]}
    return {'ctx': ctx, 'val': val}
