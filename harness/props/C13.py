"""C13 — caches are transparent, single-flight and never remember failures."""
import c13_monitor
import pv
from core import PropBase

COLLIDING = [
    [['/x', 'a+b'], ['/x+a', 'b']],
    [[None, 'q+r'], ['q', 'r']],
    [['p', 'n+m+k'], ['p+n', 'm+k'], ['p+n+m', 'k']],
]
PLAIN_REQS = [['/x', 'a'], ['/x', 'b'], ['/y', 'a'], [None, 'a'], ['', 'a'], [None, 'b'], ['/x+y', 'a']]
NS_SOURCES = [('import math', True), ('import json', True), ('from os import path', True),
              ('import zz_c13_no_such_module', False), ('from zz_c13_nope import thing', False)]
FILE_REQS = [['x', 'a+b'], ['x+a', 'b'], ['x', 'b'], ['y', 'b'], ['y', 'n'], ['q', 'r'], ['p+q', 'r+s'],
             ['p', 'q+r+s']]
SEQ_TARGETS = ['cache', 'step', 'parser', 'loadercache', 'backoff', 'namespace', 'fileloader', 'fileloader']
NAMES = ['m1', 'm2', 'pkg.mod', 'a+b']


def coq_req(r):
    return f'({pv.coq_opt(r[0], pv.coq_str)}, {pv.coq_str(r[1])})'


def coq_op(op):
    if op[0] == 'get':
        return f'OGet {coq_req(op[1:3])} {pv.coq_bool(op[3] is True)}'   # 'bad' payload = the creator fails
    return 'OClear'


def coq_event(e):
    tag, t = e[0], f'{e[1]}%nat'
    if tag in ('acq', 'rel', 'clear', 'cleared'):
        return {'acq': 'EAcq', 'rel': 'ERel', 'clear': 'EClear', 'cleared': 'ECleared'}[tag] + f' {t}'
    if tag in ('call', 'failed', 'raise'):
        return {'call': 'ECall', 'failed': 'EFailed', 'raise': 'ERaise'}[tag] + f' {t} {coq_req(e[2])}'
    if tag in ('created', 'load', 'store', 'ret'):
        c = {'created': 'ECreated', 'load': 'ELoad', 'store': 'EStore', 'ret': 'ERet'}[tag]
        return f'{c} {t} {coq_req(e[2])} {pv.coq_Z(e[3])}'
    raise ValueError(e)


def coq_args(case):
    progs = pv.coq_list([pv.coq_list([coq_op(o) for o in p]) for p in case['progs']])
    n = len(case['progs'])
    sched = pv.coq_list([f'{t}%nat' for t in case['sched'] if t < n])
    return f'{pv.coq_bool(case["nc"])} {progs} {sched}'


def gen_sched(rng, n, total_ops, complete):
    sched = []
    for _ in range(rng.randint(0, 12 * total_ops)):
        t = rng.randrange(n)
        sched += [t] * rng.choice([1, 1, 1, 2, 3, 5])
    if complete:
        sched += list(range(n)) * (10 * total_ops + 5)
    return sched


class Prop(PropBase):
    id = 'C13'
    coq_imports = ['PV.Model.Cache']
    props_file = 'theories/Props/C13.v'
    n_cases = {'quick': 360, 'thorough': 14000}
    rule = ('cases = (a) schedules: 2-3 real threads, 1-3 operations each (get with succeeding / '
            'raising creator, clear) on 1-3 keys of one real Cache (directly, as the real StepCache / '
            'BackoffCache - whose clear() rebinds the dict -, or behind '
            'Loader.get_pipeline with (parent, name) requests incl. the ones that collided under the pre-0c7650b joined-string key), an '
            'arbitrary interleaving at instruction granularity (lock-acquire, membership test, load, '
            'creator-enter, creator-exit, store, release, return) followed by a round-robin suffix '
            'that lets every thread finish (85%) or cut off mid-flight (15%); no_cache on in 15%; '
            '(b) sequential histories of 4-9 get/fail/clear on the real StepCache, '
            'ContextParserCache, LoaderCache, BackoffCache, NamespaceCache, and Loader + real file '
            'loader + file cache on real yaml files. non-trivial = at least 4 observed events; '
            'distinct by case hash. thorough adds every interleaving prefix of depth 11 (2048 each) for '
            'four two-thread program pairs (get/get, fail/get, get/clear, colliding requests)')
    trusted_base = [
        'PARTIAL: threading.Lock is assumed to be a mutex and dict membership/get/set/clear to be '
        'atomic (GIL); in the replay the lock is replaced by a controller-driven mutex and the dict by a '
        'gated dict subclass, so real lock contention is never exercised',
        'the instruction list of Cache.get / Cache.clear in Model/Cache.v is hand-written; it is tied to '
        '/repo by replaying model schedules step for step on real threads and comparing complete event logs',
        'Tie B (tools/py2coq_c13.py -> Gen/GenC13.v, proofs in Proofs/GenC13Proofs.v): the control-flow '
        'tables of Cache.get / Cache.clear and the key expression of Loader.get_pipeline are regenerated '
        'from the current source on every build and proved to be the model. The translator assumes: '
        'docstrings, logger.* calls and `pass` are dropped as effect-free; the parameters of get are '
        '(self, key, creator); self._lock / self._cache / config are the lock, the dict and the pypyr '
        'config; each of config.no_cache, `key in d`, d[key], d[key] = x, d.clear(), lock enter / exit is one '
        'atomic step and a creator call two (enter, exit) - the granularity of the hand-written '
        'instruction semantics `nstep` in Model/Cache.v, which is trusted as the meaning of those Python '
        'statements (incl. `with`: release on normal and on exceptional exit); bisimilar nodes are merged '
        '(hash-consing) before numbering. add_sys_path, the Cache subclasses and get_pype_loader are NOT '
        'translated (hand model + correspondence run only)',
        'a pipeline loader that returns a malformed (non-mapping) payload is modelled as a raising creator: '
        'the creator of the pipeline cache is Loader._load_pipeline, which refuses such a payload',
        'get_module layer: importlib (sys.modules + its per-module lock) is treated as one more instance of '
        'the same protocol (key = module name, creator = executing the module body); the replay holds a real '
        'module half-imported and relies on introspecting importlib._bootstrap._blocking_on (CPython 3.12) to '
        'know that the other threads are blocked, with a bounded wait as fall-back',
        'creators are modelled as: succeed with a fresh object or raise; a creator that re-enters the '
        'same cache (deadlock on the non-reentrant lock) is outside the model',
        'BackoffCache starts with (and clears to) the built-in back-offs: only custom names are replayed '
        'against the model, built-ins are covered by a monitor; LoaderCache.clear_pipes reads _cache without '
        'the lock and is not part of the modelled clear',
        'pypyr.moduleloader.add_sys_path is modelled separately (second transition system in Model/Cache.v) '
        'and replayed the same way, with sys.path / _known_dirs replaced by gated list / set subclasses; '
        'Path.exists() is an input of the model',
        'parent objects are modelled by their str(); a parent whose str() is empty but which is truthy is '
        'outside the model',
    ]

    # ------------------------------------------------------------------ generation
    EXHAUSTIVE_PAIRS = [
        [[['get', None, 'a', True]], [['get', None, 'a', True]]],
        [[['get', None, 'a', False]], [['get', None, 'a', True]]],
        [[['get', None, 'a', True]], [['clear']]],
        [[['get', '/x', 'a+b', True]], [['get', '/x+a', 'b', True]]],
    ]

    def exhaustive(self, depth):
        """every interleaving prefix of two threads to the given depth, then round-robin"""
        out = []
        for progs in self.EXHAUSTIVE_PAIRS:
            target = 'loader' if progs[0][0][1] else 'cache'
            for bits in range(2 ** depth):
                sched = [(bits >> i) & 1 for i in range(depth)] + [0, 1] * 20
                out.append({'kind': 'sched', 'target': target, 'nc': False, 'progs': progs,
                            'sched': sched, 'complete': True})
        return out

    def generate(self, rng, n, tier):
        cases = []
        if tier == 'thorough' and n >= 10000:
            cases = self.exhaustive(11)
            n -= len(cases)
        for _ in range(n):
            r = rng.random()
            if r < 0.55:
                cases.append(self.gen_sched_case(rng))
            elif r < 0.67:
                cases.append(self.gen_syspath_case(rng))
            elif r < 0.73:
                cases.append(self.gen_import_case(rng))
            else:
                cases.append(self.gen_seq_case(rng))
        return cases

    def gen_ops(self, rng, reqs, nops, p_clear=0.2, p_fail=0.25, okmap=None, p_bad=0.0):
        ops = []
        for _ in range(nops):
            if rng.random() < p_clear:
                ops.append(['clear'])
            else:
                r = rng.choice(reqs)
                ok = okmap[tuple(r)] if okmap is not None else rng.random() >= p_fail
                if okmap is None and rng.random() < p_bad:
                    ok = 'bad'      # the loader returns a malformed (non-mapping) payload
                ops.append(['get', r[0], r[1], ok])
        return ops

    def gen_parked_case(self, rng, target, reqs):
        """a look-up that has entered get() but not yet taken the lock, then a COMPLETED clear(),
        optionally another look-up of the same key, then the parked look-up proceeds"""
        r = reqs[0]
        get = ['get', r[0], r[1], True]
        pre, post = rng.random() < 0.5, rng.random() < 0.6
        progs = [[get] + ([get] if rng.random() < 0.3 else []),
                 ([get] if pre else []) + [['clear']] + ([get] if post else [])]
        sched = ([1] * 8 if pre else []) + [0] + [1] * 4 + ([1] * 8 if post else [])
        if rng.random() < 0.4:
            progs.append([['get', r[0], r[1], rng.random() < 0.8]])
            sched += [2] * rng.randint(0, 8)
        n = len(progs)
        total = sum(len(p) for p in progs)
        sched += list(range(n)) * (10 * total + 5)
        return {'kind': 'sched', 'target': target, 'nc': False, 'progs': progs, 'sched': sched,
                'complete': True, 'shape': 'parked-before-lock-then-clear'}

    def gen_sched_case(self, rng):
        target = rng.choice(['cache', 'cache', 'loader', 'loader', 'loader', 'backoff', 'backoff', 'step'])
        n = rng.choice([2, 2, 3])
        if target in ('backoff', 'step'):
            reqs = [[None, k] for k in rng.sample(['m1', 'm2', 'pkg.mod'], rng.choice([1, 2, 2]))]
        elif target == 'cache':
            reqs = [[None, k] for k in rng.sample(['a', 'b', 'c', 'a+b'], rng.choice([1, 2, 2, 3]))]
        elif rng.random() < 0.25:
            reqs = list(rng.choice(COLLIDING))
            if rng.random() < 0.5:
                reqs.append(rng.choice(PLAIN_REQS))
        else:
            reqs = rng.sample(PLAIN_REQS, rng.choice([1, 2, 2, 3]))
        if rng.random() < 0.25:
            return self.gen_parked_case(rng, target, reqs)
        progs = [self.gen_ops(rng, reqs, rng.choice([1, 2, 2, 3]), p_bad=0.15 if target == 'loader' else 0.0)
                 for _ in range(n)]
        total = sum(len(p) for p in progs)
        complete = rng.random() < 0.85
        return {'kind': 'sched', 'target': target, 'nc': rng.random() < 0.15, 'progs': progs,
                'sched': gen_sched(rng, n, total, complete), 'complete': complete}

    IMPORT_VIAS = ['step', 'parser', 'loader', 'backoff', 'namespace', 'get_module']

    def gen_import_case(self, rng):
        n = rng.choice([2, 2, 3])
        vias = [rng.choice(self.IMPORT_VIAS) for _ in range(n)]
        # the model run: thread 0 up to inside the creator, the others try (blocked), 0 finishes, they load
        sched = [0] * 4 + [t for t in range(1, n) for _ in range(2)] + [0] * 4 + \
                [t for t in range(1, n) for _ in range(6)]
        return {'kind': 'import', 'target': 'get_module', 'nc': rng.random() < 0.4, 'vias': vias,
                'progs': [[['get', None, 'slowmod', True]] for _ in range(n)], 'sched': sched,
                'complete': True}

    def gen_syspath_case(self, rng):
        names = rng.sample(['d1', 'd2', 'd+3', 'nope'], rng.choice([1, 2, 2, 3]))
        dirs = {nm: nm != 'nope' for nm in names}
        pre = [nm for nm in names if dirs[nm] and rng.random() < 0.2]
        n = rng.choice([2, 2, 3])
        progs = [[rng.choice(names) for _ in range(rng.choice([1, 2, 2, 3]))] for _ in range(n)]
        total = sum(len(p) for p in progs)
        complete = rng.random() < 0.85
        sched = []
        for _ in range(rng.randint(0, 8 * total)):
            sched += [rng.randrange(n)] * rng.choice([1, 1, 1, 2, 3])
        if complete:
            sched += list(range(n)) * (7 * total + 5)
        return {'kind': 'syspath', 'target': 'add_sys_path', 'nc': False, 'dirs': dirs, 'pre': pre,
                'as_path': rng.random() < 0.5, 'progs': progs, 'sched': sched, 'complete': complete}

    def gen_seq_case(self, rng):
        target = rng.choice(SEQ_TARGETS)
        nops = rng.randint(4, 9)
        okmap = None
        if target == 'namespace':
            srcs = rng.sample(NS_SOURCES, 3)
            reqs = [[None, s] for s, _ in srcs]
            okmap = {(None, s): ok for s, ok in srcs}
        elif target == 'fileloader':
            reqs = rng.sample(FILE_REQS, rng.choice([2, 3, 4]))
            if rng.random() < 0.5:
                reqs = [['x', 'a+b'], ['x+a', 'b']] + reqs[:1]
            okmap = {tuple(r): rng.choice([True, True, True, True, True, True, False, 'bad']) for r in reqs}
        else:
            reqs = [[None, k] for k in rng.sample(NAMES, rng.choice([1, 2, 3]))]
        ops = self.gen_ops(rng, reqs, nops, okmap=okmap)
        case = {'kind': 'seq', 'target': target, 'nc': rng.random() < 0.2, 'progs': [ops],
                'sched': [0] * (10 * nops + 5), 'complete': True}
        if target == 'loadercache' and rng.random() < 0.7:
            # one of the names is the configured default loader; some of its look-ups are implicit
            case['default'] = rng.choice(reqs)[1]
            ngets = sum(1 for op in ops if op[0] == 'get')
            case['implicit'] = [k for k in range(ngets) if rng.random() < 0.5]
        return case

    # ------------------------------------------------------------------ implementation
    def run_impl(self, case):
        if case['kind'] == 'sched':
            import c13_sched
            return c13_sched.run_schedule(case)
        if case['kind'] == 'syspath':
            import c13_syspath
            return c13_syspath.run_syspath(case)
        if case['kind'] == 'import':
            import c13_import
            return c13_import.run_import(case)
        import c13_seq
        return c13_seq.run_sequential(case)

    # ------------------------------------------------------------------ model
    def asp_parts(self, case):
        pre = pv.coq_list([pv.coq_str(x) for x in case['pre']])
        progs = pv.coq_list([pv.coq_list([f'({pv.coq_str(nm)}, {pv.coq_bool(case["dirs"][nm])})' for nm in p])
                             for p in case['progs']])
        n = len(case['progs'])
        sched = pv.coq_list([f'{t}%nat' for t in case['sched'] if t < n])
        return pre, progs, sched

    def coq_check(self, case, obs):
        if case['kind'] == 'syspath':
            ctor = {'acq': 'AEAcq', 'rel': 'AERel', 'append': 'AEAppend', 'known': 'AEKnown'}
            evs = pv.coq_list([f'{ctor[e[0]]} {e[1]}%nat' + (f' {pv.coq_str(e[2])}' if len(e) > 2 else '')
                               for e in obs['events']])
            app = pv.coq_list([pv.coq_str(x) for x in obs['appended']])
            pre, progs, sched = self.asp_parts(case)
            return f'(check_asp {pre} {progs} {sched} {evs} {app})'
        evs = pv.coq_list([coq_event(e) for e in obs['events'] if not e[0].startswith('_')])
        fn = 'check_full' if case['kind'] == 'sched' else 'check_ops'
        if case['kind'] == 'import':
            # the import system (sys.modules + per-module lock) is the cache; pypyr's no_cache is irrelevant to it
            return f'({fn} {coq_args(dict(case, nc=False))} {evs})'
        return f'({fn} {coq_args(case)} {evs})'

    def coq_model_obs(self, case):
        if case['kind'] == 'syspath':
            pre, progs, sched = self.asp_parts(case)
            return f'(fun a => (rev (alog a), added a)) (arun {sched} (ainit {pre} {progs}))'
        if case['kind'] == 'import':
            return f'filter op_level (model_log {coq_args(dict(case, nc=False))})'
        if case['kind'] == 'sched':
            return f'model_log {coq_args(case)}'
        return f'filter op_level (model_log {coq_args(case)})'

    # ------------------------------------------------------------------ monitors
    def monitor(self, case, obs):
        if case['kind'] == 'syspath':
            return c13_monitor.monitor_syspath(case, obs)
        if case['kind'] == 'import':
            return c13_monitor.monitor_import(case, obs)
        return c13_monitor.monitor_events(case, obs)

    def nontrivial(self, case, obs):
        return len(obs['events']) >= 4

    def describe(self, case, obs):
        tags = [f'kind:{case["kind"]}', f'target:{case["target"]}', f'nc:{case["nc"]}',
                f'threads:{len(case["progs"])}']
        evs = obs['events']
        if case['kind'] == 'import':
            return tags + ['via:' + '+'.join(sorted(set(case['vias'])))] if len(set(case['vias'])) == 1 \
                else tags + ['via:mixed'] + [f'via:{v}' for v in sorted(set(case['vias']))]
        if case['kind'] == 'syspath':
            return tags + ['complete' if case.get('complete') else 'cut-off',
                           'lock-contended' if any(e[0] == 'acq' for e in evs) and len(
                               {e[1] for e in evs if e[0] == 'acq'}) > 1 else 'single-locker',
                           f'appended:{len(obs["appended"])}']
        kinds = {e[0] for e in evs}
        for k in ('failed', 'load', 'clear', 'cleared'):
            if k in kinds:
                tags.append(f'has:{k}')
        if case['kind'] == 'sched':
            if case.get('shape'):
                tags.append('shape:' + case['shape'])
            tags.append('complete' if case.get('complete') else 'cut-off')
            tags.append('lock-contended' if obs.get('blocked_steps') else 'lock-uncontended')
            tags.append(f'sched-len:{min(len(case["sched"]) // 40 * 40, 200)}')
            creates = sum(1 for e in evs if e[0] == 'created')
            tags.append(f'creates:{min(creates, 4)}')
        return tags
