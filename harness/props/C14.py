"""C14 — inline Python sees context as variables but cannot leak into it."""
import c14_gen as G
import c14_lang as L
import c14_run as R
from core import PropBase, fail

COQ_ENV = 'std_mods std_builtins'


MAX_SRC = 420


def valid_source(case):
    try:
        if case['kind'] == 'eval':
            for e in case['exprs']:
                src = L.render(e)
                if len(src) > MAX_SRC:
                    return False
                compile(src, '<c14>', 'eval')
        else:
            src = L.render_block(case['block'])
            if len(src) > 2 * MAX_SRC:
                return False
            compile(src, '<c14>', 'exec')
        return True
    except SyntaxError:
        return False


def case_ctx(case):
    ctx = [list(kv) for kv in case['ctx']]
    if case['kind'] == 'exec':
        ctx.append(['py', L.render_block(case['block'])])
    return ctx


def case_exprs(case):
    if case['kind'] == 'eval':
        return list(case['exprs'])
    return [e for s in case['block'] for e in L.stmt_exprs(s)]


class Prop(PropBase):
    id = 'C14'
    coq_imports = ['PV.Model.PyScope']
    props_file = 'theories/Props/C14.v'
    n_cases = {'quick': 800, 'thorough': 22000}
    rule = ('cases = a context (1-7 keys from a pool that includes names shadowing builtins, imports and '
            'save; int/str/bool/None/list values, lists shared between keys or nested) plus either 1-3 !py '
            'expressions evaluated in sequence on one Context (optionally after a pyimport step) or one '
            'pypyr.steps.py block of 1-6 statements; programs are type-directed random terms of the '
            'mini-Python grammar (names, literals, + == <, list literals, immediately-called lambdas, '
            'comprehensions with 1-3 for clauses, := at module level / in lambdas / in comprehensions, '
            'calls, attribute reads, .append; assign, +=, import a / import a.b.c / import a.b.c as m / from a.b '
            'import c [as d] over a throw-away package written per case and os.path, urllib.parse, '
            'xml.dom.minidom; def, class, save, del), '
            '6% deliberately ill-typed or unbound. 26 hand-written seed cases run first. '
            'non-trivial = the program reads at least one context key and at least one result is a value')
    trusted_base = [
        'CPython 3.12 name resolution for the fragment (LOAD_NAME/STORE_NAME against the locals mapping, '
        'LOAD_GLOBAL/STORE_GLOBAL against a dict subclass, PEP 709 inlined comprehensions, PEP 572 '
        'binding rules) is MODELLED in Model/PyScope.v and validated only by the correspondence run; it is '
        'not derived from CPython',
        'Tie B (tools/py2coq_c14.py -> Gen/GenC14.v, proved equal to the model in Proofs/GenC14Proofs.v): '
        'Context.pystring_globals_update, the namespace of Context.get_eval_string, class '
        '_ChainMapPretendDict (bases / overridden methods / __init__), pyimport.run_step, and the exec '
        'namespace + save of pypyr.steps.py are re-translated from the current source on every run; the '
        'translator and its reading of dict.update / dict.copy / item assignment are trusted',
        'the theorems are parameterised by pypyr\'s own part: per evaluation a namespace object {dict '
        'part: __builtins__; maps: [throw-away scratch; context; imports]} (repair e6daded), exec '
        'globals = shallow copy of context + __builtins__ + save',
        'the import system (a submodule is an attribute of its package once imported; the initial '
        'sys.modules of the worker process is an input of the model) is MODELLED, validated by the '
        'correspondence run and by the plain exec/eval oracle',
        'values: int/bool/str/None, list objects with identity, module-level def/class objects, five '
        'builtins and a table of modules; anything else (strings as iterables, list ordering, instantiation, '
        'id()) is outside the model (verdict 2, counted)',
    ]

    # ------------------------------------------------------------------ cases
    def generate(self, rng, n, tier):
        cases = list(G.seeds())
        tries = 0
        while len(cases) < n + len(G.seeds()) and tries < 20 * n + 100:
            tries += 1
            c = G.gen_eval_case(rng) if rng.random() < 0.58 else G.gen_exec_case(rng)
            if valid_source(c):
                cases.append(c)
        return cases

    def run_impl(self, case):
        obs = R.run_eval_case(case) if case['kind'] == 'eval' else R.run_exec_case(case)
        if len(repr(obs['results'])) + len(repr(obs['ctx'])) > 6000:
            obs['results'] = [[r[0], '<big>'] if r[0] == 'ok' else r for r in obs['results']]
            obs['ctx'] = [[k, '<big>'] for k, _ in obs['ctx']]
            obs['too_big'] = True
        return obs

    # ------------------------------------------------------------------ model side
    def model_term(self, case, loaded0=()):
        n0 = L.coq_nat(len(case['heap']))
        heap = L.coq_heap(case['heap'])
        ctx = L.coq_ns(case_ctx(case))
        env = f'{L.coq_mods(L.case_mods(case))} std_builtins {L.coq_list([L.coq_str(m) for m in loaded0])}'
        if case['kind'] == 'eval' and case.get('steps'):
            acts = L.coq_list([f'(AImport {L.coq_list([L.coq_stmt(x) for x in st[1]])})' if st[0] == 'import'
                               else f'(ADrop {L.coq_str(st[1])})' if st[0] == 'drop'
                               else f'(AEval {L.coq_expr(st[1])})' for st in case['steps']])
            return f'(session_case_ld {env} {n0} {heap} {ctx} {acts})'
        if case['kind'] == 'eval':
            imports = L.coq_list([L.coq_stmt(s) for s in case.get('imports', [])])
            exprs = L.coq_list([L.coq_expr(e) for e in case['exprs']])
            return f'(eval_case_ld {env} {n0} {heap} {ctx} {imports} {exprs})'
        block = L.coq_list([L.coq_stmt(s) for s in case['block']])
        return f'(exec_case_ld {env} {n0} {heap} {ctx} {block})'

    def coq_check(self, case, obs):
        if obs.get('too_big'):
            return '2%nat'      # a list grew beyond what is worth printing: outside the compared fragment
        term = f'(check_obs {self.model_term(case, obs.get("loaded0", ()))} {L.coq_obs(obs)})'
        if case['kind'] == 'eval' and self.cpython_scope_quirk(obs):
            # safety net for PEP 709 oddities the model's static exclusion does not anticipate: plain
            # Python itself raises the unbound-local / unbound-cell error and pypyr agrees with it, so a
            # model disagreement is the model's limit (verdict 2), never pypyr's; agreement still counts,
            # and the statement-level monitors (pypyr == plain eval, no leak) apply regardless.
            return f'(match {term} with 1 => 2 | n => n end)%nat'
        return term

    @staticmethod
    def cpython_scope_quirk(obs):
        for r, mine, want in zip(obs['results'], obs.get('plain_results', []), obs.get('plain_eval', [])):
            if r[0] == 'err' and mine == want and (
                    r[1] == 'UnboundLocalError' or (r[1] == 'NameError' and r[2].startswith('cannot access free variable'))):
                return True
        return False

    def coq_model_obs(self, case):
        # replays: the initial sys.modules is whatever this process has; recompute it the way run_impl does
        import sys
        return self.model_term(case, [m for m, _ in L.case_mods(case) if m in sys.modules
                                      and not (case.get('pkg') and m.startswith(case['pkg']))])

    # ------------------------------------------------------------------ monitors (statement only)
    def monitor(self, case, obs):
        out = []
        kb, ka = obs['keys_before'], obs['keys_after']
        added = [k for k in ka if k not in kb]
        removed = [k for k in kb if k not in ka]
        rebound = list(obs['rebound'])
        src = ' ; '.join(obs.get('src', []))[:300]
        if case['kind'] == 'eval':
            top, in_comp = set(), set()
            for e in case['exprs']:
                a, b = L.module_level_walrus(e)
                top |= a
                in_comp |= b
            imported = {n for s in case.get('imports', []) for n in L.stmt_binding_names(s)}
            if obs.get('pyimport_error') and not obs.get('oracle_import_error'):
                out.append(fail('imports-readable', f'pyimport of {R.import_source(case["imports"])!r} raised '
                                                    f'{obs["pyimport_error"]}; plain Python imports it fine',
                                'pyimport-raises'))
            case_keys = {k for k, _ in case['ctx']}
            for k in added + rebound:
                verb = 'added' if k in added else 'rebound'
                if k in top:
                    out.append(fail('eval-no-leak', f'evaluating {src!r} {verb} context key {k!r} '
                                                    f'(assignment expression at the top level of a !py string)',
                                    'walrus-leaks-into-context'))
                elif k == '__builtins__':
                    out.append(fail('eval-no-leak', f'{src!r} put __builtins__ into context', 'builtins-in-context'))
                elif k in imported:
                    out.append(fail('imports-beside-context', f'pyimport / {src!r} {verb} imported name {k!r} in context',
                                    'import-in-context'))
                else:
                    out.append(fail('eval-no-leak', f'evaluating {src!r} {verb} context key {k!r}',
                                    'eval-changes-context'))
            dropped = {st[1] for st in case.get('steps', []) if st[0] == 'drop'}
            for k in removed:
                if k not in dropped:
                    out.append(fail('eval-no-leak', f'evaluating {src!r} removed context key {k!r}', 'eval-removes-key'))
            # value agrees with plain eval in a fresh {**imports, **context}.  The statement promises
            # reads of context keys, builtins and imports; it says nothing about how a name bound by
            # := inside a comprehension of the same expression reads back (CPython makes that a
            # STORE_GLOBAL into the raw dict part, which LOAD_GLOBAL on a dict subclass does not
            # consult) — such expressions are left to the model correspondence, not compared here.
            seen_top = set()
            for i, (mine, want) in enumerate(zip(obs['plain_results'], obs['plain_eval'])):
                a, b = L.module_level_walrus(case['exprs'][i])
                calls_id = any(x[0] == 'call' and x[1] == ['name', 'id'] for x in L.walk(case['exprs'][i]))
                if mine != want and not calls_id and not b and not obs.get('pyimport_error'):      # id() of two copies differs by nature
                    keys_now = set(obs.get('oracle_ctx_keys_at_eval', [[]] * (i + 1))[i]) if case.get('steps') else case_keys
                    reads_import = any(x[0] == 'name' and x[1] in imported and x[1] not in keys_now
                                       for x in L.walk(case['exprs'][i]))
                    reads_leaked = any(x[0] == 'name' and x[1] in seen_top for x in L.walk(case['exprs'][i]))
                    fp = ('walrus-leaks-into-context' if reads_leaked
                          else 'imported-name-not-readable' if reads_import else 'differs-from-plain-eval')
                    out.append(fail('reads-as-plain-variables',
                                    f'{obs["src"][i]!r} gave {mine!r}; plain eval over dict(context) gives {want!r}', fp))
                seen_top |= a
        else:
            block = case['block']
            targets = set(L.save_targets(block))
            assigned, imported, defs, classes, loops = L.block_names(block)
            ok = obs['results'][0][0] == 'ok'
            for k in added:
                if k in targets:
                    continue
                if k == '__builtins__' or obs['builtins_dict_in_ctx']:
                    fp = 'builtins-in-context'
                elif k in imported:
                    fp = 'import-leaks-into-context'
                elif k in defs or k in classes:
                    fp = 'def-or-class-leaks-into-context'
                elif k in assigned or k in loops:
                    fp = 'local-leaks-into-context'
                else:
                    fp = 'exec-adds-key'
                out.append(fail('exec-no-leak', f'py block {src!r} added context key {k!r} without save()', fp))
            for k in removed:
                out.append(fail('exec-no-leak', f'py block {src!r} removed context key {k!r}', 'exec-removes-key'))
            for k in rebound:
                if k not in targets:
                    out.append(fail('exec-no-leak', f'py block {src!r} rebound context key {k!r} without save()',
                                    'exec-rebinds-key'))
            if ok:
                for k in targets:
                    if k not in ka:
                        out.append(fail('save-persists', f'save() target {k!r} missing from context after {src!r}',
                                        'save-not-persisted'))
            out += self.mon_save_at_call(case, obs, src)
            out += self.mon_exec_oracle(case, obs, src)
            if ok:
                out += self.mon_saved_values(case, obs)
            else:
                # a block made only of `x = <literal>` and save(...) whose positional names are bound
                # (context keys or assigned above) and whose keyword values are literals or context
                # keys has nothing in it that can fail
                lit = ('int', 'str', 'bool', 'none')
                bound = {k for k, _ in case['ctx']} - {'save', '__builtins__'}
                safe = True
                for s in block:
                    if s[0] == 'assign' and s[2][0] in lit and s[1] not in ('save', '__builtins__'):
                        bound.add(s[1])
                    elif s[0] == 'save' and all(n in bound for n in s[1]) and \
                            all(e[0] in lit or (e[0] == 'name' and e[1] in bound) for _, e in s[2]):
                        pass
                    else:
                        safe = False
                if safe:
                    out.append(fail('save-persists', f'py block {src!r} raised {obs["results"][0][1:]!r}: every argument '
                                                     f'of save() is a bound name or a literal keyword', 'save-raises'))
        if '__builtins__' in ka and '__builtins__' not in kb and not any(f['fingerprint'] == 'builtins-in-context' for f in out) \
                and '__builtins__' not in (set(L.save_targets(case['block'])) if case['kind'] == 'exec' else set()):
            out.append(fail('no-leak', '__builtins__ appeared in context', 'builtins-in-context'))
        # in-place mutation of a context list through its name stays visible
        out += self.mon_inplace(case, obs, rebound)
        return out

    def mon_save_at_call(self, case, obs, src):
        """save(k) writes context[k] at the moment of the call: the saves of a prefix of the block that cannot
        fail (`x = <literal>`, save of bound names / literal or context-key keywords) have taken effect
        whatever happens afterwards — also when a later statement raises."""
        if obs.get('too_big'):
            return []
        block = case['block']
        lit = ('int', 'str', 'bool', 'none')
        bound = {k for k, _ in case['ctx']} - {'save', '__builtins__'}
        must = {}          # key -> literal value or None (value not checkable)
        n = 0
        for s in block:
            if s[0] == 'assign' and s[2][0] in lit and s[1] not in ('save', '__builtins__'):
                bound.add(s[1])
                if s[1] in must:
                    pass
            elif s[0] == 'save' and all(x in bound for x in s[1]) and \
                    all(e[0] in lit or (e[0] == 'name' and e[1] in bound) for _, e in s[2]):
                for x in s[1]:
                    must[x] = None
                for k, e in s[2]:
                    must[k] = ('lit', None if e[0] == 'none' else e[1]) if e[0] in lit else None
            else:
                break
            n += 1
        later = set(L.save_targets(block[n:]))
        cmap = {k: v for k, v in obs['ctx']}
        out = []
        failed = obs['results'][0][0] != 'ok'
        for k, want in must.items():
            fp = 'save-lost-when-block-raises' if failed else 'save-not-persisted'
            if k not in cmap:
                out.append(fail('save-at-call', f'py block {src!r}: save() of {k!r} ran'
                                + (' before the block raised ' + repr(obs['results'][0][1]) if failed else '')
                                + f' but {k!r} is not in context', fp))
            elif want is not None and k not in later and (type(cmap[k]) is not type(want[1]) or cmap[k] != want[1]):
                out.append(fail('save-at-call', f'py block {src!r}: save({k}={want[1]!r}) ran but context has {cmap[k]!r}', fp))
        return out

    def mon_exec_oracle(self, case, obs, src):
        """the block under plain Python with save writing the real mapping at call time (c14_run.exec_oracle):
        same outcome class, same final context.  Blocks with import statements are left out (what is in
        sys.modules differs between the two runs), so are id() calls."""
        orc = obs.get('oracle')
        if not orc or obs.get('too_big'):
            return []
        block = case['block']
        if any(s[0] in L.IMPORT_KINDS for s in block):
            return []
        if any(x[0] == 'call' and x[1] == ['name', 'id'] for e in case_exprs(case) for x in L.walk(e)):
            return []
        mine = obs['results'][0][0] if obs['results'][0][0] == 'ok' else obs['results'][0][1]
        out = []
        uses_view = any(x[0] == 'name' and x[1] == 'peek' for e in case_exprs(case) for x in L.walk(e))
        if mine != orc['outcome']:
            out.append(fail('exec-as-plain-python', f'py block {src!r} ended with {mine!r}; plain Python with save '
                                                    f'writing at call time ends with {orc["outcome"]!r}',
                            'save-not-at-call-time' if uses_view else 'exec-differs-from-plain-python'))
        elif obs['plain_ctx'] != orc['ctx']:
            diff = [k for k, v in orc['ctx'] if [k, v] not in obs['plain_ctx']] + \
                   [k for k, v in obs['plain_ctx'] if [k, v] not in orc['ctx']]
            fp = ('save-lost-when-block-raises' if mine != 'ok' else
                  'save-not-at-call-time' if uses_view else 'exec-differs-from-plain-python')
            out.append(fail('exec-as-plain-python', f'after py block {src!r} ({mine}) context differs from plain Python '
                                                    f'with save writing at call time, at {sorted(set(diff))[:4]!r}', fp))
        return out

    def mon_saved_values(self, case, obs):
        """save('x') after a plain `x = <literal>` (x bound nowhere else) must put that literal in context;
        so must save(k=<literal>)."""
        if obs.get('too_big'):
            return []            # values were elided from the observation
        block = case['block']
        lit = ('int', 'str', 'bool', 'none')
        binders = {}
        for s in block:
            names = []
            if s[0] in ('assign', 'aug', 'import', 'def', 'class', 'del'):
                names.append(s[1])
            if s[0] == 'from':
                names.append(s[3])
            for e in L.stmt_exprs(s):
                names += [x[1] for x in L.walk(e) if x[0] == 'walrus']
            for n in names:
                binders[n] = binders.get(n, 0) + 1
        final = {}
        for i, s in enumerate(block):
            if s[0] != 'save':
                continue
            for n in s[1]:
                final[n] = None
                prev = [t for t in block[:i] if t[0] == 'assign' and t[1] == n]
                if binders.get(n, 0) == 1 and len(prev) == 1 and prev[0][2][0] in lit and n not in ('save', 'py'):
                    e = prev[0][2]
                    final[n] = ('lit', None if e[0] == 'none' else e[1])
            for k, e in s[2]:
                final[k] = ('lit', None if e[0] == 'none' else e[1]) if e[0] in lit else None
        out = []
        cmap = {k: v for k, v in obs['ctx']}
        for k, want in final.items():
            if want is not None and k in cmap:
                got = cmap[k]
                if type(got) is not type(want[1]) or got != want[1]:
                    out.append(fail('save-persists', f'save() of {k!r} should have stored {want[1]!r}, context has {got!r}',
                                    'saved-value-wrong'))
        return out

    def mon_inplace(self, case, obs, rebound):
        cmap = {k: v for k, v in case['ctx']}
        if case['kind'] == 'eval':
            tops = list(case['exprs'])
            oks = [r[0] == 'ok' for r in obs['results']]
            rebinders = set()
            for e in tops:
                for x in L.walk(e):
                    if x[0] == 'walrus':
                        rebinders.add(x[1])
        else:
            if obs['results'][0][0] != 'ok':
                return []
            tops = [s[1] for s in case['block'] if s[0] == 'expr']
            oks = [True] * len(tops)
            a, i, d, c, lo = L.block_names(case['block'])
            rebinders = a | i | d | c | {s[1] for s in case['block'] if s[0] == 'del'}
        # only when nothing else in the program can touch a list: every other expression is append-free
        all_exprs = case_exprs(case)
        n_app = sum(1 for e in all_exprs for x in L.walk(e) if x[0] == 'append')
        n_aug = sum(1 for s in case.get('block', []) if s[0] == 'aug')
        simple = [(e, ok) for e, ok in zip(tops, oks)
                  if e[0] == 'append' and e[1][0] == 'name' and e[2][0] in ('int', 'str', 'none', 'bool')]
        if not simple or n_app != len(simple) or n_aug:
            return []
        out = []
        counts = {}
        for e, ok in simple:
            k = e[1][1]
            v = cmap.get(k)
            if not ok or not isinstance(v, dict) or 'ref' not in v or k in rebinders or k in ('save', '__builtins__'):
                return []
            counts[v['ref']] = counts.get(v['ref'], 0) + 1
        for k, v in case['ctx']:
            if isinstance(v, dict) and 'ref' in v and v['ref'] in counts and k not in rebound and k in obs['list_lens_after']:
                want = len(case['heap'][v['ref']]) + counts[v['ref']]
                if obs['list_lens_after'][k] != want:
                    out.append(fail('inplace-visible',
                                    f'{k}.append(..) ran {counts[v["ref"]]}x but context[{k!r}] has '
                                    f'{obs["list_lens_after"][k]} items, expected {want}', 'inplace-mutation-lost'))
        return out

    # ------------------------------------------------------------------ evidence helpers
    def nontrivial(self, case, obs):
        keys = {k for k, _ in case['ctx']}
        reads = any(x[0] == 'name' and x[1] in keys for e in case_exprs(case) for x in L.walk(e))
        return reads and any(r[0] == 'ok' for r in obs['results'])

    def describe(self, case, obs):
        tags = ['kind:' + case['kind']]
        for r in obs['results']:
            tags.append('res:' + (r[0] if r[0] == 'ok' else r[1]))
        exprs = case_exprs(case)
        feats = set()
        for e in exprs:
            top, comp = L.module_level_walrus(e)
            if top:
                feats.add('walrus:module-level')
            if comp:
                feats.add('walrus:in-comprehension')
            for x in L.walk(e):
                if x[0] == 'comp':
                    feats.add(f'comp-clauses:{len(x[2])}')
                if x[0] == 'lam':
                    feats.add('lambda')
                    if any(y[0] == 'walrus' for y in L.walk(x[2])):
                        feats.add('walrus:in-lambda')
                    if any(y[0] == 'lam' for y in L.walk(x[2])):
                        feats.add('lambda:nested')
                    if any(y[0] == 'comp' for y in L.walk(x[2])):
                        feats.add('comp-in-lambda')
                if x[0] == 'append':
                    feats.add('append')
        if any(k in G.BUILTINS for k, _ in case['ctx']):
            feats.add('ctx-shadows-builtin')
        for st in (case.get('imports') or []) + [x for x in case.get('block', []) if x[0] in L.IMPORT_KINDS]:
            if st[0] == 'import' and '.' in st[1]:
                feats.add('import:dotted-unaliased')
            elif st[0] == 'importas':
                feats.add('import:dotted-aliased' if '.' in st[1] else 'import:aliased')
            elif st[0] == 'from' and '.' in st[1]:
                feats.add('import:from-dotted')
            elif st[0] == 'fromn':
                feats.add('import:from-several-names')
        if case.get('pkg'):
            feats.add('throwaway-package')
        if any(isinstance(v, dict) and 'view' in v for _, v in case['ctx']):
            feats.add('ctx-has-live-view')
        if case['kind'] == 'exec' and obs['results'][0][0] != 'ok' and any(s[0] == 'save' for s in case['block']):
            feats.add('save-then-raise' if obs['ctx'] != [[k, v] for k, v in obs['ctx'] if k in obs['keys_before']] else 'raise-with-save-in-block')
        if any(st[0] == 'drop' for st in case.get('steps', [])):
            feats.add('ctx-key-hiding-import-dropped')
        if case.get('steps'):
            feats.add(f"pyimport-steps:{sum(1 for st in case['steps'] if st[0] == 'import')}")
            names = [n for st in case['steps'] if st[0] == 'import' for x in st[1] for n in L.stmt_binding_names(x)]
            if len(names) != len(set(names)):
                feats.add('pyimport-rebinds-name')
        if case.get('imports'):
            feats.add('pyimport')
            if any(n in {k for k, _ in case['ctx']} for s in case['imports'] for n in L.stmt_binding_names(s)):
                feats.add('ctx-shadows-import')
        if case['kind'] == 'exec':
            for s in case['block']:
                feats.add('stmt:' + s[0])
        if obs['nsd']:
            feats.add('namespace-dict-part-polluted')
        return tags + sorted(feats)
