"""Shared base for the engine properties (C01-C07, C11, C12)."""
import engine
import gen_pipes
from core import PropBase


class EngineProp(PropBase):
    coq_imports = ['PV.Model.EngineObs']
    profile = {}
    n_cases = {'quick': 600, 'thorough': 20000}
    engine_trusted = [
        'CPython exception semantics (try/except/finally ordering, exception identity) are MODELLED '
        'as outcomes in Model/Engine.v and validated only by the correspondence run',
        'step bodies modelled: probe/fail/incr (harness steps), stop, stoppipeline, stopstepgroup, call, '
        'jump, switch, set, contextclear, contextclearall, pype; every other built-in step, logging, '
        'context parsers and shortcuts are outside the engine model',
        'time.sleep and random.uniform are replaced by recorders in the harness process (virtual clock); '
        'float rounding is not modelled (generated durations are small dyadic rationals, compared exactly)',
        'formatting inside decorators goes through Model/Format.v (see C08 trusted base)',
    ]

    def generate(self, rng, n, tier):
        return [gen_pipes.gen_case(rng, self.profile) for _ in range(n)]

    def run_impl(self, case):
        return engine.run_case(case)

    def coq_check(self, case, obs):
        return engine.coq_obs_check(case, obs)

    def coq_model_obs(self, case):
        return f'show_run {engine.coq_run(case)}'

    def nontrivial(self, case, obs):
        return len(obs['trace']) >= 2 or obs['outcome'][0] == 'err'

    def describe(self, case, obs):
        tags = gen_pipes.features(case)
        tags.append('outcome:' + (obs['outcome'][0] if obs['outcome'][0] == 'ok' else obs['outcome'][1]))
        tags.append('trace-len:' + str(min(len(obs['trace']) // 3 * 3, 15)))
        if obs['sleeps']:
            tags.append('has-sleeps')
        return tags
