"""Shared base for the engine properties (C01-C07, C11, C12)."""
import engine
import gen_pipes
from core import PropBase


class EngineProp(PropBase):
    coq_imports = ['PV.Model.EngineObs']
    profile = {}
    n_cases = {'quick': 600, 'thorough': 20000}
    case_timeout = 30
    engine_trusted = [
        'CPython exception semantics (try/except/finally ordering, exception identity) are MODELLED '
        'as outcomes in Model/Engine.v and validated only by the correspondence run',
        'step bodies modelled: probe/fail/incr (harness steps), stop, stoppipeline, stopstepgroup, call, '
        'jump, switch, set, contextclear, contextclearall, pype; every other built-in step, logging, '
        'context parsers and shortcuts are outside the engine model',
        'time.sleep and random.uniform are replaced by recorders in the harness process (virtual clock); '
        'float rounding is not modelled (generated durations are small dyadic rationals, compared exactly)',
        'formatting inside decorators goes through Model/Format.v (see C08 trusted base)',
        'Tie B: tools/py2coq_ctl.py (translation scheme for try/except/else/finally, bare raise, for; '
        'signature tables; logging/assert/docstrings dropped) regenerates Gen/Control.v from '
        'pypyr/stepsrunner.py, pypyr/dsl.py (Step.invoke_step, run_conditional_decorators, '
        'run_foreach_or_conditional) and pypyr/errors.py on every run; Proofs/CtlProofs.v proves the '
        'generated functions equal to the model; class_of in Model/Ctl.v fixes which Python class an '
        'outcome stands for',
    ]

    def generate(self, rng, n, tier):
        return [gen_pipes.gen_case(rng, self.profile) for _ in range(n)]

    def run_impl(self, case):
        return engine.run_case(case)

    def coq_check(self, case, obs):
        if '"genexp"' in json.dumps(case['lib']):
            # a lazily evaluated generator expression: values of the model are immutable snapshots, so
            # the model is silent here (counted as outside the model); the reference interpreter, which
            # pulls the items one by one against its live context, is the oracle
            return '2%nat'
        return engine.coq_obs_check(case, obs)

    def coq_model_obs(self, case):
        return f'show_run {engine.coq_run(case)}'

    def nontrivial(self, case, obs):
        return len(obs['trace']) >= 2 or obs['outcome'][0] == 'err'

    def describe(self, case, obs):
        tags = gen_pipes.features(case)
        tags.append('outcome:' + (obs['outcome'][0] if obs['outcome'][0] == 'ok' else obs['outcome'][1]))
        tags.append('trace-len:' + str(min(len(obs['trace']) // 3 * 3, 15)))
        if obs['sleeps']:
            tags.append('has-sleeps')
        return tags


# ---------------------------------------------------------------- reference comparison
import json  # noqa: E402
import refinterp  # noqa: E402
import pv  # noqa: E402
from core import fail  # noqa: E402
from fractions import Fraction  # noqa: E402

COF_NAMES = {'pypyr.errors.Stop', 'pypyr.errors.StopPipeline', 'pypyr.errors.StopStepGroup',
             'pypyr.errors.Call', 'pypyr.errors.Jump', 'pypyr.errors.ControlOfFlowInstruction'}


def ref_diffs(case, obs):
    """Compare the real observation with the reference interpreter (statement-level oracle).
    Returns (ref, {aspect: message}); ref is None when the case is outside its fragment."""
    ref = refinterp.reference(case)
    if ref is None:
        return None, {}
    d = {}
    out, rout = obs['outcome'], ref['outcome']
    if out[0] != rout[0] or (out[0] == 'err' and (out[1] != rout[1] or (rout[2] is not None and out[2] != rout[2]))):
        d['outcome'] = f'run ended {out!r}, the documented semantics give {rout!r}'
    otrace = [e['l'] for e in obs['trace']]
    tags = [e[0] for e in otrace]
    rtags = [e[0] for e in ref['trace']]
    if tags != rtags:
        k = next((i for i, (a, b) in enumerate(zip(tags, rtags)) if a != b), min(len(tags), len(rtags)))
        d['trace-tags'] = (f'steps executed {tags!r}, expected {rtags!r} (first difference at position {k})')
    else:
        cnt = [[e[1], e[2], e[3]] for e in otrace]
        rcnt = [[e[1], e[2], e[3]] for e in ref['trace']]
        if cnt != rcnt:
            k = next(i for i, (a, b) in enumerate(zip(cnt, rcnt)) if a != b)
            d['trace-counters'] = (f'at execution {k} ({tags[k]!r}) (i, whileCounter, retryCounter) = '
                                   f'{cnt[k]!r}, expected {rcnt[k]!r}')
        if 'final_counters' in ref and 'trace-counters' not in d:
            # what the loops leave behind in the context when the run is over
            have = dict((k, v) for k, v in obs['ctx'] if isinstance(k, str))
            fin = [have.get(k, {'obj': -1}) for k in ('i', 'whileCounter', 'retryCounter')]
            if not all(pv.pv_equal(a, b) for a, b in zip(fin, ref['final_counters'])):
                d['trace-counters'] = (f'after the run (i, whileCounter, retryCounter) in context = {fin!r}, '
                                       f'expected {ref["final_counters"]!r}')
        w = [e[6]['l'] for e in otrace]
        rw = [e[4] for e in ref['trace']]
        if w != rw:
            k = next(i for i, (a, b) in enumerate(zip(w, rw)) if a != b)
            d['watch'] = f'at execution {k} ({tags[k]!r}) watched context values {w[k]!r}, expected {rw[k]!r}'
    sl = [Fraction(n, dn) for n, dn in obs['sleeps']]
    rs = ref['sleeps']
    bad = len(sl) != len(rs)
    if not bad:
        for a, b in zip(sl, rs):
            if isinstance(b, tuple):
                if not (b[1] <= a <= b[2]):
                    bad = True
            elif a != b:
                bad = True
    if bad:
        d['sleeps'] = f'slept {[str(x) for x in sl]}, expected {[str(x) if not isinstance(x, tuple) else "[%s,%s]" % (x[1], x[2]) for x in rs]}'
    errs = [(e.get('name'), e.get('description'), e.get('step'), e.get('swallowed'), e.get('customError'))
            for e in engine.run_errors(obs)]
    canon = pv.Canon()
    rerrs = [(a, b, c, dd, canon(e)) for a, b, c, dd, e in ref['errors']]
    ok = len(errs) == len(rerrs) and all(
        a[0] == b[0] and (b[1] is None or a[1] == b[1]) and a[2] == b[2] and a[3] == b[3]
        and pv.pv_equal(a[4], b[4])
        for a, b in zip(errs, rerrs))
    if not ok:
        d['errors'] = f'runErrors {errs!r}, expected {rerrs!r}'
    return ref, d


def generic_monitors(case, obs):
    """Statement-level checks that need no reference interpreter."""
    out = []
    for e in engine.run_errors(obs):
        if e.get('name') in COF_NAMES:
            out.append(fail('cof-in-runErrors', f'runErrors contains a control-of-flow instruction: {e.get("name")}'))
    if obs.get('stack_depth_after') not in (0, None):
        out.append(fail('stack-not-balanced', f'pipeline call stack depth after the run is {obs["stack_depth_after"]}'))
    if obs['outcome'][0] == 'ok' and obs.get('returned_same_context') is False:
        out.append(fail('returned-context', 'run() did not return the context the pipeline ran on'))
    # an AttributeError / UnboundLocalError ABOUT pypyr's own objects is nobody's step error: whatever
    # the pipeline does, the caller (and runErrors) only ever see errors raised by steps and decorators
    seen = [(e.get('name'), e.get('description') or '') for e in engine.run_errors(obs)]
    if obs['outcome'][0] == 'err':
        seen.append((obs['outcome'][1], obs['outcome'][2] if len(obs['outcome']) > 2 and obs['outcome'][2] else ''))
    for name, msg in seen:
        if name in ('AttributeError', 'UnboundLocalError') and any(
                t in msg for t in ("'Step' object", "'RetryDecorator' object", "'WhileDecorator' object",
                                   "'Pipeline' object", "'StepsRunner' object", "'steps_runner'",
                                   "'run_step_groups'", "local variable", "cannot access local variable")):
            out.append(fail('internal-error', f'{name}: {msg} - an error about the engine\'s own objects, not one '
                                              f'raised by a step'))
            break
    return out


class RefProp(EngineProp):
    """Engine property whose monitor compares chosen aspects with the reference interpreter."""
    aspects = ()
    known_notes = {}

    def monitor(self, case, obs):
        out = generic_monitors(case, obs)
        ref, d = ref_diffs(case, obs)
        if ref is None:
            return out
        if 'foreach-literal-falsy' in ref['notes'] and 'foreach-literal-falsy' not in self.known_notes:
            # the literal-falsy foreach (finding F7, recorded under C05) is judged by C05 alone
            return out
        for a in self.aspects:
            if a in d:
                fp = a
                for note, kfp in self.known_notes.items():
                    if note in ref['notes']:
                        fp = kfp
                out.append(fail(a, d[a], fp))
        return out

    def describe(self, case, obs):
        tags = super().describe(case, obs)
        tags.append('ref:' + ('applies' if refinterp.reference(case) is not None else 'outside-fragment'))
        return tags
