"""C12 — runs are independent: a run never alters shared definitions or other runs."""
import hashlib
import json
import os

import c12_gen
import c12_lang as L
import c12_run
from core import PropBase, fail

KIND_NAME = {'merge': 'contextmerge'}
# The model is Alias.step (injection deep-copies, pypyr commit d9572b0).  C12_ALIASING_MODEL=1
# compares with the historical Alias.step_aliasing instead - only for replaying a case against a
# checkout of the pre-repair code.
STEP = 'step_aliasing' if os.environ.get('C12_ALIASING_MODEL') else 'step'


def blame_kind(case, pname, idx):
    steps = case[pname]
    if idx is None or idx >= len(steps):
        return 'unknown'
    st = steps[idx]
    if st['kind'] == 'raw':
        return st.get('blame', 'raw')
    return KIND_NAME.get(st['kind'], st['kind'])


def path_class(path):
    """which part of a pipeline definition a changed path lies in."""
    if len(path) >= 4 and path[0] == 'steps' and path[2] == 'in':
        return 'in' if path[3] not in L.RESERVED else 'step-argument'
    return 'step-argument'


def mutation_events(case, run):
    """[(region, blamed step kind, detail)] for every change of a shared definition during this run."""
    out = []
    sigs = [run['sig_before']] + run['sig_at_probe'] + [run['sig_after']]
    nprobe = len(run['sig_at_probe'])
    for name in ('main', 'other', 'child', 'main.info', 'other.info', 'child.info', 'vars', 'shortcuts'):
        if name not in run['sig_before']:
            continue
        for n in range(1, len(sigs)):
            if sigs[n][name] != sigs[n - 1][name]:
                # probe n-1 follows step n-1; a change seen only at the end belongs to the
                # step that failed after the last probe
                idx = n - 1 if n - 1 < nprobe else nprobe
                paths = run['changed_after'].get(name, [])
                out.append((name, blame_kind(case, run['pipe'], idx), paths))
    return out


def event_fingerprint(name, kind, paths):
    if name == 'vars':
        return f'configvars-mutated-via-{kind}'
    if name == 'shortcuts':
        return 'shortcuts-mutated'
    if name.endswith('.info'):
        return 'definition-info-mutated'
    classes = {path_class(p) for p in paths} or {'in'}
    if classes == {'in'}:
        return f'definition-mutated-via-in-{kind}'
    return f'definition-mutated-step-argument-via-{kind}'


class Prop(PropBase):
    id = 'C12'
    coq_imports = ['PV.Model.Alias']
    props_file = 'theories/Props/C12.v'
    n_cases = {'quick': 400, 'thorough': 9000}
    case_timeout = 120
    rule = ('case = two generated pipelines (main 1-5 steps, other 1-3) of set / append / contextmerge / '
            'default / py / contextcopy / configvars steps with `in` containers, foreach and retry '
            'decorators, config.vars, an initial context, optionally run through a config shortcut '
            '(args and/or parser_args), optionally with a context parser (list / keys / keyvaluepairs / '
            'string) fed by the shortcut parser_args and/or caller args_in, and steps growing argList in place; '
            '40% avoid in-place operations on `in`-supplied values (the class that was unsafe before '
            'the repair d9572b0), 60% aim at them; empty list/dict literals as step arguments that '
            'are then grown in place are generated on purpose. Each case: load once, '
            'run main, main, other, main on the same cached definitions with a deep snapshot of '
            'PipelineDefinition.pipeline, config.vars, config.shortcuts around every run and at every '
            'step, then - caches cleared, configuration rebuilt - other, main, other (the opposite order); '
            '30% of the cases are written to a temp dir as two yaml files whose paths differ only in case '
            'and run through the real file loader; 12% contain a (foreach) step calling a step group. '
            'Both tiers add pairs of runs on two real threads (half of them two runs of the SAME cached '
            'pipeline with a foreach step that calls a group), a turnstile step before every step incl. those '
            'of the called group; thorough tier: more pairs on two real threads under a step-granular turnstile '
            '(3 schedules each). non-trivial = some step changed a context container or the definition')
    trusted_base = [
        'PARTIAL: CPython-level atomicity (GIL) of dict/list operations, the logging module and third-party '
        'step modules are NOT modelled; the interleaving theorem is at step granularity, which the '
        'thorough tier realises with a turnstile step between real steps on two real threads',
        'Model/Alias.v is an abstract heap machine (Alias.step = the code after commit d9572b0: `in` and '
        'config.vars are deep-copied into the context): step bodies are the effects (by identity) of '
        'pypyr.steps.set/contextsetf, append, contextmerge, default, py (k.append / k[s]=z), contextcopy, '
        'configvars, and of Step.set/unset_step_input_context, foreach, retry; values are ints, lists, '
        'str-keyed dicts; sets (pypyr.steps.add) and foreach over a !py reference are checked by the '
        'monitors only (regression corpus), not by the model',
        'context parsers are replicated by the harness (c12_lang.parser_ops): what they put into the context '
        'is emitted as SetFmt/SetInt of fresh values, or InjectIn of the shortcut parser_args root when the '
        'list parser is handed that list; strings/bools are encoded as ints in observations and model terms',
        'Tie B (tools/py2coq_c12.py -> Gen/GenC12.v): the table transfer point -> copy discipline is '
        'regenerated from the current source by an abstract interpretation of 8 functions (sources and '
        'sinks per point are a signature table in the translator: e.g. self.in_parameters -> argument 0 of '
        'context.update); it drops docstrings, logger.* calls, asserts; treats copy.deepcopy / list() / '
        'x + y / .copy() / get_formatted_value / get_formatted / vformat as the primitives DEEP / FRESH / '
        'REBUILT (the last established from formatting.py itself: every container branch of '
        '_get_formatted_iterable builds obj.__class__(<generator>) and vformat returns only that); calls '
        'isinstance/len/str/shlex.split/... are assumed not to return their argument; anything else that '
        'receives a source value makes the table UNTRANSLATED (proofs stop compiling)',
        'formatting is modelled as: containers rebuilt, {k} deep copy with the formatter memo, {k:ff} and '
        '!py k the same object (Model/Format.v / C08-C09 cover the string rules)',
        'step bodies\' own arguments (set:, append:, contextMerge:, ...) are modelled as immutable trees: '
        'the code only formats them; the monitor checks them in the real definition '
        '(fingerprint definition-mutated-step-argument-*)',
    ]

    def generate(self, rng, n, tier):
        cases = [c12_gen.gen_case(rng, tier) for _ in range(n)]
        # two runs on real threads under a turnstile: half of them two runs of ONE cached pipeline
        k = max(20, n // 12) if tier == 'thorough' else max(10, n // 8)
        cases += [c12_gen.gen_case(rng, tier, threads=True) for _ in range(k)]
        return cases

    def run_impl(self, case):
        return c12_run.run_case(case)

    # ---------------------------------------------------------------- model
    def coq_check(self, case, obs):
        L.LOADER_SEEN[0] = obs.get('loader', 'vloader')
        if not L.in_model(case):
            return '2%nat'      # sets / foreach over a !py reference: monitors only
        if case.get('threads'):
            return c12_run.coq_threads_check(case, obs, STEP)
        observed = '[' + '; '.join(L.coq_obs(r) for r in obs['runs']) + ']'
        return f'(c12_check {STEP} {L.coq_defs(case)} {L.coq_runs(case, c12_run.ORDER)} {observed})'

    def coq_model_obs(self, case):
        L.LOADER_SEEN[0] = 'pypyr.loaders.file' if (case.get('file_loader') and not case.get('threads')) else 'vloader'
        if not L.in_model(case):
            return '2%nat'
        if case.get('threads'):
            return c12_run.coq_threads_show(case, STEP)
        return f'(c12_show {STEP} {L.coq_defs(case)} {L.coq_runs(case, c12_run.ORDER)})'

    # ---------------------------------------------------------------- monitors (statement only)
    def monitor(self, case, obs):
        out = []
        if not obs['loaded_ok']:
            out.append(fail('loaded-definition-not-pristine',
                            'the freshly loaded definition differs from a re-parse of the same yaml'))
        if not obs.get('same_pipeline_object', True):
            out.append(fail('cache-returned-different-object', 'the loader cache handed out a different '
                            'PipelineDefinition object for the same pipeline within one case'))
        if obs.get('reverse_loaded_ok') is False:
            out.append(fail('loaded-definition-not-pristine',
                            'in the reverse-order pass a freshly loaded definition differs from a re-parse of '
                            'its own yaml (another pipeline was handed out under its name)'))
        runs = list(obs.get('runs', []))
        groups = [('sequential', runs)]
        for th in obs.get('threaded', []):
            groups.append((f'threads schedule {th["schedule"]}', th['runs']))
        if 'solo' in obs:
            groups.insert(0, ('solo', obs['solo']))
        first_fp = None
        for label, rs in groups:
            concurrent = label.startswith('threads')
            for n, r in enumerate(rs):
                if concurrent:
                    # probes of one thread also see the other thread's effects: no per-step blame
                    if r['sig_before'] != r['sig_after']:
                        fp = first_fp or 'definition-mutated-only-when-concurrent'
                        out.append(fail('definition-unchanged',
                                        f'{label}: a shared definition changed while {r["pipe"]} ran; now '
                                        f'differing: {r["changed_after"]}', fp))
                    continue
                for name, kind, paths in mutation_events(case, r):
                    fp = event_fingerprint(name, kind, paths)
                    first_fp = first_fp or fp
                    what = {'vars': 'config.vars', 'shortcuts': 'config.shortcuts'}.get(
                        name, f'cached PipelineDefinition of {name!r}')
                    out.append(fail('definition-unchanged',
                                    f'{label} run #{n} ({r["pipe"]}): {what} no longer deep-equal to what its '
                                    f'loader produced, changed by a {kind} step; paths now differing: '
                                    f'{paths[:4]}', fp))
        # run k of the same pipeline from an equal initial context = run 1
        def same(a, b):
            return (a['outcome'] == b['outcome'] and a['trace'] == b['trace'] and a['final'] == b['final'])
        if runs:
            base = runs[0]
            for n in (1, 3):
                if n < len(runs) and not same(base, runs[n]):
                    dirty = bool(runs[n]['changed_before'])
                    fp = first_fp if (dirty and first_fp) else 'rerun-differs-without-definition-change'
                    out.append(fail('rerun-equal',
                                    f'run #{n} of main from an equal initial context differs from run #0: '
                                    f'outcome {base["outcome"]!r} vs {runs[n]["outcome"]!r}; final context '
                                    f'{json.dumps(base["final"])[:300]} vs {json.dumps(runs[n]["final"])[:300]}'
                                    + ('; a shared definition had been modified by an earlier run' if dirty else ''),
                                    fp))
        # a different order relative to the other pipeline: same trace, outcome and final context
        rev = obs.get('reverse') or []
        clean = not any(mutation_events(case, r) for r in runs + rev)     # nothing changed DURING a run
        first = {}
        for r in runs:
            first.setdefault(r['pipe'], r)
        for n, r in enumerate(rev):
            out_events = mutation_events(case, r)
            for name, kind, paths in out_events:
                fp = event_fingerprint(name, kind, paths)
                first_fp = first_fp or fp
                out.append(fail('definition-unchanged', f'reverse-order run #{n} ({r["pipe"]}): shared '
                                f'definition {name!r} changed by a {kind} step; paths: {paths[:4]}', fp))
            b = first.get(r['pipe'])
            if b is not None and clean and not same(b, r):
                out.append(fail('order-independent',
                                f'{r["pipe"]} run after/before the other pipeline in the opposite order differs '
                                f'from its run in the first order: outcome {b["outcome"]!r} vs {r["outcome"]!r}; '
                                f'final context {json.dumps(b["final"])[:300]} vs {json.dumps(r["final"])[:300]}',
                                'run-depends-on-order-of-pipelines'))
        if 'solo' in obs:
            for th in obs['threaded']:
                for t, (a, b) in enumerate(zip(obs['solo'], th['runs'])):
                    if not same(a, b):
                        dirty = bool(b['changed_after']) or bool(a['changed_after'])
                        fp = first_fp if (dirty and first_fp) else 'concurrent-run-differs-from-solo'
                        out.append(fail('interleaving',
                                        f'thread {t} ({b["pipe"]}) run concurrently under schedule {th["schedule"]} '
                                        f'differs from the same run made alone: outcome {a["outcome"]!r} vs '
                                        f'{b["outcome"]!r}; trace {json.dumps(a["trace"])[:300]} vs '
                                        f'{json.dumps(b["trace"])[:300]}; final {json.dumps(a["final"])[:200]} vs '
                                        f'{json.dumps(b["final"])[:200]}', fp))
        return out

    # ---------------------------------------------------------------- evidence
    def nontrivial(self, case, obs):
        rs = obs.get('runs') or obs['solo'][:1]
        r = rs[0]
        return len(r['trace']) >= 1 and (r['final'] != case['dict_in'] or bool(r['changed_after']))

    def describe(self, case, obs):
        tags = []
        for st in L.all_steps(case):
            tags.append('step:' + st['kind'])
            if st.get('foreach'):
                tags.append('foreach')
            if st.get('retry'):
                tags.append('retry')
        tags = sorted(set(tags))
        rs = obs.get('runs') or obs['solo']
        tags.append('definition-changed' if any(r['changed_after'] for r in rs) else 'definition-intact')
        tags.append('outcome:' + str(rs[0]['outcome']))
        if case.get('shortcut'):
            tags.append('via-shortcut')
        if case.get('parser'):
            tags.append('parser:' + case['parser'])
            src = ('shortcut-parser_args' if case.get('shortcut') and case.get('sc_parser_args') else '') + \
                  ('+args_in' if case.get('args_in') else '')
            tags.append('parser-args-from:' + (src or 'none'))
            if L.in_model(case) and any(o[0] == 'InjectIn' and o[1] == 'argList' for o in L.pipeline_ops(case, 'main')):
                tags.append('argList-is-the-shortcuts-list')
        if case.get('threads'):
            tags.append('threaded-same-pipeline' if case['threads'].get('same') else 'threaded')
        if obs.get('two_loaders'):
            tags.append('wrapping-loader-then-file-loader')
        if case.get('file_loader'):
            tags.append('real-file-loader:' + case['file_loader'].get('layout', 'name'))
        if case.get('vars_yaml'):
            tags.append('config-vars-built-by-ruamel')
        if any(L.has_set(v) for _, v in case['vars']):
            tags.append('config-var-is-a-yaml-set')
        if not L.in_model(case):
            tags.append('monitor-only')
        else:
            disc = all(L.disciplined(L.pipeline_ops(case, p)) for p in ('main', 'other'))
            tags.append('mutates-in-supplied-value:' + ('no' if disc else 'yes'))
        if len(rs) >= 2 and rs[0]['pipe'] == rs[1]['pipe'] and (
                rs[0]['final'] != rs[1]['final'] or rs[0]['outcome'] != rs[1]['outcome']):
            tags.append('rerun-differs')
        return tags
