"""C03 — call returns to its caller, jump does not, switch takes the first true case."""
from props.engine_common import RefProp, EngineProp


class Prop(RefProp):
    id = 'C03'
    props_file = 'theories/Props/C03.v'
    aspects = ('trace-tags', 'trace-counters', 'watch', 'outcome')
    n_cases = {'quick': 500, 'thorough': 15000}
    profile = {'bodies': {'probe': 40, 'fail': 4, 'incr': 6, 'set': 3, 'call': 22, 'jump': 7, 'switch': 8,
                          'stop': 1, 'stoppipeline': 0, 'stopstepgroup': 1, 'clear': 8, 'clearall': 2, 'pype': 0},
               'p_foreach': 0.35, 'p_while': 0.25, 'p_retry': 0.15, 'p_clear_counters': 0.9,
               'p_fmt_groupname': 0.35, 'n_pipes': (1, 1), 'n_groups': (2, 5)}
    rule = ('generated call/jump/switch graphs; callers under foreach/while/retry; callees that loop, call '
            'deeper, and contextclear i / whileCounter / retryCounter / call / switch or contextclearall; group '
            'names literal or {grp}; groups that call themselves from a looping step (bounded by a counter). Probes record (i, whileCounter, retryCounter) and watch call/switch '
            'config. Monitor: reference interpreter: counters and watched config at every probe')
    trusted_base = EngineProp.engine_trusted

    def generate(self, rng, n, tier):
        import gen_pipes
        cases = []
        for _ in range(n):
            case = gen_pipes.gen_case(rng, self.profile)
            r = rng.random()
            if r < 0.06:
                gen_pipes.recursive_call(rng, case)
            elif r < 0.11:
                gen_pipes.ctx_config_call(rng, case)
            elif r < 0.16:
                gen_pipes.falsy_item_call(rng, case)
            elif r < 0.21:
                gen_pipes.main_parser_failure(rng, case)
            cases.append(case)
        return cases
