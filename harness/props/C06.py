"""C06 — retry attempts, error filters and the back-off sleep schedule."""
from props.engine_common import RefProp, EngineProp


class Prop(RefProp):
    id = 'C06'
    props_file = 'theories/Props/C06.v'
    aspects = ('sleeps', 'trace-tags', 'trace-counters', 'outcome', 'errors')
    n_cases = {'quick': 600, 'thorough': 20000}
    profile = {'bodies': {'probe': 30, 'fail': 50, 'incr': 8, 'set': 2, 'call': 6, 'jump': 0, 'switch': 0,
                          'stop': 1, 'stoppipeline': 0, 'stopstepgroup': 1, 'clear': 0, 'clearall': 0, 'pype': 0},
               'p_retry': 0.75, 'p_foreach': 0.15, 'p_while': 0.1, 'p_swallow': 0.25, 'p_fail_when': 0.8,
               'n_pipes': (1, 1), 'n_steps': (1, 4), 'n_groups': (1, 3)}
    rule = ('failing steps under retry: failure sequences driven by retryCounter / cnt conditions, max 1-4, '
            'stopOn / retryOn lists, the six back-off strategies with scalar and list sleeps, sleepMax, jrc, '
            'base; random.uniform replaced by a + (b-a)*r with r in {0, 1/4, 1/2, 1}; every time.sleep '
            'argument recorded exactly (dyadic rationals). Monitor: reference interpreter: attempts, '
            'propagated error, exact sleep schedule (interval [jrc*d, d] for jittered strategies)')
    trusted_base = EngineProp.engine_trusted

    def generate(self, rng, n, tier):
        import gen_pipes
        cases = []
        for _ in range(n):
            case = gen_pipes.gen_case(rng, self.profile)
            if rng.random() < 0.05:
                gen_pipes.retry_in_loop(rng, case)
            cases.append(case)
        return cases
