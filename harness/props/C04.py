"""C04 — run/skip/swallow decide execution per iteration; in-arguments are step-scoped."""
from core import fail
from props.engine_common import RefProp, EngineProp


class Prop(RefProp):
    id = 'C04'
    props_file = 'theories/Props/C04.v'
    aspects = ('trace-tags', 'errors', 'outcome', 'watch')
    n_cases = {'quick': 600, 'thorough': 20000}
    profile = {'bodies': {'probe': 45, 'fail': 18, 'incr': 14, 'set': 8, 'call': 4, 'jump': 1, 'switch': 1,
                          'stop': 1, 'stoppipeline': 0, 'stopstepgroup': 1, 'clear': 2, 'clearall': 0, 'pype': 0},
               'p_run': 0.5, 'p_skip': 0.4, 'p_swallow': 0.45, 'p_foreach': 0.35, 'p_while': 0.2,
               'p_retry': 0.1, 'n_pipes': (1, 1)}
    rule = ('steps with any subset of run/skip/swallow/in given as literals of every kind the truth rule '
            'distinguishes (bools, case-mangled true/1/1.0 strings, other strings, numbers, None, containers), '
            '{key} expressions and !py expressions over counters that earlier iterations mutate. Monitors: '
            'reference interpreter (which executions happened, runErrors swallowed flags) and: no in-argument '
            'of a normally completed run is left in the final context')
    trusted_base = EngineProp.engine_trusted

    def monitor(self, case, obs):
        out = super().monitor(case, obs)
        if obs['outcome'][0] == 'ok' and len(case['lib']) == 1:
            # with no step that can abandon a step midway or write keys, every step of a run that
            # ended normally completed normally, so all in-arguments must be gone
            bodies = [st['body'] for g, steps in case['lib'][0][1] for st in steps or []]
            if not any(b in ('stop', 'stoppipeline', 'stopstepgroup', 'jump', 'set', 'incr', 'switch', 'call')
                       for b in bodies):
                final = {k for k, _ in obs['ctx']}
                initial = {k for k, _ in (case.get('dict_in') or [])}
                leaked = [k for g, steps in case['lib'][0][1] for st in steps or []
                          for k, _ in (st.get('in') or []) if k in final and k not in initial]
                if leaked:
                    out.append(fail('in-args-left-in-context',
                                    f'in-arguments still in context after a normal run: {sorted(set(leaked))}'))
        return out

    def generate(self, rng, n, tier):
        import gen_pipes
        cases = []
        for _ in range(n):
            case = gen_pipes.gen_case(rng, self.profile)
            r = rng.random()
            if r < 0.05:
                gen_pipes.walrus_shadow(rng, case)
            elif r < 0.10:
                gen_pipes.per_iteration_decorators(rng, case)
            cases.append(case)
        return cases
