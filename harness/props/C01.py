"""C01 — step-groups run in order, fail fast, and route to success/failure handlers."""
import copy

from core import fail
from props.engine_common import RefProp, EngineProp


class Prop(RefProp):
    id = 'C01'
    props_file = 'theories/Props/C01.v'
    aspects = ('outcome', 'trace-tags')
    n_cases = {'quick': 500, 'thorough': 15000}
    profile = {'bodies': {'probe': 45, 'fail': 20, 'incr': 5, 'set': 3, 'call': 8, 'jump': 4, 'switch': 2,
                          'stop': 3, 'stoppipeline': 2, 'stopstepgroup': 3, 'clear': 1, 'clearall': 0, 'pype': 4},
               'p_foreach': 0.08, 'p_while': 0.05, 'p_retry': 0.06, 'p_handlers': 0.8, 'p_api_groups': 0.5,
               'n_pipes': (1, 2)}
    rule = ('generated pipelines: 1-5 groups of 1-5 steps, handlers on_success/on_failure/sh/fh, failing '
            'steps at every position (swallowed or not), handlers that fail / stop / call, explicit, partial '
            'and defaulted groups/success/failure arguments; non-trivial = at least two probe events or an '
            'error outcome; distinct by case hash. Monitor: clean-room reference interpreter (harness/'
            'refinterp.py) on the single-pipeline fragment: executed steps and outcome')
    trusted_base = EngineProp.engine_trusted

    def generate(self, rng, n, tier):
        import gen_pipes
        cases = []
        for _ in range(n):
            case = gen_pipes.gen_case(rng, self.profile)
            r = rng.random()
            if r < 0.06:
                gen_pipes.main_parser_failure(rng, case)
            elif r < 0.10:
                gen_pipes.shared_failure_handler(rng, case)
            elif r < 0.14:
                gen_pipes.handler_jumps(rng, case)
            elif r < 0.19:
                gen_pipes.per_iteration_decorators(rng, case)
            elif r < 0.22:
                gen_pipes.empty_foreach_call(rng, case)
            cases.append(case)
        return cases

    def run_impl(self, case):
        """the run, then the same call again with the very same argument objects (groups list, ...):
        every choice of arguments must give its result again, and the caller's objects stay as given."""
        import engine
        given = copy.deepcopy([case.get('groups'), case.get('success'), case.get('failure')])
        obs = engine.run_case(case)
        again = engine.run_case(case)
        now = [case.get('groups'), case.get('success'), case.get('failure')]
        obs['rerun'] = {
            'args_unchanged': now == given,
            'args_now': now,
            'same': (again['outcome'][:2] == obs['outcome'][:2]
                     and [e['l'][0] for e in again['trace']] == [e['l'][0] for e in obs['trace']]),
            'tags_again': [e['l'][0] for e in again['trace']],
        }
        if case.get('groups') is not None:
            case['groups'] = given[0]
        return obs

    def monitor(self, case, obs):
        out = super().monitor(case, obs)
        rr = obs.get('rerun')
        if rr and not rr['args_unchanged']:
            out.append(fail('arguments-mutated', f'the run changed the caller\'s groups/success/failure arguments to {rr["args_now"]!r}'))
        if rr and not rr['same']:
            out.append(fail('rerun-differs', f'the same call again executed {rr["tags_again"]!r}, the first time '
                                             f'{[e["l"][0] for e in obs["trace"]]!r}'))
        return out
