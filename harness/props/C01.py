"""C01 — step-groups run in order, fail fast, and route to success/failure handlers."""
from core import fail
from props.engine_common import EngineProp


class Prop(EngineProp):
    id = 'C01'
    props_file = 'theories/Props/C01.v'
    rule = 'generated pipelines'
    trusted_base = EngineProp.engine_trusted

    def monitor(self, case, obs):
        return []
