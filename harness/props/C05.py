"""C05 — foreach and while iterate exactly as declared and nest while > foreach > step."""
from props.engine_common import RefProp, EngineProp


class Prop(RefProp):
    id = 'C05'
    props_file = 'theories/Props/C05.v'
    aspects = ('trace-tags', 'trace-counters', 'sleeps', 'outcome')
    known_notes = {'foreach-literal-falsy': 'foreach-literal-falsy'}
    n_cases = {'quick': 600, 'thorough': 20000}
    profile = {'bodies': {'probe': 55, 'fail': 10, 'incr': 22, 'set': 4, 'call': 4, 'jump': 1, 'switch': 0,
                          'stop': 1, 'stoppipeline': 0, 'stopstepgroup': 1, 'clear': 0, 'clearall': 0, 'pype': 0},
               'p_foreach': 0.55, 'p_while': 0.5, 'p_retry': 0.12, 'p_run': 0.15, 'p_skip': 0.1,
               'p_swallow': 0.2, 'p_empty_foreach_literal': 0.06, 'n_pipes': (1, 1), 'n_steps': (1, 4)}
    rule = ('steps under foreach (lists, dicts, {key}, !py lists/tuples, empty, non-iterable), while (max as '
            'int/str/{n}/!py incl. 0 and negative, stop expressions reading counters the body increments, '
            'sleep, errorOnMax) and both; virtual clock records every sleep. Monitor: reference interpreter: '
            '(i, whileCounter) at every execution, sleeps, LoopMaxExhausted outcome')
    trusted_base = EngineProp.engine_trusted

    def generate(self, rng, n, tier):
        import gen_pipes
        cases = []
        for _ in range(n):
            case = gen_pipes.gen_case(rng, self.profile)
            r = rng.random()
            if r < 0.05:
                gen_pipes.falsy_item_call(rng, case)
            elif r < 0.09:
                gen_pipes.lazy_foreach(rng, case)
            cases.append(case)
        return cases
