"""C20 — configuration precedence and merge."""
import ast
import json
import re

import c20_driver
import c20_gen as G
import pv
from core import PropBase, fail

# order of Model/Config.v scalar_props (the printer lays the observed attributes out in it)
MODEL_SCALARS = ['json_ascii', 'json_indent', 'pipelines_subdir', 'log_config', 'log_date_format',
                 'log_notify_format', 'log_detail_format', 'default_backoff', 'default_cmd_encoding',
                 'default_encoding', 'default_loader', 'default_group', 'default_success_group',
                 'default_failure_group', 'no_cache']

RE_NOTMAP = re.compile(r'^Config file (.*) should be a mapping \(i\.e a dict or table\) at the top level\.$')
RE_NOTFOUND = re.compile(r'^Could not open config file at (.*)\.$')
RE_UNKNOWN = re.compile(r'^Unexpected config props: (\{.*\})$')


# ---------------------------------------------------------------- Coq printing
# literal -> name of the definitionally equal constant in Model/Config.v (parsing speed only)
ABBREV = {
    **{k: 'k_' + k for k in MODEL_SCALARS + ['shortcuts', 'vars', 'pipeline_name', 'args', 'tool',
                                               'pypyr', 'project']},
    'pipelines': 'd_pipelines', '%Y-%m-%d %H:%M:%S': 'd_date', '%(message)s': 'd_notify',
    '%(asctime)s %(levelname)s:%(name)s:%(funcName)s: %(message)s': 'd_detail', 'fixed': 'd_fixed',
    'pypyr.loaders.file': 'd_loader', 'steps': 'd_steps', 'on_success': 'd_on_success',
    'on_failure': 'd_on_failure', '/SB/home': 'p_home', '/SB/c1/pypyr/config.yaml': 'p_c1',
    '/SB/c2/pypyr/config.yaml': 'p_c2', '/SB/c3/pypyr/config.yaml': 'p_c3',
    '/SB/u/pypyr/config.yaml': 'p_u', '/SB/home/.config/pypyr/config.yaml': 'p_hu',
    '/etc/xdg/pypyr/config.yaml': 'p_etc', 'pyproject.toml': 'p_py', 'pypyr-config.yaml': 'p_loc',
    '/SB/g/global.yaml': 'p_g', 'glob.yaml': 'p_grel', '/SB/c1:/SB/c2': 'x_dirs12',
    '/SB/c2:/SB/c1': 'x_dirs21', '/SB/c1:/SB/c3:/SB/c2': 'x_dirs132', '/SB/u': 'x_u',
}


def cs(s):
    return ABBREV.get(s) or pv.coq_str(s)


def cval(v):
    if v is None:
        return 'VNone'
    if v is True or v is False:
        return f'(VBool {pv.coq_bool(v)})'
    if isinstance(v, int):
        return f'(VInt {pv.coq_Z(v)})'
    if isinstance(v, str):
        return f'(VStr {cs(v)})'
    if isinstance(v, dict):
        if 'f' in v:
            return f'(VFloat {pv.coq_Q(*v["f"])})'
        if 'l' in v:
            return f'(VList {pv.coq_list([cval(x) for x in v["l"]])})'
        if 'd' in v:
            return f'(VDict {cdict(v["d"])})'
    raise ValueError(f'bad pv {v!r}')


def cdict(pairs):
    return pv.coq_list([f'({cval(k)}, {cval(x)})' for k, x in pairs])


def coq_ostr(x):
    return pv.coq_opt(x, cs)


def coq_env(env):
    g = env.get
    return ('(mkEnv ' + ' '.join([
        coq_ostr(g('PYPYR_SKIP_INIT')), coq_ostr(g('PYPYR_CONFIG_GLOBAL')),
        coq_ostr(g('PYPYR_CONFIG_LOCAL')), coq_ostr(g('XDG_CONFIG_DIRS')),
        coq_ostr(g('XDG_CONFIG_HOME')), cs(G.HOME), coq_ostr(g('PYPYR_NO_CACHE')),
        coq_ostr(g('PYPYR_ENCODING')), coq_ostr(g('PYPYR_CMD_ENCODING'))]) + ')')


def coq_fs(files):
    items = [f'({cs(f["path"])}, {cval(f["payload"])})' for f in files]
    return f'(fs_of_list {pv.coq_list(items)})'


def coq_pvdict(v):
    """pv dict -> Coq dict; anything else cannot be an attribute the model produces."""
    if isinstance(v, dict) and 'd' in v:
        return cdict(v['d'])
    raise ValueError('not a dict')


def coq_config(o):
    props = o['props']
    names = [n for n in MODEL_SCALARS if n in props]
    extra = [n for n in props if n not in MODEL_SCALARS and n not in ('shortcuts', 'vars')]
    scal = pv.coq_list([f'({cs(n)}, {cval(props[n])})' for n in names + extra])
    paths = 'None' if o['paths'] is None else \
        f'(Some ({cs(o["paths"][0])}, {pv.coq_list([cs(p) for p in o["paths"][1]])}))'
    pyp = 'None' if o['pyproject'] is None else f'(Some {coq_pvdict(o["pyproject"])})'
    return (f'(mkConfig {scal} {coq_pvdict(props["shortcuts"])} {coq_pvdict(props["vars"])} '
            f'{pv.coq_list([cs(p) for p in o["loaded"]])} {pyp} '
            f'{pv.coq_bool(o["skip_init"])} {paths})')


def parse_error(res):
    """['err', type, message] -> structured (kind, arg)."""
    _, name, msg = res
    if name == 'ConfigError':
        m = RE_NOTMAP.match(msg)
        if m:
            return 'notmapping', m.group(1)
        m = RE_NOTFOUND.match(msg)
        if m:
            return 'notfound', m.group(1)
        m = RE_UNKNOWN.match(msg)
        if m:
            try:
                keys = sorted(ast.literal_eval(m.group(1)), key=repr)
                if all(k is None or isinstance(k, (bool, int, str)) for k in keys):
                    return 'unknown', keys
            except Exception:  # noqa
                pass
        return 'other', 'ConfigError: ' + msg
    return 'other', name


def coq_obs(res):
    if res[0] == 'ok':
        try:
            return f'(COk {coq_config(res[1])})'
        except ValueError:
            return '(CErr (EOther "unprintable-config"))'
    kind, arg = parse_error(res)
    if kind == 'notmapping':
        return f'(CErr (ENotMapping {cs(arg)}))'
    if kind == 'notfound':
        return f'(CErr (ENotFound {cs(arg)}))'
    if kind == 'unknown':
        return f'(CErr (EUnknownProps {pv.coq_list([cval(k) for k in arg])}))'
    return f'(CErr (EOther {pv.coq_str(arg)}))'


# ---------------------------------------------------------------- the statement, in Python
def is_map(v):
    return isinstance(v, dict) and 'd' in v


def pv_get(m, key):
    """m: pv mapping. Returns (found, value)."""
    for k, x in m['d']:
        if type(k) is type(key) and k == key:
            return True, x
    return False, None


def pv_falsy(v):
    if v is None or v is False or v == 0 and not isinstance(v, dict) or v == '':
        return True
    if isinstance(v, dict):
        if 'd' in v:
            return not v['d']
        if 'l' in v:
            return not v['l']
        if 'f' in v:
            return v['f'][0] == 0
    return False


def env_true(s):
    return s is not None and s.lower() in ('true', '1', '1.0')


def consulted(case):
    """Locations the statement says are looked at, LOWEST precedence first, with what each
    file says (None = no such file). Returns (list of (path, payload), notes)."""
    env = case['env']
    files = {f['path']: f for f in case['files']}

    def payload(path):
        return files[path]['payload'] if path in files else None
    glob = env.get('PYPYR_CONFIG_GLOBAL')
    order = []
    if glob:
        order.append(glob)
    else:
        dirs = env.get('XDG_CONFIG_DIRS', '')
        if not dirs.strip():
            dirs = '/etc/xdg'
        commons = [p + '/pypyr/config.yaml' for p in dirs.split(':') if p.strip()]
        order += list(reversed(commons))      # last-listed lowest
        order.append(G.user_dir(env) + '/pypyr/config.yaml')
    out = [(p, payload(p)) for p in order]
    # ./pyproject.toml: the [tool.pypyr] table
    toml_note = None
    tp = None
    if 'pyproject.toml' in files:
        doc = files['pyproject.toml']['payload']
        found, tool = pv_get(doc, 'tool')
        if found and is_map(tool):
            found, tp = pv_get(tool, 'pypyr')
            tp = tp if found else None
        elif found and not pv_falsy(tool):
            toml_note = 'tool-not-table'
    out.append(('pyproject.toml', tp))
    loc = env.get('PYPYR_CONFIG_LOCAL', 'pypyr-config.yaml')
    out.append((loc, payload(loc)))
    return out, toml_note


def key_repr(k):
    return json.dumps(k, sort_keys=True)


class Prop(PropBase):
    id = 'C20'
    coq_imports = ['PV.Model.Config']
    props_file = 'theories/Props/C20.v'
    n_cases = {'quick': 960, 'thorough': 16000}
    rule = ('cases = environment (XDG_CONFIG_DIRS with 1-3 dirs / blanks / unset, XDG_CONFIG_HOME '
            'set/blank/unset -> $HOME/.config, PYPYR_CONFIG_GLOBAL unset/empty/absolute/relative and '
            'present/missing, PYPYR_SKIP_INIT, PYPYR_CONFIG_LOCAL, PYPYR_NO_CACHE, PYPYR_ENCODING, '
            'PYPYR_CMD_ENCODING) x presence subset of the 5 locations (all 32, round-robin) x '
            'assignment of scalars / vars keys / shortcuts keys to the files; every 5th pass the same '
            'config path is consulted at several positions (a dir repeated in XDG_CONFIG_DIRS: A:B:A, '
            'A:A:B, B:A:B..., and/or XDG_CONFIG_HOME equal to a common dir) with the files in between '
            'setting the same scalar / vars key / shortcuts key to different values; 30% with one defect '
            '(falsy / truthy non-mapping, unknown keys, non-mapping vars, empty map, empty file), '
            'pyproject.toml shapes (no tool / no tool.pypyr / empty / tool not a table); each run in '
            'a child process with its own sandbox, env and cwd, 6% in a fresh process through the '
            'module singleton; in 18% the environment when the Config object is built / pypyr.config is '
            'imported differs from the one init() runs under (PYPYR_SKIP_INIT, PYPYR_CONFIG_GLOBAL, '
            'PYPYR_CONFIG_LOCAL, XDG_*, and the constructor variables PYPYR_NO_CACHE / PYPYR_ENCODING / '
            'PYPYR_CMD_ENCODING): expected = init under the run-time environment on the defaults of the '
            'import-time one. non-trivial = an error, a skip, or at least one consulted file is a '
            'non-empty mapping; distinct by case hash')
    trusted_base = [
        'ruamel.yaml and tomllib are not modelled: a config file is represented by the value its '
        'parser returns (the child re-parses every generated text with an independent loader and '
        'refuses the case if it does not mean the recorded payload)',
        'Linux (XDG) branch of pypyr.platform only; base directories are clean absolute paths '
        '(pathlib normalisation not modelled); $HOME is set',
        'the encoding used to DECODE a yaml config file (Config.default_encoding, which a '
        'lower-precedence file can change) is not modelled: generated files are ASCII and only '
        'ASCII-compatible encodings are assigned',
        'vars / shortcuts given as non-empty sequences or strings (pair-wise dict.update) are outside '
        'the model (verdict 2, counted); the text of the unknown-props message is compared as a set',
        'OS errors other than a missing file (permissions, directories in place of files) are not generated',
        'Tie B (tools/py2coq_c20.py -> Gen/GenC20.v, proved equal to the model in Proofs/GenC20Proofs.v): the '
        'translator drops docstrings, logger calls, `parser = ruamel.yaml.YAML()`, the encoding= argument of '
        'open(), `from OSError`, and the data_dir_* members of PlatformPaths; it maps os.getenv names to the '
        'fields of the model env record, ConfigError messages to error constructors by their literal text, '
        'Path(a, b, c) to a/b/c and os.pathsep to ":" by tables; it assumes the Xdg finder (Linux) with '
        'get_platform_paths("pypyr", "config.yaml"); reading+parsing a file, getattr(self, k).update(v) and '
        'setattr(self, k, v) are primitives instantiated with the model`s; a loop over a Python set is given '
        'order-free semantics (every element run, error if any raised)',
    ]

    def generate(self, rng, n, tier):
        cases = G.generate(rng, n, tier)
        for c in cases[:3]:
            c['check_props'] = True
        return cases

    def run_impl(self, case):
        ans = c20_driver.run(case)
        return {'res': ans['res'], 'defaults': ans['defaults'],
                'all_props': ans['all_props'], 'dict_props': ans['dict_props']}

    def coq_model(self, case):
        if 'import_env' in case:
            # the object was built under import_env; init() runs under env
            return (f'(init {coq_env(case["env"])} {coq_fs(case["files"])} '
                    f'(defaults {coq_env(case["import_env"])}))')
        return f'(init_fresh {coq_env(case["env"])} {coq_fs(case["files"])})'

    def coq_check(self, case, obs):
        term = f'(check {self.coq_model(case)} {coq_obs(obs["res"])})'
        if case.get('check_props'):
            scal = [p for p in obs['all_props'] if p not in obs['dict_props']]
            pc = (f'(props_check {pv.coq_list([pv.coq_str(s) for s in scal])} '
                  f'{pv.coq_list([pv.coq_str(s) for s in obs["dict_props"]])})')
            term = f'(Nat.max {term} {pc})'
        return term

    def coq_model_obs(self, case):
        return self.coq_model(case)

    # ---- monitors: from the property statement; the model is not consulted
    def monitor(self, case, obs):
        out = []
        res = obs['res']
        env = case['env']
        dflt = obs['defaults']['props']
        files = {f['path']: f for f in case['files']}

        def settings_of(o):
            return o['props']

        # $PYPYR_SKIP_INIT skips all file look-ups — the environment as it is when init() runs
        # (case['env']); what it was when pypyr.config was imported (case['import_env']) is irrelevant
        if env_true(env.get('PYPYR_SKIP_INIT')):
            if res[0] != 'ok':
                out.append(fail('skip-init', f'PYPYR_SKIP_INIT={env["PYPYR_SKIP_INIT"]!r} but init raised {res[1:]}',
                                'skip-init-raised'))
            else:
                diff = [k for k in dflt if not pv.pv_equal(dflt[k], settings_of(res[1]).get(k))]
                if diff or res[1]['loaded']:
                    out.append(fail('skip-init', f'PYPYR_SKIP_INIT={env["PYPYR_SKIP_INIT"]!r} but files were '
                                                 f'read: loaded={res[1]["loaded"]} changed={diff}',
                                    'skip-init-not-skipping'))
            return out

        # $PYPYR_CONFIG_GLOBAL must exist
        glob = env.get('PYPYR_CONFIG_GLOBAL')
        if glob and glob not in files:
            if not (res[0] == 'err' and res[1] == 'ConfigError'):
                out.append(fail('global-must-exist', f'PYPYR_CONFIG_GLOBAL={glob!r} does not exist but init '
                                                     f'gave {res[:2]}', 'global-missing-accepted'))
            return out

        if res[0] == 'ok' and res[1]['skip_init']:
            out.append(fail('skip-init', f'PYPYR_SKIP_INIT is {env.get("PYPYR_SKIP_INIT")!r} when init() runs '
                                         f'(at import: {case.get("import_env", env).get("PYPYR_SKIP_INIT")!r}) but '
                                         f'init() skipped the config look-up', 'skipped-although-not-requested'))
            return out

        layers, toml_note = consulted(case)
        unknown, truthy_nm, falsy_nm, other_bad = [], [], [], []
        if toml_note:
            other_bad.append(('pyproject.toml', toml_note))
        for path, p in layers:
            if p is None:
                continue            # no such file, or an empty document
            if not is_map(p):
                (falsy_nm if pv_falsy(p) else truthy_nm).append((path, p))
                continue
            for k, x in p['d']:
                if k in G.DICTS:
                    if not is_map(x):
                        other_bad.append((path, f'{k} is not a mapping'))
                elif k not in G.SCALARS:
                    unknown.append((path, k))

        if unknown or truthy_nm or falsy_nm:
            what = (f'unknown settings {unknown}' if unknown else '') + \
                   (f' non-mapping files {truthy_nm + falsy_nm}' if truthy_nm or falsy_nm else '')
            if res[0] == 'ok':
                if truthy_nm:
                    fp = 'nonmapping-config-accepted'
                elif unknown:
                    fp = 'unknown-setting-accepted'
                else:
                    fp = 'falsy-nonmapping-config-ignored'
                out.append(fail('rejects-bad-files', f'{what.strip()}: init returned a configuration '
                                                     f'instead of a config error', fp))
            elif res[1] != 'ConfigError' and not other_bad:
                out.append(fail('rejects-bad-files', f'{what.strip()}: rejected with {res[1]} ({res[2]!r}), '
                                                     f'not a config error', 'bad-file-wrong-error'))
            return out
        if other_bad:
            return out          # the statement says nothing about these

        # every consulted file is fine: the effective configuration is the overlay
        if res[0] != 'ok':
            out.append(fail('overlay', f'all config files are valid but init raised {res[1]}: {res[2]!r}',
                            'valid-config-rejected'))
            return out
        got = settings_of(res[1])
        # a config path consulted at more than one position (a directory listed twice in
        # $XDG_CONFIG_DIRS, $XDG_CONFIG_HOME equal to a common directory): precedence goes by
        # POSITION — first-listed common dir highest among the common dirs, the user file above
        # all of them — so what the highest position says must win over everything below it
        seen_paths = [path for path, _ in layers]
        repeated = len(set(seen_paths)) < len(seen_paths)
        lows = []       # settings of the files a set $PYPYR_CONFIG_GLOBAL replaces
        if glob:
            c2 = dict(case)
            c2['env'] = {k: v for k, v in env.items() if k != 'PYPYR_CONFIG_GLOBAL'}
            lows = [p for _, p in consulted(c2)[0][:-2] if is_map(p)]
        for s in G.SCALARS:
            want, src = dflt.get(s), 'default'
            for path, p in layers:           # lowest first: the last one that sets it wins
                if is_map(p):
                    found, x = pv_get(p, s)
                    if found:
                        want, src = x, path
            if s not in got or not pv.pv_equal(want, got[s]):
                fp = 'scalar-wrong-winner'
                if glob and any(pv_get(p, s)[0] and pv.pv_equal(pv_get(p, s)[1], got.get(s)) for p in lows):
                    fp = 'global-not-replacing'
                elif repeated:
                    fp = 'repeated-path-wrong-winner'
                out.append(fail('scalar-highest-wins', f'{s}: expected {want!r} (from {src}), effective value '
                                                       f'is {got.get(s)!r}', fp))
                break
        for prop in G.DICTS:
            want = {}
            srcs = {}
            for path, p in layers:
                if is_map(p):
                    found, m = pv_get(p, prop)
                    if found and is_map(m):
                        for k, x in m['d']:
                            want[key_repr(k)] = x
                            srcs[key_repr(k)] = path
            have = got.get(prop)
            if not is_map(have):
                out.append(fail('dict-union', f'{prop} is {have!r}', 'dict-not-union'))
                continue
            havem = {key_repr(k): x for k, x in have['d']}
            if set(havem) != set(want) or any(not pv.pv_equal(want[k], havem[k]) for k in want):
                fp = 'dict-not-union'
                if glob and set(havem) - set(want):
                    fp = 'global-not-replacing'
                elif repeated:
                    fp = 'repeated-path-wrong-winner'
                out.append(fail('dict-union', f'{prop}: expected key-wise union {want!r} (sources {srcs}), '
                                              f'effective value is {havem!r}', fp))
        return out

    def nontrivial(self, case, obs):
        if obs['res'][0] == 'err' or env_true(case['env'].get('PYPYR_SKIP_INIT')):
            return True
        layers, _ = consulted(case)
        return any(is_map(p) and p['d'] for _, p in layers)

    def describe(self, case, obs):
        env = case['env']
        res = obs['res']
        tags = [f'present:{len(case["subset"])}', 'subset:' + ('+'.join(case['subset']) or 'none'),
                'res:' + ('ok' if res[0] == 'ok' else res[1] + '/' + str(parse_error(res)[0]))]
        g = env.get('PYPYR_CONFIG_GLOBAL')
        if g is not None:
            tags.append('global:' + ('empty' if g == '' else 'present' if any(f['path'] == g for f in case['files'])
                                     else 'missing'))
        if 'PYPYR_SKIP_INIT' in env:
            tags.append('skip:' + ('on' if env_true(env['PYPYR_SKIP_INIT']) else 'off-value'))
        if case.get('defect'):
            tags.append('defect:' + case['defect'])
        if 'PYPYR_CONFIG_LOCAL' in env:
            tags.append('local-renamed')
        if not env.get('XDG_CONFIG_HOME', '').strip():
            tags.append('user:home/.config')
        if not env.get('XDG_CONFIG_DIRS', '').strip():
            tags.append('common:/etc/xdg')
        if case.get('fresh'):
            tags.append('fresh-process-singleton')
        if 'import_env' in case:
            tags.append('env-changed-after-import')
            if env_true(case['import_env'].get('PYPYR_SKIP_INIT')) != env_true(env.get('PYPYR_SKIP_INIT')):
                tags.append('skip-init-changed-after-import')
        if not env_true(env.get('PYPYR_SKIP_INIT')) and not env.get('PYPYR_CONFIG_GLOBAL'):
            paths = [p for p, _ in consulted(case)[0]]
            if len(set(paths)) < len(paths):
                tags.append('repeated-config-path')
        if res[0] == 'ok':
            tags.append(f'loaded:{len(res[1]["loaded"])}')
        return tags
