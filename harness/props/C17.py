"""C17 — command steps report exit status faithfully and in declaration order."""
import itertools

import c17_run as R
import pv
from core import PropBase, fail

ASYNC = ('cmds', 'shells')
RCS = [1, 1, 2, 3, 127, 255, -9, -15]
OUTS = ['', '', 'ok', 'ok\n', 'two\nlines\n', '  padded \t\n', 'x ', '\n', 'a\r\n', 'data\x0c']
SPAWN = [('builtins.FileNotFoundError', "[Errno 2] No such file or directory: 'nope'"),
         ('builtins.PermissionError', '[Errno 13] Permission denied'),
         ('builtins.OSError', 'exec format error')]


# ------------------------------------------------------------------ generation

def gen_shape(rng, is_async, n):
    """Return a conf skeleton over command placeholders 0..n-1 (ints)."""
    ids = list(range(n))

    def take(k):
        out = ids[:k]
        del ids[:k]
        return out

    def gen_run(avail):
        """run value over `avail` command ids."""
        if len(avail) == 1 and rng.random() < 0.6:
            return avail[0]
        if not is_async:
            return list(avail)
        out, i = [], 0
        while i < len(avail):
            if rng.random() < 0.35 and len(avail) - i >= 1:
                k = rng.randint(1, min(3, len(avail) - i))
                out.append(avail[i:i + k])
                i += k
            else:
                out.append(avail[i])
                i += 1
        return out

    def gen_map(avail):
        m = {'run': gen_run(avail)}
        r = rng.random()
        if r < 0.55:
            m['save'] = True
        elif r < 0.7:
            m['save'] = False
        if m.get('save') and rng.random() < 0.2:
            m['bytes'] = True
        return m

    r = rng.random()
    if n == 1 and r < 0.3:
        return take(1)[0]
    if r < 0.25:
        return gen_map(take(n))
    items = []
    while ids:
        r = rng.random()
        if r < 0.4:
            items.append(take(1)[0])
        elif r < 0.55 and is_async:
            items.append(take(rng.randint(1, min(3, len(ids)))))
        else:
            items.append(gen_map(take(rng.randint(1, min(3, len(ids))))))
    return items


def subst(shape, names):
    if isinstance(shape, int):
        return names[shape]
    if isinstance(shape, list):
        return [subst(x, names) for x in shape]
    if isinstance(shape, dict):
        return {k: (subst(v, names) if k == 'run' else v) for k, v in shape.items()}
    return shape


def gen_names(rng, n):
    out = []
    for i in range(n):
        r = rng.random()
        if r < 0.5:
            out.append(f'c{i}')
        elif r < 0.8:
            out.append(f'c{i} --flag v{i}')
        elif r < 0.9:
            out.append(f'c{i}  two  spaces')
        else:
            out.append(f'./bin/c{i}\targ')
    return out


def gen_oracle(rng, names, p_fail=None):
    if p_fail is None:
        p_fail = rng.choice([0.0, 0.15, 0.3, 0.5, 0.9])
    orc = {}
    for c in names:
        r = rng.random()
        if r < p_fail * 0.15:
            t, m = rng.choice(SPAWN)
            orc[c] = ['spawn', t, m]
        elif r < p_fail:
            orc[c] = ['exit', rng.choice(RCS), rng.choice(OUTS), rng.choice(OUTS)]
        elif rng.random() < 0.7:
            orc[c] = ['exit', 0, rng.choice(OUTS), rng.choice(OUTS)]
        # else: absent = exit 0, no output
    return orc


def gen_fake(rng, max_cmds):
    step = rng.choice(['cmd', 'shell', 'cmds', 'cmds', 'shells', 'shells'])
    n = rng.randint(1, max_cmds)
    names = gen_names(rng, n)
    conf = subst(gen_shape(rng, step in ASYNC, n), names)
    case = {'step': step, 'mode': 'fake', 'conf': conf, 'oracle': gen_oracle(rng, names)}
    if step in ASYNC:
        case['sched'] = [rng.randint(0, n) for _ in range(n + 1)]
    return case


def all_schedules(n):
    return itertools.product(*[range(n - i) for i in range(n)])


def gen_real(rng):
    step = rng.choice(['cmd', 'shell', 'cmds', 'shells'])
    n = rng.randint(1, 5)
    specs = []
    for i in range(n):
        rc = 0 if rng.random() < 0.6 else rng.choice([1, 2, 3, 7])
        specs.append((f'm{i}', rng.choice(['0', '0.03', '0.06', '0.1']), rc))
    names = [R.real_command(step, *s) for s in specs]
    conf = subst(gen_shape(rng, step in ASYNC, n), names)
    oracle = {c: ['exit', s[2], f'out-{s[0]}\n', f'err-{s[0]}\n'] for c, s in zip(names, specs)}
    case = {'step': step, 'mode': 'real', 'conf': conf, 'oracle': oracle,
            'markers': {c: s[0] for c, s in zip(names, specs)}}
    if step in ASYNC:
        case['sched'] = []
    return case


# ------------------------------------------------------------------ Coq printing

def coq_strs(l):
    return pv.coq_list([pv.coq_str(x) for x in l])


def coq_outcome(o):
    if o[0] == 'spawn':
        return f'SpawnFail {pv.coq_str(o[1])} {pv.coq_str(o[2])}'
    return f'Exited {pv.coq_Z(o[1])} {pv.coq_str(o[2].encode("latin-1"))} {pv.coq_str(o[3].encode("latin-1"))}'


def coq_oracle(orc):
    return pv.coq_list([f'({pv.coq_str(k)}, {coq_outcome(o)})' for k, o in orc.items()])


def coq_sync_conf(conf):
    def run(r):
        return f'(RunStr {pv.coq_str(r)})' if isinstance(r, str) else f'(RunList {coq_strs(r)})'

    def mp(m):
        return (f'(mkSmap {run(m["run"])} {pv.coq_bool(bool(m.get("save", False)))} '
                f'{pv.coq_bool(bool(m.get("bytes", False)))})')
    if isinstance(conf, str):
        return f'(CfStr {pv.coq_str(conf)})'
    if isinstance(conf, dict):
        return f'(CfMap {mp(conf)})'
    items = [f'IStr {pv.coq_str(x)}' if isinstance(x, str) else f'IMap {mp(x)}' for x in conf]
    return f'(CfList {pv.coq_list(items)})'


def coq_async_conf(conf):
    def entry(e):
        return f'AOne {pv.coq_str(e)}' if isinstance(e, str) else f'ASer {coq_strs(e)}'

    def run(r):
        if isinstance(r, str):
            return f'(ARunStr {pv.coq_str(r)})'
        return f'(ARunList {pv.coq_list([entry(e) for e in r])})'

    def mp(m):
        return (f'(mkAmap {run(m["run"])} {pv.coq_bool(bool(m.get("save", False)))} '
                f'{pv.coq_bool(bool(m.get("bytes", False)))})')
    if isinstance(conf, str):
        return f'(ACfStr {pv.coq_str(conf)})'
    if isinstance(conf, dict):
        return f'(ACfMap {mp(conf)})'
    items = []
    for x in conf:
        if isinstance(x, str):
            items.append(f'AIStr {pv.coq_str(x)}')
        elif isinstance(x, list):
            items.append(f'AISub {coq_strs(x)}')
        else:
            items.append(f'AIMap {mp(x)}')
    return f'(ACfList {pv.coq_list(items)})'


class Unrepresentable(Exception):
    pass


def coq_v(x):
    if x is None:
        return 'VNone'
    if isinstance(x, str):
        return f'(VStr {pv.coq_str(x)})'
    if isinstance(x, dict) and 'b' in x:
        return f'(VBytes {pv.coq_str(x["b"].encode("latin-1"))})'
    if isinstance(x, dict) and 'l' in x:
        return f'(VList {pv.coq_list([coq_v(y) for y in x["l"]])})'
    raise Unrepresentable(repr(x))


def coq_res1(r):
    if r['k'] == 'res':
        return f'(R1 {coq_v(r["cmd"])} {pv.coq_Z(r["rc"])} {coq_v(r["out"])} {coq_v(r["err"])})'
    if r['k'] == 'exn':
        return f'(X1 {pv.coq_str(r["type"])} {pv.coq_str(r["msg"])})'
    raise Unrepresentable(repr(r))


def coq_entry(r):
    if r['k'] == 'list':
        return f'ESer {pv.coq_list([coq_res1(x) for x in r["items"]])}'
    return f'EOne {coq_res1(r)}'


def coq_cmdout(co):
    if co[0] == 'unset':
        return 'OutUnset'
    if co[0] == 'single':
        return f'(OutSingle {coq_res1(co[1])})'
    return f'(OutList {pv.coq_list([coq_entry(x) for x in co[1]])})'


def coq_perr(e):
    if e['k'] == 'proc':
        return (f'(PErr {pv.coq_str(e["type"])} {coq_v(e["cmd"])} {pv.coq_Z(e["rc"])} '
                f'{coq_v(e["out"])} {coq_v(e["err"])})')
    if e['k'] == 'exn':
        return f'(PExn {pv.coq_str(e["type"])} {pv.coq_str(e["msg"])})'
    raise Unrepresentable(repr(e))


def coq_raised(e):
    if e is None:
        return 'NoError'
    if e['k'] == 'multi':
        if e['type'] != 'pypyr.errors.MultiError':
            raise Unrepresentable(e['type'])
        return f'(Multi {pv.coq_list([coq_perr(x) for x in e["errors"]])})'
    return f'(Raised {coq_perr(e)})'


def coq_obs(obs):
    return (f'(mkObs {coq_strs(obs["started"])} {coq_strs(obs["wave"])} '
            f'{coq_raised(obs["error"])} {coq_cmdout(obs["cmdOut"])})')


# ------------------------------------------------------------------ monitor helpers

def text_of(v):
    """Content of a captured stream whatever its Python type (None = nothing)."""
    if v is None:
        return ''
    if isinstance(v, str):
        return v
    if isinstance(v, dict) and 'b' in v:
        return v['b']
    return repr(v)


def cmd_key(v):
    if isinstance(v, dict) and 'l' in v:
        return ' '.join(text_of(x) for x in v['l'])
    return ' '.join(text_of(v).split())


def flatten_out(co):
    if co[0] == 'unset':
        return []
    if co[0] == 'single':
        return [co[1]]
    out = []

    def go(x):
        if x['k'] == 'list':
            for y in x['items']:
                go(y)
        else:
            out.append(x)
    for x in co[1]:
        go(x)
    return out


class Prop(PropBase):
    id = 'C17'
    coq_imports = ['PV.Model.Cmd']
    props_file = 'theories/Props/C17.v'
    n_cases = {'quick': 700, 'thorough': 30000}
    rule = ('cases = (step in cmd/shell/cmds/shells, step input tree: plain string, expanded map '
            '{run: str|list, save, bytes}, lists of those, nested serial sub-lists for the async '
            'steps; exit code / stdout / stderr / spawn-failure per command; completion schedule). '
            'fake mode: subprocess.run and asyncio.create_subprocess_* replaced inside pypyr.subproc / '
            'pypyr.aio.subproc, completion order dictated by the schedule (thorough: every schedule of '
            'trees with <= 5 commands; quick: every schedule for <= 3, sampled above); real mode: '
            '/bin/sh processes with staggered sleeps, marker files prove "started"/"finished". '
            'non-trivial = at least two commands, or a failure, or cmdOut written')
    trusted_base = [
        'asyncio.gather returns results in argument order and starts every awaitable before '
        'waiting (CPython stdlib; modelled as one result slot per task in argument order)',
        'OS process semantics: exit status, captured output, spawn failures are an oracle '
        '(string -> outcome) in the model; the fake spawner and /bin/sh stand for it in the harness',
        'the fake spawner (harness/c17_run.py) mimics subprocess.run / asyncio subprocess objects; '
        'its fidelity is cross-checked only by the real-process sample',
        'shlex.split is modelled for command lines without quotes/escapes only (others: verdict 2); '
        'captured output restricted to ASCII (decode = identity)',
        'stdout/stderr file redirection, cwd, encoding and the shell override key are not modelled',
        'Tie B (tools/py2coq_c17.py -> Gen/GenC17.v, proved equal to the model in Proofs/GenC17Proofs.v): '
        'translated from the current source are subproc.Command._run/run, SubprocessResult.check_returncode, '
        'CmdStep.run_step, aio Command._spawn/_run/_parse_result/parse_results, aio Commands.run, '
        'AsyncCmdStep.run_step. The translator DROPS docstrings, asserts, logger calls, ifs that only log, '
        'exception messages, and the cwd= / encoding= / stdout= / stderr= keywords of the spawn calls (file '
        'handles of output_handles() are opaque; for aio they are the PIPE bit, assumed = is_save as '
        '__init__ sets it); bytes.decode is the identity (ASCII); the final `else: raise TypeError` of the '
        'exhaustive isinstance chain in _parse_result is dead code',
        'Tie B signature tables (Python is untyped): Command.cmd is str | list[str]; results / _results are '
        'lists of SubprocessResult | Exception (| list of those for aio); each Command in self.commands is a '
        'distinct, freshly constructed object (results == []); Commands.is_save = any Command saves',
        'Tie B primitives, instantiated in the proofs by Model/Cmd.v py_subprocess_run, py_check_returncode, '
        'py_create_subprocess, py_communicate (CPython subprocess/asyncio semantics over an OS oracle keyed '
        'by (argv, shell)), shlex.split = the model\'s shlex_split, config.is_windows = False; '
        'aio Command.run and Commands._run (the two asyncio.gather calls) are NOT translated: each Command\'s '
        '_results = its tasks\' results in argument order stays an assumption (checked by Tie A only)',
    ]

    # ---- cases
    def generate(self, rng, n, tier):
        cases = []
        n_real = max(8, n // 18) if tier == 'quick' else max(30, n // 40)
        n_real = min(n_real, n // 2)
        n_exh = (n - n_real) * (40 if tier != 'quick' else 25) // 100
        max_exh = 5 if tier != 'quick' else 3
        while len(cases) < n_exh:
            base = gen_fake(rng, max_exh)
            if base['step'] not in ASYNC:
                continue
            k = len(R.flat_commands(base['conf']))
            for sched in all_schedules(k):
                c = dict(base)
                c['sched'] = list(sched)
                cases.append(c)
        del cases[max(n_exh, 0):]
        while len(cases) < n - n_real:
            cases.append(gen_fake(rng, 7))
        for _ in range(n_real):
            cases.append(gen_real(rng))
        return cases

    # ---- implementation
    def run_impl(self, case):
        import logging
        logging.getLogger('pypyr').setLevel(logging.CRITICAL + 1)
        obs = R.run_case(case)
        # report commands as declared (the spawners see whitespace-normalised lines)
        back = {}
        for c in R.flat_commands(case['conf']):
            back.setdefault(R.norm(c), c)
        for key in ('started', 'wave', 'started_raw', 'completed_raw', 'still_running'):
            obs[key] = [back.get(x, x) for x in obs[key]]
        return obs

    # ---- correspondence
    def _args(self, case):
        shell = pv.coq_bool(case['step'] in ('shell', 'shells'))
        return coq_oracle(case.get('oracle', {})), shell

    def coq_check(self, case, obs):
        orc, shell = self._args(case)
        try:
            o = coq_obs(obs)
        except Unrepresentable:
            return '1%nat'
        if case['step'] in ASYNC:
            wave = pv.coq_bool(case.get('mode') != 'real')
            sched = pv.coq_list([f'{k}%nat' for k in case.get('sched', [])])
            return (f'(check_async {orc} {shell} {sched} {wave} '
                    f'{coq_async_conf(case["conf"])} {o})')
        return f'(check_sync {orc} {shell} {coq_sync_conf(case["conf"])} {o})'

    def coq_model_obs(self, case):
        orc, shell = self._args(case)
        if case['step'] in ASYNC:
            sched = pv.coq_list([f'{k}%nat' for k in case.get('sched', [])])
            return f'run_async (oracle_of {orc}) {shell} {sched} {coq_async_conf(case["conf"])}'
        return f'run_sync (oracle_of {orc}) {shell} {coq_sync_conf(case["conf"])}'

    # ---- monitors: from the property statement only
    def monitor(self, case, obs):
        out = []
        conf = case['conf']
        oracle = case.get('oracle', {})
        is_async = case['step'] in ASYNC

        def outcome(c):
            return oracle.get(c, ['exit', 0, '', ''])

        def failed(c):
            o = outcome(c)
            return o[0] == 'spawn' or o[1] != 0

        cmds = R.commands_of(conf)
        flat = [c for _, _, ents in cmds for e in ents for c in e]
        started = obs['started']
        err = obs['error']

        # the step succeeds iff every command it ran exited 0
        ran_all_zero = not any(failed(c) for c in started)
        if err is None and not ran_all_zero:
            bad = [c for c in started if failed(c)][0]
            out.append(fail('ok-iff-all-zero', f'step succeeded although {bad!r} -> {outcome(bad)[:2]}',
                            'success-despite-failure'))
        if err is not None and ran_all_zero:
            out.append(fail('ok-iff-all-zero', f'step raised {err.get("type")} although every command '
                                               f'it ran exited 0', 'failure-despite-all-zero'))
        unknown = [c for c in started if c not in flat]
        if unknown:
            out.append(fail('started-undeclared', f'spawned {unknown!r}, not in the step input'))

        if not is_async:
            want = []
            for c in flat:
                want.append(c)
                if failed(c):
                    break
            if started != want:
                if len(started) > len(want) and started[:len(want)] == want:
                    out.append(fail('serial-stops-at-first-failure',
                                    f'{started[len(want)]!r} was started after {want[-1]!r} failed',
                                    'serial-started-after-failure'))
                elif sorted(started) == sorted(want):
                    out.append(fail('serial-declaration-order', f'ran in order {started!r}, declared {want!r}',
                                    'serial-order'))
                else:
                    out.append(fail('serial-runs-prefix', f'ran {started!r}, expected {want!r}',
                                    'serial-started-set'))
            first = next((c for c in flat if failed(c)), None)
            if first is not None and outcome(first)[0] == 'exit' and err is not None and first in started:
                rc = outcome(first)[1]
                if err.get('k') != 'proc' or err.get('rc') != rc or cmd_key(err.get('cmd')) != R.norm(first):
                    out.append(fail('serial-error-carries-cmd-and-code',
                                    f'{first!r} exited {rc} but the error is {err!r}', 'serial-error-content'))
        else:
            heads = [e[0] for _, _, ents in cmds for e in ents if e]
            missing = [c for c in heads if c not in started]
            if missing:
                out.append(fail('async-all-top-level-started', f'top-level {missing!r} never started',
                                'async-entry-not-started'))
            elif case.get('mode') != 'real':
                late = [c for c in heads if c not in obs['wave']]
                if late:
                    out.append(fail('async-concurrent-start',
                                    f'{late!r} not started until another process finished',
                                    'async-not-concurrent'))
            for _, _, ents in cmds:
                for e in ents:
                    want = []
                    for c in e:
                        want.append(c)
                        if failed(c):
                            break
                    got = [c for c in e if c in started]
                    if got != want:
                        if len(got) > len(want):
                            out.append(fail('async-sublist-stops', f'sub-list {e!r}: ran {got!r} although '
                                            f'{want[-1]!r} failed', 'async-sublist-continued'))
                        else:
                            out.append(fail('async-sublist-runs', f'sub-list {e!r}: ran only {got!r}, '
                                            f'expected {want!r}', 'async-sublist-stopped-early'))
            if obs['still_running']:
                out.append(fail('async-waits-for-all', f'step returned while {obs["still_running"]!r} '
                                'still running', 'async-not-awaited'))
            failures = [c for c in flat if c in started and failed(c)]
            if failures and err is not None:
                if err.get('k') != 'multi' or err.get('type') != 'pypyr.errors.MultiError':
                    out.append(fail('async-one-aggregate-error', f'raised {err.get("type")}, not one MultiError',
                                    'async-error-type'))
                else:
                    got = []
                    for x in err['errors']:
                        got.append((cmd_key(x['cmd']), x['rc']) if x['k'] == 'proc' else (x['type'], x['msg']))
                    want = []
                    for c in failures:
                        o = outcome(c)
                        want.append((R.norm(c), o[1]) if o[0] == 'exit' else (o[1], o[2]))
                    if got != want:
                        fp = 'async-error-order' if sorted(map(str, got)) == sorted(map(str, want)) \
                            else 'async-error-list'
                        out.append(fail('async-error-lists-every-failure',
                                        f'MultiError lists {got!r}, failures were {want!r}', fp))

        # with save: one result per command actually run, declaration order, failed included
        want = []
        any_save = False
        for save, is_bytes, ents in cmds:
            if not save:
                continue
            for e in ents:
                for c in e:
                    if c in started and outcome(c)[0] == 'exit':
                        any_save = True
                        o = outcome(c)
                        so, se = (o[2], o[3]) if is_bytes else (o[2].rstrip(), o[3].rstrip())
                        want.append((R.norm(c), o[1], so, se))
        if any_save or obs['cmdOut'][0] != 'unset':
            got = []
            for r in flatten_out(obs['cmdOut']):
                if r['k'] == 'res':
                    got.append((cmd_key(r['cmd']), r['rc'], text_of(r['out']), text_of(r['err'])))
            if got != want:
                gk, wk = [g[:2] for g in got], [w[:2] for w in want]
                if sorted(gk) == sorted(wk) and gk != wk:
                    fp = 'cmdout-order'
                elif gk == wk:
                    fp = 'cmdout-content'
                elif all(g in wk for g in gk) and all(w[1] != 0 for w in wk if w not in gk):
                    fp = 'cmdout-missing-failed'
                else:
                    fp = 'cmdout-set'
                out.append(fail('cmdout-declaration-order', f'cmdOut holds {got!r}, expected {want!r}', fp))
        return out

    def nontrivial(self, case, obs):
        return len(R.flat_commands(case['conf'])) >= 2 or obs['error'] is not None \
            or obs['cmdOut'][0] != 'unset'

    def describe(self, case, obs):
        conf = case['conf']
        n = len(R.flat_commands(conf))
        tags = ['step:' + case['step'], 'mode:' + case.get('mode', 'fake'), f'cmds:{min(n, 6)}',
                'err:' + (obs['error']['k'] if obs['error'] else 'none'),
                'cmdOut:' + obs['cmdOut'][0],
                'shape:' + ('str' if isinstance(conf, str) else 'map' if isinstance(conf, dict) else 'list')]
        if any(len(e) > 1 for _, _, ents in R.commands_of(conf) for e in ents):
            tags.append('serial-sublist' if case['step'] in ASYNC else 'run-list')
        if len(obs['started']) < n:
            tags.append('not-all-started')
        if any(o[0] == 'spawn' for o in case.get('oracle', {}).values()):
            tags.append('spawn-failure')
        return tags

    def widen(self, rng, case):
        out = []
        if case['step'] in ASYNC and case.get('mode') != 'real':
            n = len(R.flat_commands(case['conf']))
            for _ in range(30):
                c = dict(case)
                c['sched'] = [rng.randint(0, n) for _ in range(n + 1)]
                out.append(c)
        return out
