"""C09 — formatting is pure and structure-preserving."""
import gen_values as G
import pv
from core import PropBase, fail
from props.C08 import run_format


def strip_share(v):
    if isinstance(v, dict):
        if 'share' in v:
            return strip_share(v['v'])
        return {k: strip_share(x) for k, x in v.items() if k != 'ba'}
    if isinstance(v, list):
        return [strip_share(x) for x in v]
    return v


def type_walk(o, out):
    from collections.abc import Mapping
    if isinstance(o, Mapping):
        out.append(type(o).__name__)
        for k, x in o.items():
            type_walk(k, out)
            type_walk(x, out)
    elif isinstance(o, (list, tuple, set, frozenset)):
        out.append(type(o).__name__)
        if not isinstance(o, (set, frozenset)):
            for x in o:
                type_walk(x, out)
    return out


def leaf_identity(a, b):
    """Parallel walk of input a and result b: non-string leaves must be the same object."""
    from collections.abc import Mapping
    from pypyr.dsl import SpecialTagDirective
    if isinstance(a, (str, SpecialTagDirective)):
        return True
    if isinstance(a, Mapping):
        if not isinstance(b, Mapping) or len(a) != len(b):
            return True   # keys merged after formatting: shape clause covers it
        return all(leaf_identity(ka, kb) and leaf_identity(a[ka], b[kb])
                   for ka, kb in zip(a.keys(), b.keys()))
    if isinstance(a, (list, tuple)):
        if not isinstance(b, (list, tuple)) or len(a) != len(b):
            return False
        return all(leaf_identity(x, y) for x, y in zip(a, b))
    if isinstance(a, (set, frozenset)):
        return True
    return a is b


def with_bytearrays(rng, v):
    """some bytes leaves (values / sequence members, never keys or set members) become bytearrays:
    a mutable buffer is a leaf like any other non-string — it must come back as the same object."""
    if isinstance(v, dict):
        if 'b' in v:
            return {**v, 'ba': True} if rng.random() < 0.5 else v
        if 'l' in v or 't' in v:
            t = 'l' if 'l' in v else 't'
            return {**v, t: [with_bytearrays(rng, x) for x in v[t]]}
        if 'd' in v:
            return {**v, 'd': [[k, with_bytearrays(rng, x)] for k, x in v['d']]}
        if 'share' in v:
            return {**v, 'v': with_bytearrays(rng, v['v'])}
    return v


class ListSub(list):
    """a user-defined list subclass."""


class Prop(PropBase):
    id = 'C09'
    coq_imports = ['PV.Model.Format']
    props_file = 'theories/Props/C09.v'
    n_cases = {'quick': 1000, 'thorough': 30000}
    rule = ('cases = (context, container tree) with dict / CommentedMap / OrderedDict maps, list / CommentedSeq / user list subclasses, set / frozenset, '
            'tuples, sets, shared sub-objects, special tags, bytes, opaque objects; leaves are format '
            'strings or scalars. deep snapshots of input and context are taken before and after the '
            'real call. non-trivial = the value is a container or the result differs from the input')
    trusted_base = [
        'purity (no mutation) holds of the Gallina model by construction; for the real code it is '
        'checked only on the generated cases by before/after snapshots (value and identity)',
        'CPython str.format tokenisation is modelled, not derived (see C08)',
        'Tie B (tools/py2coq_c08.py -> Gen/GenC08.v, C09_source_*_is_model): the type dispatch of '
        'RecursiveFormatter._get_formatted_iterable is re-translated from the current source and proved '
        'to be one step of fmt_iter (leaf identity, list / tuple / set / dict element-wise, keys and '
        'values); assumed: isinstance over the value universe is the table classes_of of '
        'Model/FormatSrc.v, obj.__class__(items) rebuilds the same kind of container (subclasses are '
        'outside the value universe), the memo-by-id() cache is transparent, and the primitives listed '
        'under C08',
    ]

    def generate(self, rng, n, tier):
        cases = []
        from props.C08 import gen_walrus_case, gen_rf_case
        for _ in range(n):
            if rng.random() < 0.08:
                # containers reached THROUGH an expression (plain, :rf, :ff): mapping keys, values and members
                # are all formatted by the rule of that expression
                c = gen_rf_case(rng)
                c.update(dict_cls='dict', list_cls='list', frozen=False)
                cases.append(c)
                continue
            if rng.random() < 0.05:
                # !py strings that bind names with := (written with and without spaces): nothing of it may
                # reach the context
                c = gen_walrus_case(rng)
                c.update(dict_cls='dict', list_cls='list', frozen=False)
                cases.append(c)
                continue
            if rng.random() < 0.03:
                # containers that compare equal but are not the same (1 == True == 1.0 in Python): each keeps
                # its own leaves
                a, b = rng.sample([1, True], 2) if rng.random() < 0.7 else rng.sample([0, False], 2)
                tail = rng.choice(['{k}', 'lit', '{k}-{n}'])
                t1, t2 = {'t': [a, tail]}, {'t': [b, tail]}
                val = rng.choice([{'l': [t1, t2]}, {'d': [['p', t1], ['q', t2]]}, {'t': [t1, 'mid', t2]},
                                  {'l': [{'l': [t1]}, t2, t1]}])
                cases.append({'ctx': [['k', 'x'], ['n', 3]], 'val': val, 'dict_cls': 'dict', 'list_cls': 'list',
                              'frozen': False})
                continue
            pairs, cmap = G.gen_context(rng)
            avail = [k for k, _ in pairs]
            p_fmt = rng.choice([0.0, 0.15, 0.4])
            keygen = G.formattable_keygen(avail, cmap) if rng.random() < 0.5 else None
            val = G.gen_tree(rng, 3, lambda g: G.gen_leaf_fmt(g, avail, cmap, p_fmt) if p_fmt
                             else G.gen_scalar(g), keygen)
            if rng.random() < 0.25:
                shared = {'share': 1, 'v': G.gen_tree(rng, 2, lambda g: G.gen_leaf_fmt(g, avail, cmap, 0.3))}
                val = {'l': [shared, val, shared]} if rng.random() < 0.5 else \
                      {'d': [['first', shared], ['mid', val], ['again', shared]]}
            if rng.random() < 0.3:
                if rng.random() < 0.4:
                    val = {'l': [val, {'b': rng.choice(['raw', '{a}', 'buf'])}]} if rng.random() < 0.5 else \
                          {'d': [['tree', val], ['buf', {'b': rng.choice(['raw', '{a}', ''])}]]}
                val = with_bytearrays(rng, val)
            cases.append({'ctx': pairs, 'val': val,
                          'dict_cls': rng.choice(['dict', 'dict', 'CommentedMap', 'OrderedDict']),
                          'list_cls': rng.choice(['list', 'list', 'CommentedSeq', 'UserList']),
                          'frozen': rng.random() < 0.25})
        return cases

    def run_impl(self, case):
        import collections
        from pypyr.context import Context
        from pypyr.errors import get_error_name
        from ruamel.yaml.comments import CommentedMap
        cls = {'dict': dict, 'CommentedMap': CommentedMap,
               'OrderedDict': collections.OrderedDict}[case.get('dict_cls', 'dict')]
        opaque = {}
        ctx = Context(pv.to_py({'d': case['ctx']}, opaque))
        from ruamel.yaml.comments import CommentedSeq
        lcls = {'list': list, 'CommentedSeq': CommentedSeq, 'UserList': ListSub}[case.get('list_cls', 'list')]
        val = pv.to_py(case['val'], opaque, dict_cls=cls, list_cls=lcls,
                       set_cls=frozenset if case.get('frozen') else set)
        canon = pv.Canon(opaque)
        before_ctx, before_val = canon(dict(ctx)), canon(val)
        ids_before = sorted(id(x) for x in _nodes(val))
        try:
            out = ctx.get_formatted_value(val)
            res = ['ok', canon(out)]
        except RecursionError:
            out, res = None, ['err', 'RecursionError', '']
        except Exception as e:
            out, res = None, ['err', get_error_name(e), str(e)]
        obs = {'res': res,
               'ctx_unchanged': pv.pv_equal(before_ctx, canon(dict(ctx))),
               'val_unchanged': pv.pv_equal(before_val, canon(val))
               and ids_before == sorted(id(x) for x in _nodes(val))}
        if res[0] == 'ok':
            obs['types_in'] = type_walk(val, [])
            obs['types_out'] = type_walk(out, [])
            obs['leaf_identity'] = leaf_identity(val, out)
        return obs

    def coq_check(self, case, obs):
        ctx = pv.coq_dict(case['ctx'])
        val = pv.coq_val(case['val'])
        res = obs['res']
        if res[0] == 'err' and res[1] == 'RecursionError':
            return f'(if is_unsup (format_value FUEL {ctx} {val}) then 0 else 1)%nat'
        return f'(verdict val_eqb (format_value FUEL {ctx} {val}) {pv.coq_res(res, pv.coq_val)})'

    def coq_model_obs(self, case):
        return f'format_value FUEL {pv.coq_dict(case["ctx"])} {pv.coq_val(case["val"])}'

    def monitor(self, case, obs):
        out = []
        if not obs['ctx_unchanged']:
            out.append(fail('context-mutated', 'context differs after formatting'))
        if not obs['val_unchanged']:
            out.append(fail('input-mutated', 'the formatted value differs after formatting'))
        res = obs['res']
        if res[0] == 'ok':
            if obs['types_in'] != obs['types_out'] and len(obs['types_in']) == len(obs['types_out']):
                out.append(fail('container-types', f'container types {obs["types_in"]} became {obs["types_out"]}'))
            if not obs['leaf_identity']:
                out.append(fail('leaf-identity', 'a non-string leaf came back as a different object'))
        if res[0] == 'ok':
            cmap = {k: x for k, x in case['ctx']}
            bad = unformatted_keys(strip_share(case['val']), res[1], cmap)
            if bad:
                out.append(fail('key-not-formatted', f'mapping key {bad[0]!r} should have been formatted to {bad[1]!r}; result keys: {bad[2]!r}'))
        plain = strip_share(case['val'])
        # members are formatted element-wise: the documented formatting rules (clean-room evaluator of
        # C08) applied to the whole tree
        from props.C08 import ref_format, RefUnsupported, RefMissing
        try:
            want = ref_format(plain, {k: x for k, x in case['ctx']}, False, 0)
        except (RefUnsupported, RefMissing):
            want = None
        if want is not None and not (res[0] == 'ok' and pv.pv_equal(res[1], want)):
            out.append(fail('elementwise', f'{plain!r} formatted to {res!r}; formatting each member by the '
                                           f'documented rules gives {want!r}'))
        if not G.has_brace(plain):
            if not (res[0] == 'ok' and pv.pv_equal(res[1], plain)):
                out.append(fail('no-brace-identity', f'brace-free value changed: {res!r}'))
        return out

    def nontrivial(self, case, obs):
        v = case['val']
        return isinstance(v, dict) or obs['res'][0] == 'err' or not pv.pv_equal(obs['res'][1], v)

    def describe(self, case, obs):
        v = strip_share(case['val'])
        tags = ['res:' + (obs['res'][0] if obs['res'][0] == 'ok' else obs['res'][1]),
                'cls:' + case.get('dict_cls', 'dict'), 'lcls:' + case.get('list_cls', 'list'),
                'size:' + str(min(G.pv_size(v) // 4 * 4, 20)),
                'brace-free' if not G.has_brace(v) else 'has-brace']
        if 'share' in str(case['val']):
            tags.append('shared-subobject')
        return tags


def _nodes(o):
    from collections.abc import Mapping
    yield o
    if isinstance(o, Mapping):
        for k, x in o.items():
            yield from _nodes(x)
    elif isinstance(o, (list, tuple)):
        for x in o:
            yield from _nodes(x)


def expected_key(k, cmap):
    """the formatted form of a key built only from plain text and '{ident}' references to
    plain scalars (str.format is the oracle); None when the key is outside that fragment."""
    import string
    if isinstance(k, str):
        if '{' not in k and '}' not in k:
            return k
        try:
            items = list(string.Formatter().parse(k))
        except ValueError:
            return None
        for lit, name, spec, conv in items:
            if name is None:
                continue
            if spec or conv or not name.isidentifier() or name not in cmap:
                return None
            v = cmap[name]
            if isinstance(v, bool) or not isinstance(v, (str, int)) or G.has_brace(v):
                return None
        if len(items) == 1 and items[0][1] is not None and not items[0][0]:
            return cmap[items[0][1]]
        return k.format(**{n: cmap[n] for _, n, _, _ in items if n is not None})
    if isinstance(k, dict) and 't' in k:
        xs = [expected_key(x, cmap) for x in k['t']]
        return None if any(x is None and y is not None for x, y in zip(xs, k['t'])) else {'t': xs}
    if isinstance(k, (int,)) and not isinstance(k, bool):
        return k
    return None


def unformatted_keys(inp, out, cmap):
    """walk input and result in parallel; report a key whose expected formatted form is absent."""
    if isinstance(inp, dict) and 'd' in inp and isinstance(out, dict) and 'd' in out:
        out_keys = [k for k, _ in out['d']]
        for k, v in inp['d']:
            ek = expected_key(k, cmap)
            if ek is not None and not any(pv.pv_equal(ek, ok) for ok in out_keys):
                return (k, ek, out_keys)
        if len(inp['d']) == len(out['d']):
            for (_, v), (_, w) in zip(inp['d'], out['d']):
                r = unformatted_keys(v, w, cmap)
                if r:
                    return r
    for t in ('l', 't'):
        if isinstance(inp, dict) and t in inp and isinstance(out, dict) and t in out and len(inp[t]) == len(out[t]):
            for v, w in zip(inp[t], out[t]):
                r = unformatted_keys(v, w, cmap)
                if r:
                    return r
    return None
