"""C07 — runErrors records every step failure exactly once and accurately."""
import engine
from core import fail
from props.engine_common import RefProp, EngineProp


class Prop(RefProp):
    id = 'C07'
    props_file = 'theories/Props/C07.v'
    aspects = ('errors', 'outcome')
    n_cases = {'quick': 600, 'thorough': 20000}
    profile = {'bodies': {'probe': 30, 'fail': 35, 'incr': 5, 'set': 2, 'call': 18, 'jump': 3, 'switch': 2,
                          'stop': 1, 'stoppipeline': 0, 'stopstepgroup': 1, 'clear': 0, 'clearall': 0, 'pype': 0},
               'p_swallow': 0.4, 'p_cached': 0.2, 'p_retry': 0.3, 'p_foreach': 0.25, 'p_onerror': 0.4, 'p_handlers': 0.7,
               'n_pipes': (1, 1), 'n_groups': (2, 5)}
    rule = ('failing steps in loops with swallow, under retry, inside called groups (nested) whose callers '
            'are swallowed or retried, inside failure handlers, with onError payloads containing formatting '
            'expressions. Monitors: reference interpreter (one entry per escaping failure, name, message, '
            'step, swallowed, in order); line/col against the generator bookkeeping; exception '
            'objects pairwise distinct')
    trusted_base = EngineProp.engine_trusted

    def monitor(self, case, obs):
        out = super().monitor(case, obs)
        if len(case['lib']) == 1:
            _, pos = engine.emit_pipeline(case['lib'][0][1], case.get('flow'))
            valid = {}
            groups = dict((g, s) for g, s in case['lib'][0][1])
            for (g, idx), (line, col) in pos.items():
                st = groups[g][idx]
                valid[(line, col)] = engine.BODIES[st['body']][0]
            # every entry carries the position of the step that recorded it (none for a step written
            # as a bare module name): compared with where the reference interpreter says it was recorded
            import refinterp
            ref = refinterp.reference(case)
            errs = engine.run_errors(obs)
            if ref is not None and len(ref.get('error_pos', [])) == len(errs) == len(ref['errors']):
                for e, p in zip(errs, ref['error_pos']):
                    if p is None:
                        continue
                    want = (None, None) if p[3] else pos.get((p[1], p[2]))
                    if want is not None and (e.get('line'), e.get('col')) != want:
                        out.append(fail('line-col', f'runErrors entry of step {e.get("step")!r} (group {p[1]!r}, '
                                                    f'index {p[2]}) says line/col {(e.get("line"), e.get("col"))}, '
                                                    f'it is written at {want}'))
                        break
            for e in engine.run_errors(obs):
                key = (e.get('line'), e.get('col'))
                if e.get('line') is None:
                    continue
                if key not in valid or valid[key] != e.get('step'):
                    out.append(fail('line-col', f'runErrors entry for step {e.get("step")!r} says line/col {key}, '
                                                f'no such step is written there'))
            n_entries = len(engine.run_errors(obs))
            pat = obs['eid_pattern'][:n_entries]
            cached = '"cached"' in __import__('json').dumps(case['lib'])   # pre-built objects recur by design
            if len(set(pat)) != len(pat) and not cached:
                out.append(fail('recorded-twice', f'the same exception object appears twice in runErrors: pattern {pat}'))
        return out
