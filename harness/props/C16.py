"""C16 - structured file steps round-trip and format every string node."""
import c16_gen as G
import c16_run as R
import pv
from core import PropBase, fail

def coq_res(r, okf):
    if r[0] == 'ok':
        return f'(Ok {okf(r[1]) if len(r) > 1 else ""})'
    return f'(Err {pv.coq_str(r[1])} {pv.coq_str(r[2] if len(r) > 2 else "")})'


def coq_files(files):
    return pv.coq_list([f'({pv.coq_str(p)}, {pv.coq_str(t)})' for p, t in files])


def coq_ctx(case):
    return pv.coq_dict(case['ctx'] + R.step_inputs(case))


def is_scalar_root(v):
    return v is None or isinstance(v, (bool, int)) or (isinstance(v, dict) and ('f' in v or 'fx' in v))


def is_map(v):
    return isinstance(v, dict) and 'd' in v


def truthy(v):
    if isinstance(v, dict):
        for t in ('d', 'l', 't', 's'):
            if t in v:
                return len(v[t]) > 0
        return True
    return bool(v)


def lookup(dpv, k):
    hits = [x for kk, x in dpv['d'] if type(kk) is type(k) and kk == k]
    return hits[-1] if hits else ('__absent__',)


BINARY_ENC = "binary mode doesn't take an encoding argument"


def classify(fmt, v, default):
    """Fingerprint for a round-trip difference, given the value that was written."""
    if fmt == 'yaml':
        strs = list(R._strings(v))
        if any(R.has_nel(s) for s in strs):
            return 'yaml-nel-not-roundtripped'
        if any(R.yaml_dq(s) and ' ' in s for s in strs):
            return 'yaml-dq-fold-extra-space'
    return default


class Prop(PropBase):
    id = 'C16'
    coq_imports = ['PV.Model.Codec']
    props_file = 'theories/Props/C16.v'
    n_cases = {'quick': 1200, 'thorough': 12000}
    rule = ('cases = for each of json/yaml/toml: (a) write->fetch through the REAL steps on temp files: a '
            'context (values referencing each other), a payload tree of mappings/sequences whose leaves '
            'and keys are type-ambiguous strings (\'\', true, 1, null, ~, blanks, multi-line, controls, '
            'non-ASCII, astral, {{ }} escapes, format expressions), ints incl. > 64 bit, bools, None, floats '
            '(incl. inf/nan/-0.0, Python side only), rarely tuples/sets/non-str keys/scalar or list roots; '
            'with key / formatted key / falsy key / no key / path-only input; encodings None, utf-8, '
            'utf-16; optional file context parser; ~6% error injections; (b) fileformat* on generated '
            'documents in several layouts and on hand-written texts (comments, block scalars, anchors, '
            'inline tables, \\u escapes). compared: bytes written vs json_print; json.load vs json_parse; '
            'files and final context vs the model (yaml/toml: model instantiated with the observed '
            'print/parse pair); yaml_representable Coq vs Python. non-trivial = both steps succeeded on a '
            'non-empty container, or an error path; distinct by case hash')
    trusted_base = [
        'PARTIAL: ruamel.yaml, tomllib and tomli-w are NOT modelled; their round-trip law '
        '(parse (print v) = v on yaml_representable / toml_representable values, TOML up to key order) is '
        'a hypothesis of C16_write_fetch_yaml / _toml / C16_fileformat_string_nodes, checked only on the '
        'generated payloads (monitor "codec-law"); known exceptions are listed in known_findings.json',
        'CPython json.dump(indent=2, ensure_ascii=False) / json.load are MODELLED (jprint, json_parse) and '
        'tied to the real ones byte-for-byte on the generated cases only; floats, lone surrogates and the '
        'int-string digit limit are outside the model',
        'files are modelled as path -> text; the on-disk encoding (encoding= input), directory creation, '
        'globbing and the temp-file protocol of in-place edits (C15) are outside the model',
        'step error messages are compared by exception class only',
    ]

    # ------------------------------------------------------------------ generation
    def generate(self, rng, n, tier):
        return G.generate(rng, n)

    # ------------------------------------------------------------------ implementation
    def run_impl(self, case):
        if case['kind'] == 'wf':
            if case.get('pre'):
                return R.in_child(R.run_wf, case)     # history cases: isolated process
            return R.run_wf(case)
        return R.run_ff(case)

    # ------------------------------------------------------------------ Coq side
    def _codec(self, case, obs):
        if case['fmt'] == 'json':
            return 'json_codec'
        o = obs.get('oracle', {})
        tp, tl = [], []
        if case['kind'] == 'wf':
            if obs['fp'][0] == 'ok' and 'print' in o:
                tp.append((obs['fp'][1], o['print']))
                if o['print'][0] == 'ok' and 'parse' in o:
                    tl.append((o['print'][1], o['parse']))
        else:
            if o.get('in_parsed'):
                tl.append((obs['in_text'], o['in_parsed']))
            if o.get('formatted', ['err'])[0] == 'ok' and 'print' in o:
                tp.append((o['formatted'][1], o['print']))
        tps = pv.coq_list([f'({pv.coq_val(v)}, {coq_res(r, pv.coq_str)})' for v, r in tp])
        tls = pv.coq_list([f'({pv.coq_str(s)}, {coq_res(r, pv.coq_val)})' for s, r in tl])
        return f'(table_codec {tps} {tls})'

    def coq_check(self, case, obs):
        if 'skip' in obs or not R.modelable(case) or not R.modelable(obs):
            return '2%nat'
        for k in ('write', 'fetch', 'res', 'parser'):
            r = obs.get(k)
            if r and r[0] == 'err' and (r[1].startswith('Unicode') or BINARY_ENC in str(r[2:])):
                return '2%nat'     # the on-disk encoding is outside the model
        F = R.FMT[case['fmt']]['coq']
        ctx = coq_ctx(case)
        c = self._codec(case, obs)
        checks = []
        if case['kind'] == 'wf':
            files = coq_files(obs['files'])
            if obs['write'] is not None:
                w = f'(Ok {files})' if obs['write'][0] == 'ok' else coq_res(obs['write'], None)
                checks.append(f'verdict_n fs_eqb (write_step {F} {c} {ctx} []) {w}')
            if obs['fetch'] is not None:
                fe = coq_res(obs['fetch'], lambda d: pv.coq_dict(d['d']))
                checks.append(f'verdict_n dict_eqb (fetch_step {F} {c} {ctx} {files}) {fe}')
            if 'parser' in obs:
                args = pv.coq_list([pv.coq_str(a) for a in obs['fetch_path'].split(' ')])
                p = obs['parser']
                pr = coq_res(p, lambda v: 'None' if v is None else f'(Some {pv.coq_val(v)})')
                checks.append(f'verdict_n opt_val_eqb (file_parser {F} {c} {args} {files}) {pr}')
            if case['fmt'] == 'yaml' and obs['fp'][0] == 'ok':
                checks.append(f'check_bool (yaml_representable {pv.coq_val(obs["fp"][1])}) '
                              f'{pv.coq_bool(R.yaml_domain(obs["fp"][1]))}')
            if case['fmt'] == 'toml' and obs['fp'][0] == 'ok':
                checks.append(f'check_bool (toml_representable {pv.coq_val(obs["fp"][1])}) '
                              f'{pv.coq_bool(R.representable("toml", obs["fp"][1]))}')
            if case['fmt'] == 'json' and 'json_load' in obs:
                jl = obs['json_load']
                o = f'(Some {pv.coq_val(jl[1])})' if jl[0] == 'ok' else 'None'
                checks.append(f'check_json_parse {pv.coq_str(obs["files"][0][1])} {o}')
        else:
            before = [] if case.get('no_infile') else [[case['in_real'], obs['in_text']]]
            r = obs['res']
            after = f'(Ok {coq_files(obs["files"])})' if r[0] == 'ok' else coq_res(r, None)
            if not (case['fmt'] == 'json' and r[0] == 'err' and r[1].endswith('JSONDecodeError')):
                # (a JSON syntax error is compared by check_json_parse below: the model's
                #  parser must reject the text too)
                checks.append(f'verdict_n fs_eqb (fileformat_step {F} {c} {ctx} {coq_files(before)}) {after}')
            if case['fmt'] == 'json':
                jl = obs['json_load_in']
                o = f'(Some {pv.coq_val(jl[1])})' if jl[0] == 'ok' else 'None'
                checks.append(f'check_json_parse {pv.coq_str(obs["in_text"])} {o}')
                if obs.get('out_parsed') and obs['out_text'] is not None:
                    po = obs['out_parsed']
                    o = f'(Some {pv.coq_val(po[1])})' if po[0] == 'ok' else 'None'
                    checks.append(f'check_json_parse {pv.coq_str(obs["out_text"])} {o}')
        return f'(worst_of {pv.coq_list(["(" + x + ")" for x in checks])})'

    def coq_model_obs(self, case):
        F = R.FMT[case['fmt']]['coq']
        ctx = coq_ctx(case)
        if case['fmt'] != 'json':
            return f'format_value FUEL {ctx} (VDict {ctx})'
        if case['kind'] == 'wf':
            return (f'(write_step {F} json_codec {ctx} [], match write_step {F} json_codec {ctx} [] with '
                    f'Ok fs => fetch_step {F} json_codec {ctx} fs | _ => Unsup end)')
        text = case.get('text', '')
        return f'fileformat_step {F} json_codec {ctx} [({pv.coq_str(case["in_real"])}, {pv.coq_str(text)})]'

    # ------------------------------------------------------------------ monitors (from the statement)
    def monitor(self, case, obs):
        return self._mon_wf(case, obs) if case['kind'] == 'wf' else self._mon_ff(case, obs)

    def _mon_wf(self, case, obs):
        out = []
        fmt = case['fmt']
        injected = any(case.get(k) for k in ('drop_write_key', 'no_write', 'write_none', 'fetch_path')) \
            or case.get('path') is None
        # The reference "formatted payload".  Where python's own string.Formatter can decide
        # every string node (literal text, {{ }} escapes, plain {name} references to plain
        # scalars) that stdlib result is the reference - no pypyr code, no model involved;
        # elsewhere it is the real Context.get_formatted_value (a consistency relation).
        std = 'fp_std' in obs
        st = obs.get('fetch_stable')
        if st and not (st['first'] and st['again']):
            out.append(fail('fetch-is-a-function-of-the-file',
                            f'{fmt}: the same fetch on the same file and an identical context gave a different '
                            f'result {"after earlier documents " + repr(case.get("pre")) + " were loaded" if not st["first"] else "when repeated"}: '
                            f'first {str(obs.get("fetch_first"))[-300:]} vs {str(obs.get("fetch"))[-300:]}',
                            'fetch-depends-on-history'))
        if injected or (obs['fp'][0] != 'ok' and not std):
            return out
        fp = obs['fp_std'] if std else obs['fp'][1]
        if not R.representable(fmt, fp):
            return out
        if std and obs['fp'][0] != 'ok':
            out.append(fail('every-string-node-formatted',
                            f'{fmt}: formatting the payload raised {obs["fp"][1:]}; by str.format rules it '
                            f'formats to {fp!r}', 'payload-format-raises'))
            return out
        if std and not R.same(obs['fp'][1], fp):
            out.append(fail('every-string-node-formatted',
                            f'{fmt}: the payload formats to {obs["fp"][1]!r}; python\'s string.Formatter gives '
                            f'{fp!r} for the same string nodes', 'string-node-not-formatted'))
        # what the step wrote, parsed directly
        zp = obs.get('file_parsed')
        if zp is not None and obs['write'][0] == 'ok':
            if zp[0] != 'ok':
                out.append(fail('written-file', f'{fmt}: the written file does not parse: {zp[1:]}',
                                classify(fmt, fp, f'{fmt}-written-unparsable')))
            elif not R.same(zp[1], fp):
                out.append(fail('written-equals-formatted-payload',
                                f'{fmt}: the file written holds {zp[1]!r}, the formatted payload is {fp!r}',
                                classify(fmt, fp, f'{fmt}-written-differs')))
        # the third-party codec law on this payload (hypothesis instance)
        if obs['fp'][0] == 'ok' and not R.representable(fmt, obs['fp'][1]):
            pass
        elif 'rt_ok' in obs and not obs['rt_ok']:
            out.append(fail('codec-law', f'{fmt}: parse(print v) != v for the formatted payload {fp!r}: '
                                         f'got {obs["oracle"].get("parse")!r}',
                            classify(fmt, fp, f'{fmt}-codec-law')))
        elif 'rt_ok' not in obs:
            out.append(fail('codec-law', f'{fmt}: the serialiser rejected a representable payload {fp!r}: '
                                         f'{obs["oracle"].get("print")!r}', f'{fmt}-codec-rejects'))
            return out
        if obs['write'][0] != 'ok' and obs['write'][1] == 'UnicodeEncodeError' and obs.get('encodable') is False:
            return out          # the document cannot be written in the requested encoding
        if obs['write'][0] != 'ok':
            out.append(fail('write-raises', f'{fmt}: filewrite raised {obs["write"][1:]} for a representable '
                                            f'payload {fp!r}', f'{fmt}-write-raises'))
            return out
        # the key the fetch step was given, formatted by the real formatter
        key = ('__nokey__',)
        if 'key_f' in obs:
            if obs['key_f'][0] != 'ok':
                return out
            key = obs['key_f'][1]
        fe = obs['fetch']
        has_key = key != ('__nokey__',) and truthy(key)
        if has_key:
            if fe[0] != 'ok':
                if is_scalar_root(fp) and fe[1] == 'TypeError' and 'has no len()' in fe[2]:
                    out.append(fail('fetch-raises', f'{fmt}: fetch stored the scalar document {fp!r} and then '
                                                    f'raised {fe[1]}: {fe[2]}', 'fetch-scalar-root-len-typeerror'))
                else:
                    out.append(fail('fetch-raises', f'{fmt}: fetch raised {fe[1:]} for a representable '
                                                    f'payload {fp!r}', f'{fmt}-fetch-raises'))
                return out
            final = fe[1]
            got = lookup(final, key)
            if not R.same(got, fp):
                out.append(fail('fetched-equals-formatted-payload',
                                f'{fmt}: value fetched at key {key!r} is {got!r}, the formatted payload '
                                f'is {fp!r}', classify(fmt, fp, f'{fmt}-fetched-differs')))
        elif is_map(fp):
            if fe[0] != 'ok':
                out.append(fail('fetch-raises', f'{fmt}: fetch (no key) raised {fe[1:]} for a representable '
                                                f'mapping payload {fp!r}', f'{fmt}-fetch-raises'))
                return out
            final = fe[1]
            for k, x in fp['d']:
                got = lookup(final, k)
                if not R.same(got, x):
                    out.append(fail('merged-at-root', f'{fmt}: after the root merge context[{k!r}] is {got!r}, '
                                                      f'the formatted payload has {x!r}',
                                    classify(fmt, fp, f'{fmt}-merged-differs')))
                    break
        # the matching file context parser
        if 'parser' in obs and is_map(fp):
            p = obs['parser']
            if p[0] != 'ok':
                out.append(fail('parser', f'{fmt}: context parser raised {p[1:]} on the written file',
                                f'{fmt}-parser-raises'))
            elif not R.same(p[1], fp):
                out.append(fail('parser', f'{fmt}: context parser returned {p[1]!r}, formatted payload {fp!r}',
                                classify(fmt, fp, f'{fmt}-parser-differs')))
        return out

    def _mon_ff(self, case, obs):
        out = []
        fmt = case['fmt']
        if 'skip' in obs:
            return out
        o = obs['oracle']
        if case.get('no_infile') or o['in_parsed'][0] != 'ok' or obs.get('expected', ['err'])[0] != 'ok':
            return out
        exp = obs['expected'][1]
        if 'expected_std' in obs:
            # python's own formatter decides every string node of this document: use that
            if not R.same(exp, obs['expected_std']):
                out.append(fail('every-string-node-formatted',
                                f'{fmt}: node-wise formatting gives {exp!r}; python\'s string.Formatter gives '
                                f'{obs["expected_std"]!r}', 'string-node-not-formatted'))
            exp = obs['expected_std']
        if R.has_tag(exp, 'other') or R.has_tag(o['in_parsed'][1], 'other'):
            return out
        doc_ok = {'json': lambda v: R.plain_data(v, True, True),
                  'yaml': lambda v: R.plain_data(v, True, False),
                  'toml': lambda v: R.plain_data(v, False, True) and is_map(v)}[fmt]
        if not doc_ok(exp):
            return out
        if obs['res'][0] != 'ok' and obs['res'][1].startswith('Unicode') and obs.get('out_encodable') is False:
            return out          # the formatted document cannot be written in the requested encodingOut
        if obs['res'][0] != 'ok' and fmt == 'toml' and BINARY_ENC in str(obs['res'][2:]) and case.get('default_enc'):
            out.append(fail('fileformat-raises',
                            f'toml: with config.default_encoding={case["default_enc"]!r} fileFormatToml raised '
                            f'{obs["res"][1]}: {obs["res"][2]}', 'toml-fileformat-default-encoding'))
            return out
        if obs['res'][0] != 'ok':
            out.append(fail('fileformat-raises', f'{fmt}: fileformat raised {obs["res"][1:]}; the formatted '
                                                 f'document {exp!r} is representable', f'{fmt}-fileformat-raises'))
            return out
        if obs.get('decode', 'ok') != 'ok':
            ei, eo = R.ff_encodings(case)
            out.append(fail('output-encoding',
                            f'{fmt}: encodingIn={ei} encodingOut={eo} '
                            f'({"in place" if (case.get("out_real") or case["in_real"]) == case["in_real"] else "to out"}): '
                            f'{obs["decode"]}', f'{fmt}-output-not-in-encodingOut'))
            return out
        po = obs.get('out_parsed')
        if po is None or po[0] != 'ok':
            out.append(fail('fileformat-output', f'{fmt}: the output file does not parse: {po!r}',
                            classify(fmt, exp, f'{fmt}-fileformat-output-unparsable')))
        elif not R.same(po[1], exp):
            out.append(fail('fileformat-string-nodes',
                            f'{fmt}: output document {po[1]!r} is not the input document with every string node '
                            f'formatted {exp!r}', classify(fmt, exp, f'{fmt}-fileformat-nodes-differ')))
        return out

    # ------------------------------------------------------------------ evidence
    def nontrivial(self, case, obs):
        if 'skip' in obs:
            return False
        if case['kind'] == 'wf':
            if obs.get('write') and obs['write'][0] != 'ok':
                return True
            fe = obs.get('fetch')
            if fe is None:
                return False
            return fe[0] != 'ok' or (obs['fp'][0] == 'ok' and truthy(obs['fp'][1]))
        return obs['res'][0] != 'ok' or obs.get('out_text') != obs.get('in_text') or bool(obs.get('out_text'))

    def describe(self, case, obs):
        tags = [f'{case["kind"]}:{case["fmt"]}']
        if 'skip' in obs:
            return tags + ['ff:skipped-input-not-encodable']
        if case['kind'] == 'ff' and case['fmt'] != 'toml':
            ei, eo = R.ff_encodings(case)
            tags += [f'encIn:{case.get("enc_in") or case.get("enc") or "default"}',
                     f'encOut:{case.get("enc_out") or case.get("enc") or "default"}',
                     'enc-in-out:' + ('same' if ei == eo else 'different')]
        if case['kind'] == 'wf':
            w, fe = obs.get('write'), obs.get('fetch')
            tags.append('write:' + ('skipped' if w is None else w[0] if w[0] == 'ok' else w[1].split('.')[-1]))
            tags.append('fetch:' + ('skipped' if fe is None else fe[0] if fe[0] == 'ok' else fe[1].split('.')[-1]))
            if case.get('pre'):
                tags.append('history:' + ('yaml-1.1' if any('%YAML 1.1' in t for t in case['pre']) else 'other'))
            if 'payload' not in case:
                tags.append('whole-context')
            elif obs['fp'][0] == 'ok':
                v = obs['fp'][1]
                tags.append('root:' + ('map' if is_map(v) else 'seq' if isinstance(v, dict) and 'l' in v
                                       else 'str' if isinstance(v, str) else 'scalar'))
                tags.append('representable' if R.representable(case['fmt'], v) else 'not-representable')
            tags.append('key:' + ('str-input' if case.get('fetch_form') == 'str' else
                                  'none' if 'key' not in case else
                                  'formatted' if isinstance(case['key'], str) and '{' in case['key'] else
                                  'truthy' if truthy(case['key']) else 'falsy'))
            if 'parser' in obs:
                tags.append('parser:' + (obs['parser'][0] if obs['parser'][0] == 'ok' else obs['parser'][1]))
            if obs.get('rt_ok') is False:
                tags.append('codec-law-broken')
        else:
            tags.append('ff:' + (obs['res'][0] if obs['res'][0] == 'ok' else obs['res'][1].split('.')[-1]))
            tags.append('ff-out:' + ('inplace' if case.get('out') is None else
                                     'same' if case.get('out_real') == case['in_real'] else 'other'))
            if 'text' in case:
                tags.append('hand-text')
        if case.get('enc'):
            tags.append('enc:' + case['enc'])
        if case.get('default_enc'):
            tags.append('default-enc:' + case['default_enc'])
        s = repr(case.get('payload', case.get('doc', '')))
        for name, needle in (('nel', '\\x85'), ('braces', '{{'), ('fmt-expr', '{n}'), ('astral', '\\U0001f600'),
                             ('multiline', '\\n'), ('float', "'f'"), ('nonfinite', "'fx'"), ('bigint', '9223372036854775808')):
            if needle in s:
                tags.append(name)
        return tags
