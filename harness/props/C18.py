"""C18 — CLI exit codes and the argument-to-context contract."""
import re

import c18_gen
import c18_mon
import c18_run
import pv
from core import PropBase

PID = {'keyvaluepairs': 'PKeyValuePairs', 'argskwargs': 'PArgsKwargs', 'dict': 'PDict',
       'list': 'PList', 'string': 'PString', 'keys': 'PKeys', 'json': 'PJson'}


def coq_strs(l):
    return pv.coq_list([pv.coq_str(s) for s in l])


def coq_args(a):
    return 'None' if a is None else f'(Some {coq_strs(a)})'


def coq_optstr(s):
    return pv.coq_opt(s, pv.coq_str)


def coq_optstrs(l):
    return pv.coq_opt(l, coq_strs)


def coq_optbool(b):
    return pv.coq_opt(b, pv.coq_bool)


def coq_optdict(d):
    return pv.coq_opt(d, pv.coq_dict)


def coq_parser(p):
    return 'None' if p is None else f'(Some {PID[p]})'


def coq_parser_res(res):
    """['ok', None | {'d': …}] | ['err', name, msg] -> res (option dict)"""
    if res[0] == 'ok':
        v = res[1]
        if v is None:
            return '(Ok None)'
        if isinstance(v, dict) and 'd' in v:
            return f'(Ok (Some {pv.coq_dict(v["d"])}))'
        return None
    return f'(Err {pv.coq_str(res[1])} {pv.coq_str(res[2])})'


def coq_cli_args(p):
    return (f'(mk_cli_args {pv.coq_str(p["name"])} {coq_strs(p["ctx"])} {coq_optstrs(p["groups"])} '
            f'{coq_optstr(p["success"])} {coq_optstr(p["failure"])} {coq_optstr(p["dir"])} '
            f'{pv.coq_opt(p["log"], pv.coq_Z)} {coq_optstr(p["logpath"])})')


def coq_call(c):
    return (f'(mk_run_call {pv.coq_str(c["name"])} {coq_args(c["args_in"])} '
            f'{coq_optbool(c["parse_args"])} {coq_optdict(c["dict_in"])} {coq_optstrs(c["groups"])} '
            f'{coq_optstr(c["success"])} {coq_optstr(c["failure"])} {coq_optstr(c["loader"])} '
            f'{pv.coq_str(c["dir"])})')


def coq_end(e):
    k = e[0]
    if k == 'completed':
        return 'Completed'
    if k == 'stopped':
        return 'Stopped'
    if k == 'kbd':
        return 'RaisedKeyboardInterrupt'
    if k == 'exc':
        return f'(RaisedException {pv.coq_str(e[1])} {pv.coq_str(e[2])})'
    if k == 'sysexit':
        return f'(RaisedSystemExit {pv.coq_opt(e[1], pv.coq_Z)})'
    return f'(RaisedOtherBase {pv.coq_str(e[1])} {pv.coq_str(e[2])})'


def nat_max(terms):
    acc = terms[0]
    for t in terms[1:]:
        acc = f'(Nat.max {acc} {t})'
    return acc


def planned_end(case, obs=None):
    """How the runner call ends, from the case alone (subprocess runs cannot spy on it)."""
    e = case['ending']
    how = e['how']
    if how in ('complete', 'stoppipeline', 'stopstepgroup', 'missing-group'):
        return ['completed']
    if how in ('stop', 'stop-raised-by-step', 'raise-then-stop-in-failure-handler'):
        return ['stopped']
    if how == 'kbd':
        return ['kbd']
    if how == 'sysexit':
        return ['sysexit', e['boom'].get('code')]
    if how == 'startup-error':
        # main's own set-up failed: to the ladder an exception like any other.  Type and message
        # depend on the machine (paths); they are read off the error line when there is one.
        m = re.search(r'\n\x1b\[91m(\w+): ([^\x1b]*)\x1b\[0;0m\n', (obs or {}).get('stderr', ''))
        return ['exc', m.group(1), m.group(2)] if m else ['exc', 'StartUpError', '(no error line on stderr)']
    if 'boom' not in e:
        return ['exc', 'Exception', '(not predictable from the case)']
    exc = c18_run.make_exc(e['boom'])
    if how == 'otherbase':
        return ['base', type(exc).__name__, str(exc)]
    return ['exc', type(exc).__name__, str(exc)]


class Prop(PropBase):
    id = 'C18'
    coq_imports = ['PV.Model.Parsers', 'PV.Model.Cli']
    props_file = 'theories/Props/C18.v'
    n_cases = {'quick': 1200, 'thorough': 12000}
    rule = ('cases = (a) a built-in parser module called THREE times (every container of the earlier result '
            'changed in place between the calls) on None / [] / a list of tokens built from '
            'keys and values with "=", blanks, quotes, unicode, empty strings and duplicates (json: '
            'rendered objects with random whitespace and duplicate keys, malformed texts, non-objects); '
            '(b) all 27 shapes of (parse_args, args_in, dict_in) for Pipeline._get_parse_input; '
            '(c) pypyr.pipelinerunner.run TWICE in one process with a parser / args_in / dict_in / parse_args, a '
            'probe as first step and a step that changes every context container in place after it; (d) pypyr.cli.main(argv) in-process and `python -m pypyr` as a child '
            'process on argv rendered from a structured record (three call shapes, options in any '
            'order) against a generated pipeline that ends by completion, stop, stoppipeline, '
            'stopstepgroup, an Exception of 12 types, a handled error whose failure handler stops, '
            'KeyboardInterrupt, SystemExit, another BaseException, a parser error, a missing pipeline, a '
            'start-up fault of main itself (malformed / non-mapping ./pypyr-config.yaml, missing '
            '$PYPYR_CONFIG_GLOBAL, --logpath in a missing directory; child processes with the real config look-up) '
            'or with a group the pipeline does not have (skipped). non-trivial = parser given at least one token, an API/CLI run whose '
            'first step ran or that ended with a non-zero status; distinct by case hash')
    trusted_base = [
        'argparse (stdlib) is not modelled: Model/Cli.v parse_argv models pypyr\'s argparse '
        'CONFIGURATION for three documented call shapes and is validated against get_args() on '
        'every generated argv; other shapes are Unsup (verdict 2, counted)',
        'json.loads (stdlib) is MODELLED for objects/arrays/strings without \\u escapes/integers/'
        'true/false/null and validated by the correspondence run; floats, \\u escapes, NaN are Unsup; '
        'JSONDecodeError messages are not compared',
        'how a pipeline run ends (Completed/Stopped/raised X) is an INPUT of the CLI model: the '
        'engine that produces it is the subject of C01/C02; here it is observed by a spy around '
        'pypyr.pipelinerunner.run and, independently, planned by the generator (monitors)',
        'logging output on stdout/stderr is cut away by the harness (split_stderr) before comparing '
        'what main itself wrote; exact stdout/stderr equality is checked at --log 50 only',
        'CPython turns main()\'s return value / an escaping SystemExit into the process status '
        '(modelled as process_status; checked on real child processes for a sample)',
        'Tie B (tools/py2coq_c18.py -> Gen/GenC18.v, equalities in Proofs/GenC18Proofs.v): the '
        'translator drops docstrings, logger.* calls and annotations as effect-free; types '
        'get_parsed_context(args) as option (list string) -> option dict (json: res); reads '
        's.partition(c) as partition_first with the separator component only ever tested; leaves '
        'json.loads abstract (Section variable, instantiated with the model loader); gives lists '
        'and dicts value semantics and therefore rejects any read of an in-place-mutated container '
        'before its last mutation. For cli.main it abstracts the try body to the exception it '
        'raised, drops sys.stdout/sys.stderr writes and traceback.print_exc in handlers, takes '
        'signal.SIGINT = 2, the Python class lattice as the table raised_isinstance, and maps '
        'argparse dests to model fields by its DEST table (py_dir default = config.cwd)',
    ]

    def generate(self, rng, n, tier):
        return c18_gen.generate(rng, n, tier)

    def run_impl(self, case):
        return c18_run.run_case(case)

    # ------------------------------------------------------------ correspondence
    def coq_check(self, case, obs):
        try:
            return self.coq_check_inner(case, obs)
        except (TypeError, ValueError, KeyError, AttributeError):
            # an observation the printer has no term for (e.g. None where the code must pass
            # a string): the implementation left the model's universe -> disagree
            return '1%nat'

    def coq_check_inner(self, case, obs):
        k = case['kind']
        if k == 'parser':
            terms = []
            for key in ('res', 'again', 'third'):
                if key not in obs:
                    continue
                res = coq_parser_res(obs[key])
                if res is None:
                    return '1%nat'
                terms.append(f'(parser_verdict {PID[case["parser"]]} {coq_args(case["args"])} {res})')
            return nat_max(terms)
        if k == 'parse_input':
            if not obs['is_bool']:
                return '1%nat'
            return (f'(parse_input_verdict {coq_optbool(case["parse_args"])} {coq_args(case["args_in"])} '
                    f'{coq_optdict(case["dict_in"])} {pv.coq_bool(obs["res"])})')
        if k == 'api':
            return nat_max([
                f'(api_verdict {coq_parser(case["parser"])} {coq_optbool(case["parse_args"])} '
                f'{coq_args(case["args_in"])} {coq_optdict(case["dict_in"])} '
                f'{pv.coq_res(obs[key], lambda v: pv.coq_dict(v["d"]))})'
                for key in ('res', 'res2') if key in obs])
        return self.coq_check_cli(case, obs)

    def coq_check_cli(self, case, obs):
        argv = coq_strs(case['argv'])
        parsed = obs.get('parsed', obs)
        if 'argparse_exit' in parsed:
            return f'(argv_rejected_verdict {argv})'
        terms = [f'(argv_verdict {argv} {coq_cli_args(parsed)})']
        sub = obs['mode'] == 'subproc'
        end = planned_end(case, obs) if sub else obs['end']
        if end is None:
            return '1%nat'
        call = 'None'
        if not sub:
            if len(obs['calls']) != 1:
                return '1%nat'
            call = f'(Some {coq_call(obs["calls"][0])})'
        # what main did
        if sub:
            # a child process: only its status and streams are visible; rebuild main's outcome
            # from them in the least committal way (the status is compared separately)
            if end[0] in ('sysexit', 'base'):
                main = f'(Propagated {coq_end(end)})'
            else:
                code = {'completed': None, 'stopped': None, 'kbd': 130, 'exc': 255}[end[0]]
                main = (f'(Returned {pv.coq_opt(code, pv.coq_Z)} {pv.coq_str(obs["stdout"])} '
                        f'{pv.coq_str(obs["err_main"])} {pv.coq_bool(obs["traceback"])})')
        else:
            ret = obs['ret']
            if ret[0] == 'returned':
                if ret[1] is not None and not isinstance(ret[1], int):
                    return '1%nat'
                main = (f'(Returned {pv.coq_opt(ret[1], pv.coq_Z)} {pv.coq_str(obs["stdout"])} '
                        f'{pv.coq_str(obs["err_main"])} {pv.coq_bool(obs["traceback"])})')
            elif ret[1] == 'SystemExit':
                if ret[2] is not None and not isinstance(ret[2], int):
                    return '1%nat'
                main = f'(Propagated (RaisedSystemExit {pv.coq_opt(ret[2], pv.coq_Z)}))'
            elif ret[1] == 'KeyboardInterrupt':
                main = '(Propagated RaisedKeyboardInterrupt)'
            else:
                main = f'(Propagated (RaisedOtherBase {pv.coq_str(ret[1])} {pv.coq_str(ret[2])}))'
        quiet = parsed.get('log') == 50
        ctx = 'None'
        # the context seen by the FIRST step of the run (a failure handler's probe does not count)
        first = [r for r in obs['probe'][:1] if r['tag'] == 0]
        if first:
            ctx = f'(Some {pv.coq_dict(first[0]["ctx"])})'
        terms.append(f'(cli_verdict {pv.coq_str(obs["cwd"])} {argv} {coq_parser(case["parser"])} '
                     f'{coq_end(end)} {call} {main} {pv.coq_bool(quiet)} {pv.coq_Z(obs["status"])} {ctx})')
        return nat_max(terms)

    def coq_model_obs(self, case):
        k = case['kind']
        if k == 'parser':
            return f'run_parser {PID[case["parser"]]} {coq_args(case["args"])}'
        if k == 'parse_input':
            return (f'get_parse_input {coq_optbool(case["parse_args"])} {coq_args(case["args_in"])} '
                    f'{coq_optdict(case["dict_in"])}')
        if k == 'api':
            return (f'api_first_step_context {coq_parser(case["parser"])} {coq_optbool(case["parse_args"])} '
                    f'{coq_args(case["args_in"])} {coq_optdict(case["dict_in"])}')
        argv = coq_strs(case['argv'])
        end = coq_end(planned_end(case))
        return (f'(parse_argv {argv}, cli_main (fun _ => {end}) "<cwd>" {argv}, '
                f'cli_first_step_context {coq_parser(case["parser"])} {argv})')

    # ------------------------------------------------------------ monitors
    def monitor(self, case, obs):
        return c18_mon.monitor(case, obs)

    def nontrivial(self, case, obs):
        k = case['kind']
        if k == 'parser':
            return bool(case['args'])
        if k == 'parse_input':
            return True
        if k == 'api':
            return obs.get('probe_ran', False) or obs['res'][0] == 'err'
        return bool(obs.get('probe')) or obs.get('status', 0) != 0

    def describe(self, case, obs):
        k = case['kind']
        tags = ['kind:' + k]
        if k == 'parser':
            tags.append('parser:' + case['parser'])
            a = case['args']
            tags.append('args:' + ('None' if a is None else 'n=%d' % min(len(a), 4)))
            tags.append('res:' + (obs['res'][0] if obs['res'][0] == 'ok' else obs['res'][1]))
            if a and len({t.partition('=')[0] for t in a}) < len(a):
                tags.append('dup-keys')
        elif k == 'api':
            tags.append('api-parser:' + str(case['parser']))
            tags.append('api-parse_args:' + str(case['parse_args']))
        elif k == 'cli':
            tags.append('cli:' + case['mode'])
            tags.append('end:' + case['ending']['how'])
            tags.append('form:' + case['form'])
            if case.get('startup'):
                tags.append('startup:' + case['startup'])
            if 'argparse_exit' in obs.get('parsed', obs):
                tags.append('argparse-rejected')
            else:
                tags.append('status:' + str(obs.get('status')))
        return tags
