"""C15 — in-place file rewrites are all-or-nothing.

case  = scenario (step, files, ctx, in, out) + one fault set [[k, 'raise'|'crash'], ...]
obs   = what the REAL step did on a scratch directory with the primitives of
        pypyr.utils.filesystem wrapped (harness/c15_fs.py): the directory snapshot before every
        primitive, the outcome, the final snapshot; plus the data plan of each file (which chunks
        the formatter/serialiser produces, or where it raises) taken from a fault-free reference
        run - the serialisers are a parameter of the model.
"""
import json
import logging
import os
import re
import shutil
import subprocess
import sys
import tempfile

import c15_fs as F
import c15_gen as G
import pv
from core import PropBase, fail

logging.getLogger('pypyr').addHandler(logging.NullHandler())
logging.getLogger('pypyr').propagate = False

TMP_RE = re.compile(r'^tmp[a-z0-9_]{8}$')


def cs(s):
    """latin-1 text (bytes) or ascii name -> Coq string"""
    return pv.coq_str(s.encode('latin-1'))


def coq_entries(entries):
    return pv.coq_list([f'({cs(n)}, {cs(b)})' for n, b in entries])


def coq_outcome(o):
    if o[0] == 'ok':
        return 'Done'
    if o[0] == 'crashed':
        return 'Crashed'
    if o[1] == 'inj':
        return f'(Raised (EInj {o[2]}%nat))'
    if o[1] == 'format':
        return '(Raised EFormat)'
    if o[1] == 'load':
        return '(Raised ELoad)'
    if o[1] == 'config':
        return '(Raised EConfig)'
    return 'Unsupp'      # an exception the model has no name for: never equal to a model outcome


class Binder:
    """let-binds every distinct directory entry and every distinct snapshot once: Coq spends
    its time elaborating string literals, and most snapshots of a run are identical."""

    def __init__(self):
        self.entries = {}
        self.snaps = {}
        self.lets = []

    def entry(self, n, b):
        key = (n, b)
        if key not in self.entries:
            v = f'e{len(self.entries)}'
            self.entries[key] = v
            self.lets.append(f'let {v} := ({cs(n)}, {cs(b)}) in')
        return self.entries[key]

    def snap(self, entries):
        key = tuple((n, b) for n, b in entries)
        if key not in self.snaps:
            items = [self.entry(n, b) for n, b in entries]
            v = f's{len(self.snaps)}'
            self.snaps[key] = v
            self.lets.append(f'let {v} := {pv.coq_list(items)} in')
        return self.snaps[key]

    def wrap(self, body):
        return '(' + ' '.join(self.lets) + ' ' + body + ')'


def coq_args(case, obs, bd):
    kind = 'Stream' if case['step'] in F.STREAM else 'Object'
    tbl = pv.coq_list([
        '(%s, mkplan %s %s)' % (cs(c), pv.coq_bool(pl['load_ok']),
                                pv.coq_list(['None' if i is None else f'(Some {cs(i)})'
                                             for i in pl['items']]))
        for c, pl in obs['table']])
    out = case.get('out')
    if out is None:
        om = 'NoOut'
    elif out == '' or out.endswith('/'):
        om = f'(OutDir {cs(out)})'
    else:
        # the model's names are FILES: a single out path is given by the file it denotes
        # (link / '..' spellings resolved by the harness: resolve_targets)
        tg = [t for _, t in obs['targets'] if t is not None]
        om = f'(OutFile {cs(tg[0] if len(obs["paths"]) == 1 and tg else out)})'
    paths = pv.coq_list([cs(p) for p in obs['paths']])
    d = bd.snap(obs['before'])
    faults = pv.coq_list([f'({k}%nat, {"Raise" if m == "raise" else "Crash"})' for k, m in case['faults']])
    return f'{kind} {tbl} {om} {paths} {d} {faults}'


def run_killed(case):
    """Real kill: a child process runs the step and os._exit()s at the crash primitive."""
    root = tempfile.mkdtemp(prefix='c15k_')
    try:
        F.populate(root, case['files'], case.get('links'))
        before = F.snapshot(root)
        paths = F.glob_paths(case, root)
        targets = F.resolve_targets(case, root, paths)
        code = ('import sys, json, logging; import c15_fs as F;'
                'logging.getLogger("pypyr").addHandler(logging.NullHandler());'
                'logging.getLogger("pypyr").propagate = False;'
                'case = json.loads(sys.stdin.read());'
                'ctl, outcome = F.run_step(case, sys.argv[1], {int(k): m for k, m in case["faults"]}, kill=True);'
                'print("OUTCOME" + json.dumps(outcome))')
        p = subprocess.run([sys.executable, '-c', code, root], input=json.dumps(case), text=True,
                           stdout=subprocess.PIPE, stderr=subprocess.PIPE, timeout=120)
        if p.returncode == 77:
            outcome = ['crashed', '', -1]
        else:
            m = re.search(r'OUTCOME(.*)', p.stdout)
            if not m:
                raise RuntimeError(f'kill child failed rc={p.returncode}: {p.stderr[-800:]}')
            outcome = json.loads(m.group(1))
        names0 = {n for n, _ in before}
        final = []
        for n, b in F.snapshot(root):
            if n not in names0 and TMP_RE.match(os.path.basename(n)):
                d = os.path.dirname(n)
                n = (d + '/' if d else '') + '<tmp>'
            final.append([n, b])
        final.sort()
        obs = {'before': before, 'paths': paths, 'events': None, 'outcome': outcome,
               'final': final, 'hit': [], 'nprims': -1, 'targets': targets}
    finally:
        shutil.rmtree(root, ignore_errors=True)
    obs['table'] = F.plan_table(case, before, paths, targets)
    return obs


class Prop(PropBase):
    id = 'C15'
    coq_imports = ['PV.Model.FsRewrite']
    props_file = 'theories/Props/C15.v'
    n_cases = {'quick': 4500, 'thorough': 16000}
    parallel = True
    rule = ('scenarios = 5 steps (fileformat, filereplace, fileformatjson/yaml/toml) x payloads of '
            '0-4 lines/nodes x {single file, list (sub-directory, missing entry, duplicate), glob '
            '(flat, recursive)} x out in {absent, same file, same directory, elsewhere, a symlink / hard '
            'link / .. or . spelling naming the in file, a symlink to another file} x data '
            'failures (a {missing} key at every item position, malformed payload). For each '
            'scenario the real step is run once to count its primitives N; cases = the fault-free '
            'run (its snapshot prefixes are every crash point) + a raise at EVERY k < N + second '
            'faults inside clean-up paths + explicit crashes (thorough: real os._exit kills in a '
            'child process). non-trivial = a fault fired, a data failure occurred or a rename ran')
    trusted_base = [
        'POSIX rename (os.replace) atomicity is ASSUMED: Replace is one step of the model',
        'durability is not modelled: nothing is fsynced by the code; a power cut (as opposed to a '
        'process kill) can lose the new bytes or leave an empty file - outside the claim',
        'user-space buffering: the on-disk bytes of a file with an open write handle are '
        'unspecified in the model (compared only after a successful close)',
        'NamedTemporaryFile returns a name that does not exist (freshness hypothesis of the theorems)',
        'the formatter and the json/yaml/toml (de)serialisers are a parameter of the model: the '
        'chunk sequence of each payload is taken from a fault-free reference run of the real code',
        'glob.glob, Path.is_file and the operating system\'s notion of "same file" are trusted: the '
        'harness decides which FILE an out path denotes with os.path.samefile / realpath on the '
        'populated directory (its own calls, not pypyr\'s) and gives the model files, not spellings. '
        'Links ARE generated: out as a symbolic link to in, a hard link to in, a ../ or ./ spelling '
        'of in (all must be edited in place) and a symbolic link to another file (must not). '
        'in paths that are themselves links, and links to directories, are not generated',
        'Tie B (tools/py2coq_c15.py -> Gen/GenC15.v, regenerated from pypyr/utils/filesystem.py on '
        'every run): GENERATED = is_same_file as a boolean function; move_file, remove_temp_file, '
        'move_temp_file, StreamRewriter.in_to_out, ObjectRewriter.in_to_out as terms of the '
        'statement language of Model/FsRewrite.v (with / try-except / raise / return / flags / '
        'primitives), FileRewriter.files_in_to_out as a term of its loop language. PROVED: the '
        'same-file test is the model routing decision; each generated term IS the structured '
        'program written in Proofs/GenC15Proofs.v (syntactic equality - any change of order, '
        'nesting, handler, dir=/delete= argument, routing test breaks the build); move_temp_file '
        'run by the statement semantics equals the op model rename step + handler for every fault '
        'assignment. NOT PROVED (correspondence run only): that the whole structured methods under '
        'arbitrary faults equal the flat op lists + unwind of the op model. The translator DROPS '
        '(assumed effect-free): docstrings, logger calls, if/for blocks containing only logging, '
        'read_mode/write_mode locals, encoding=/mode= arguments, counters read only by logging, '
        '.mkdir(parents=True, exist_ok=True) on the out directory; names are bound by role '
        '(parameter position, what a with binds), fail-closed outside that subset',
        'every other os.* / shutil.* call the implementation makes on a path inside the scratch '
        'directory (chmod, copymode, utime, link, rename, truncate, ...) is discovered at run time by a '
        'Python audit hook and is a snapshot boundary and fault point as well (tag sys:<event>); the op '
        'model has no such primitive, so one appearing is a correspondence break by itself',
        'fault injection wraps open / NamedTemporaryFile / handle.write / handle.close / os.replace / '
        'os.remove inside pypyr.utils.filesystem; handle.writelines is replaced by the equivalent '
        'loop over write (what _io._IOBase.writelines does); a failing injected primitive has no effect',
    ]

    def __init__(self):
        import core
        core.SHARD = 120       # C15 terms are large (a directory snapshot per primitive)

    # ------------------------------------------------------------------ cases
    def generate(self, rng, n, tier):
        cases = []
        for sc in G.scenarios(tier):
            tags = G.count_prims(sc)
            for fs in G.fault_sets(tags, rng, tier):
                c = dict(sc)
                c['faults'] = fs
                cases.append(c)
        if tier == 'thorough':
            for _ in range(400):
                sc = G.random_scenario(rng)
                tags = G.count_prims(sc)
                for fs in G.random_fault_sets(tags, rng, 6):
                    c = dict(sc)
                    c['faults'] = fs
                    cases.append(c)
            # real kills: a sample of crash points in a child process
            pool = [c for c in cases if not c['faults'] and c['label'].split('/')[0] in ('single', 'list')]
            rng.shuffle(pool)
            for c in pool[:40]:
                ntags = len(G.count_prims(c))
                for k in rng.sample(range(ntags + 1), min(4, ntags + 1)):
                    kc = dict(c)
                    kc['faults'] = [[k, 'crash']]
                    kc['kill'] = True
                    cases.append(kc)
        if len(cases) > n:
            # keep every fault-free and every single-raise case first, then sample the rest
            first = [c for c in cases if len(c['faults']) <= 1]
            rest = [c for c in cases if len(c['faults']) > 1]
            rng.shuffle(rest)
            cases = (first + rest)[:n] if len(first) <= n else rng.sample(first, n)
        return cases

    # ------------------------------------------------------------------ implementation
    def run_impl(self, case):
        if case.get('kill'):
            return run_killed(case)
        return F.observe(case)

    # ------------------------------------------------------------------ model
    def coq_check(self, case, obs):
        bd = Binder()
        args = coq_args(case, obs, bd)
        if obs['events'] is None:
            hist = 'None'
        else:
            hist = '(Some ' + pv.coq_list([f'({cs(t)}, {bd.snap(s)})' for t, s in obs['events']]) + ')'
        fin = bd.snap(obs['final'])
        return bd.wrap(f'check {args} {hist} {coq_outcome(obs["outcome"])} {fin}')

    def coq_model_obs(self, case):
        obs = self.run_impl(case)
        bd = Binder()
        args = coq_args(case, obs, bd)
        return bd.wrap(f'show {args}')

    # ------------------------------------------------------------------ monitors
    def monitor(self, case, obs):
        out = []
        orig = dict(obs['before'])
        table = {c: pl for c, pl in obs['table']}
        paths = [p for p in obs['paths'] if p in orig and not p.endswith('/')]
        many = len(obs['paths']) > 1 and case.get('out') not in (None, '') \
            and not case['out'].endswith('/')
        targets = obs['targets']        # which FILE each out path denotes (samefile / realpath)
        tmap = {p: t for p, t in targets}
        inplace = [] if many else [p for p in paths if F.in_place(targets, p)]
        direct_out = set() if many else {tmap[p] for p in paths if not F.in_place(targets, p)}
        # what each in-place file may hold: old, then the complete result of each rewrite of it
        chain = {}
        for p in inplace:
            ch = chain.setdefault(p, [orig[p]])
            if ch[-1] is None:
                continue
            pl = table.get(ch[-1])
            ch.append(pl['new'] if pl is not None else None)    # None: that rewrite cannot complete
        faults = {int(k): m for k, m in case['faults']}
        events = obs['events'] or []
        snaps = [(i, dict(s)) for i, (_, s) in enumerate(events)] + [(len(events), dict(obs['final']))]
        if obs['outcome'][0] == 'crashed' and events:
            snaps = snaps[:-1] + [(len(events) - 1, dict(obs['final']))]
        seen = set()

        def add(clause, msg, fp=None):
            if (fp or clause) not in seen:
                seen.add(fp or clause)
                out.append(fail(clause, msg, fp or clause))

        for i, snap in snaps:
            for p in set(inplace):
                have = snap.get(p)
                allowed = [c for c in chain[p] if c is not None]
                if have is None:
                    add('source-missing', f'snapshot {i}: {p} does not exist')
                    continue
                if have not in allowed:
                    add('source-neither-old-nor-new',
                        f'snapshot {i}: {p} holds {have[:60]!r}, neither its old nor its new bytes')
                    continue
                if obs['events'] is not None:
                    # a rename took effect unless it raised: injected, or (whatever the cause)
                    # followed by move_temp_file's handler removing the temp
                    done = sum(1 for j, (t, _) in enumerate(events[:i])
                               if t.startswith('replace:') and t.endswith('>' + p)
                               and faults.get(j) != 'raise'
                               and not (j + 1 < len(events) and events[j + 1][0].startswith('remove:')))
                    want = chain[p][done] if done < len(chain[p]) else None
                    if have != want:
                        add('source-changed-outside-rename',
                            f'snapshot {i}: {p} holds {have[:60]!r} after {done} rename(s) onto it')
            for q, b in orig.items():
                if q in chain or q in direct_out:
                    continue
                if snap.get(q) != b:
                    add('other-file-touched', f'snapshot {i}: {q} changed or vanished')
        final = dict(obs['final'])
        extras = sorted(set(final) - set(orig) - direct_out)
        if obs['outcome'][0] == 'ok':
            if extras or set(orig) - set(final):
                add('success-entries-differ',
                    f'after success: extra {extras}, missing {sorted(set(orig) - set(final))}')
            for p in chain:
                if final.get(p) != chain[p][-1] or chain[p][-1] is None:
                    add('success-content', f'after success {p} does not hold its complete new bytes')
            exp = case.get('expect') or {}
            for p, e in exp.items():
                if e is None or p not in chain or paths.count(p) != 1:
                    continue
                got = final.get(p)
                if isinstance(e, str):
                    ok = got == e
                else:
                    ok = _parse(case['step'], got) == e
                if not ok:
                    add('new-content-wrong', f'{p}: new content {got!r} is not the formatted payload')
        elif obs['outcome'][0] == 'raised':
            raised = [h for h in obs['hit'] if h[2] == 'raise']
            cleanup_failed = any(h[1].startswith('remove') for h in raised)
            if extras and not cleanup_failed:
                if raised:
                    t0 = raised[0][1]
                    cls = {'write': 'write-error', 'close-w': 'close-error',
                           'close-src': 'close-src-error'}.get(t0) \
                        or (t0[4:] if t0.startswith('sys:') else t0.split(':')[0]) + '-error'
                else:
                    cls = {'format': 'format-error', 'load': 'load-error'}.get(obs['outcome'][1], 'error')
                add('raise-leaves-no-temp',
                    f'the step raised ({obs["outcome"][1]}) and left {extras} in the directory',
                    'temp-left-after-' + cls)
            if set(orig) - set(final):
                add('raise-entries-vanished', f'missing after raise: {sorted(set(orig) - set(final))}')
        return out

    # ------------------------------------------------------------------ evidence
    def nontrivial(self, case, obs):
        return bool(obs['hit']) or obs['outcome'][0] != 'ok' or \
            any(t.startswith('replace') for t, _ in (obs['events'] or []))

    def describe(self, case, obs):
        f = case['faults']
        hit = obs['hit'][0][1].split(':')[0] + '/' + obs['hit'][0][2] if obs['hit'] else \
            ('none' if not f else 'not-reached')
        o = obs['outcome']
        return ['step:' + case['step'], 'layout:' + case['label'].split('/')[0],
                'out:' + ('none' if case.get('out') is None else 'given'),
                'nfaults:' + str(len(f)), 'first-fault:' + hit,
                'outcome:' + (o[0] if o[0] != 'raised' else 'raised-' + str(o[1]).split(':')[0]),
                'kill:real' if case.get('kill') else 'kill:no']


def _parse(step, text):
    if text is None:
        return None
    raw = text.encode('latin-1')
    try:
        if step == 'fileformatjson':
            return json.loads(raw.decode('utf-8'))
        if step == 'fileformattoml':
            import tomllib
            return tomllib.loads(raw.decode('utf-8'))
        if step == 'fileformatyaml':
            from ruamel.yaml import YAML
            return json.loads(json.dumps(YAML(typ='safe', pure=True).load(raw.decode('utf-8'))))
    except Exception as e:  # noqa
        return f'<unparseable: {e}>'
    return text
