"""C10 — contextmerge changes only the named paths; default never overwrites."""
import c10_gen
import c10_mon
import c10_run
import pv
from core import PropBase


def root_pairs(case):
    """the context the model starts from (for the steps the incoming mapping lives in it)"""
    pairs = list(case['ctx'])
    if case['via'] == 'step':
        pairs = pairs + [[c10_run.step_key(case), {'d': case['inc']}]]
    return pairs


class Prop(PropBase):
    id = 'C10'
    coq_imports = ['PV.Model.Merge']
    props_file = 'theories/Props/C10.v'
    n_cases = {'quick': 1000, 'thorough': 30000}
    rule = ('cases = (existing context tree, incoming tree, merge | set_defaults, called directly | through '
            'pypyr.steps.contextmerge / pypyr.steps.default). the incoming tree is derived from the existing one so '
            'that corresponding nodes pair every kind (mapping/list/tuple/set/str/bytes/scalar/None/special tag, '
            'or absent) with every kind; 30% of incoming keys and 65% of incoming strings are format expressions '
            'over helper keys, some reading a key merged a moment earlier, 22% of levels carry two keys that '
            'format to the same key, by-reference values ({k:ff}, !py k) included. dict / CommentedMap / '
            'OrderedDict mappings, set / frozenset. non-trivial = the context changed or an error was raised')
    trusted_base = [
        'formatting is the Model/Format.v model (see C08/C09); formatted keys of type bool/float/tuple/object '
        'are outside the model (python key equality True == 1 == 1.0 is not modelled) — verdict 2, counted',
        'object sharing: a val tree cannot say that two paths hold the same python object. one alias link '
        '(value stored by reference through {k:ff} or !py k with k a top-level key) is modelled exactly; every '
        'other possible sharing makes later in-place mutations of nested objects verdict 2. that the '
        'conservative test (leaf_share / tree_taint in Model/Merge.v) covers every way the formatter returns a '
        'context object by reference is argued from formatting.py, not proved',
        'the incoming tree has no shared sub-objects (every str its own object, as after a YAML load without '
        'anchors): the formatter memoises by id() within one call and would share results otherwise',
        '"the incoming mapping is unmodified" holds of the Gallina model by construction; for the real code it '
        'is checked on the generated cases by before/after snapshots (value and identity of every node)',
        'Tie B (tools/py2coq_c10.py -> Gen/GenC10.v, proofs in Proofs/GenC10Proofs.v): the loop bodies of '
        'merge_recurse / defaults_recurse, the SpecialTagDirective subclass list and the two steps are '
        'regenerated from the current source and proved equal to the model. Assumed by the translator: '
        'docstrings, `pass` and logger calls with constant arguments have no effect (dropped); the function '
        'frame around the loop (nested def, `for k, v in <arg>.items()`, entry call inner(self, <arg>)) is '
        'checked by shape, not translated; class names are resolved through context.py\'s imports '
        '(collections.abc.Mapping/Set, pypyr.dsl.SpecialTagDirective, builtins) and mapped to val '
        'constructors by Merge.class_test; are_all_this_type is checked to be all(isinstance(o, T) ...). '
        'The MEANING of the statement fragment (evaluation order, where a key is hashed, in-place vs new '
        'object, get_formatted_value = Format.v model) is Merge.run_item: hand-written, validated by the '
        'correspondence run only',
        'the monitors learn the formatted keys from a second run with Context.get_formatted_value wrapped on '
        'the instance (no edit to /repo); the two runs must agree',
    ]

    def generate(self, rng, n, tier):
        return [c10_gen.gen_case(rng, tier) for _ in range(n)]

    def run_impl(self, case):
        return c10_run.run(case)

    # ---- correspondence
    def model_term(self, case):
        root = pv.coq_dict(root_pairs(case))
        if case['via'] == 'step':
            return f'(step_run {pv.coq_bool(case["op"] == "merge")} FUEL FUEL {root})'
        fn = 'merge_top' if case['op'] == 'merge' else 'defaults_top'
        return f'({fn} FUEL FUEL {root} {pv.coq_dict(case["inc"])})'

    def coq_check(self, case, obs):
        m = self.model_term(case)
        res = obs['res']
        if obs.get('cyclic') or (res[0] == 'err' and res[1] == 'RecursionError'):
            return f'(if is_unsup_out {m} then 0 else 1)%nat'
        st = 'SOk' if res[0] == 'ok' else f'(SErr {pv.coq_str(res[1])} {pv.coq_str(res[2])})'
        return f'(check_out {m} {st} {pv.coq_dict(obs["ctx_after"]["d"])})'

    def coq_model_obs(self, case):
        m = self.model_term(case)
        return f'(fst {m}, s_root (snd {m}), s_sh (snd {m}))'

    # ---- monitors
    def monitor(self, case, obs):
        return c10_mon.check(case, obs)

    def nontrivial(self, case, obs):
        if obs.get('cyclic'):
            return True
        return obs['res'][0] == 'err' or not pv.pv_equal(obs['ctx_before'], obs['ctx_after'])

    def describe(self, case, obs):
        tags = [f'op:{case["op"]}', f'via:{case["via"]}',
                'res:' + (obs['res'][0] if obs['res'][0] == 'ok' else obs['res'][1])]
        tags += ['pair:' + m if '/' in m else m for m in sorted(set(case.get('meta', [])))]
        if obs.get('shared'):
            tags.append('shared-object-in-result')
        if any(not c10_mon.literal_key(k) for k, _ in case['inc']):
            tags.append('formatted-key')
        return tags
