"""C19 — pipeline and custom-module resolution order."""
import c19_gen
import c19_lib as L
import c19_monitor
from core import PropBase


class Prop(PropBase):
    id = 'C19'
    coq_imports = ['PV.Model.Loader']
    props_file = 'theories/Props/C19.v'
    n_cases = {'quick': 4000, 'thorough': 6000}
    parallel = True      # each worker spawns its own subprocess with its own cwd and temp tree
    rule = ('cases = real temporary directory trees: exhaustive grid of {plain, dir/name, absolute, '
            'real built-in name} x every subset of {caller dir, explicit-parent dir, cwd, '
            'cwd/pipelines, built-in dir} holding <name>.yaml x call shapes {root via '
            'pipelinerunner.run (+pyDir, +loader), pype child at depth 1-3 with default / '
            'resolveFromParent true,false / explicit parent (abs, relative, dotted, null, empty, '
            'missing, = cwd) / loader (custom, same, null) / pyDir, caller inside cwd, chains through '
            'custom loaders with parent or loader cascading switched off}; plus (corpus) the former cache-key collision layouts, '
            'configured pipelines_subdir, shared-module-name scenarios; thorough adds random layouts. '
            'Every pipeline file records its own location and PipelineInfo through a probe step and '
            'runs a custom step module placed next to it. One fresh subprocess per layout (cwd = '
            'layout cwd). non-trivial = at least one pipeline ran or a not-found error was raised')
    trusted_base = [
        'paths are strings; Path.resolve() is modelled lexically and samefile as equality of resolved '
        'paths (layouts contain no symlinks / hard links); Path.is_file / exists are the two '
        'predicates of the model environment',
        'the built-in pipelines directory is redirected to a temp dir by assigning '
        'pypyr.loaders.file.builtin_pipelines_dir in the layout subprocess (its import-time default '
        'is observed and compared; the "real" name form runs against the untouched directory)',
        'CPython import semantics (first sys.path entry holding <mod>.py wins; pypyr step cache) are '
        'modelled by find_module and validated only by the correspondence run',
        'pypyr.cache.filecache (keyed by resolved path) is not modelled: shown irrelevant by '
        'idempotence of add_sys_path; config.shortcuts is empty (config.init not run by the API)',
        'process cwd equals config.cwd (checked in every observation)',
        'Tie B (tools/py2coq_c19.py -> Gen/GenC19.v, proved equal to the model in Proofs/GenC19Proofs.v): '
        'the translator drops docstrings, logger calls and asserts; reads the try/open/get_pipeline_yaml '
        'block of load_pipeline_from_file as "payload of the file at path" and file_cache.get(k, lambda: X) '
        'as X; does not translate `if context is None`, the running of the steps, Cache.get itself, or the '
        'parts of get_arguments that do not feed loader / py_dir / parent; relies on two tables (pype key -> '
        'field of pype_opts, PipelineInfo attribute -> field of pinfo) and leaves pathlib / add_sys_path / '
        'config.cwd, pipelines_subdir as Section variables that the proofs instantiate with the model\'s '
        'is_abs, resolve, joinpath, dirname, basename, string equality (samefile), add_sys_path; the equality '
        'for get_pipeline_path is stated for environments whose built-in dir is <repo>/pypyr/pipelines',
    ]

    def generate(self, rng, n, tier):
        return c19_gen.generate(rng, n, tier)

    def run_impl(self, case):
        return L.run_case(case)

    def coq_check(self, case, obs):
        return L.coq_check(case, obs)

    def coq_model_obs(self, case):
        return L.coq_model_obs(case)

    def monitor(self, case, obs):
        return c19_monitor.monitor(case, obs)

    def nontrivial(self, case, obs):
        return bool(obs['trace']) or obs['err'] is not None

    def describe(self, case, obs):
        tags = [t for t in case.get('tags', []) if not t.startswith('present:')]
        tags.append('outcome:' + ('ok' if obs['err'] is None else obs['err'][0].rsplit('.', 1)[-1]))
        tags.append('pipelines-run:' + str(sum(1 for e in obs['trace'] if e[0] == 'f')))
        return tags
