"""C11 — pype: child context isolation, out mapping, error and stop propagation."""
from core import fail
from props.engine_common import EngineProp, RefProp, generic_monitors


class Prop(RefProp):
    aspects = ('trace-tags', 'outcome', 'watch', 'trace-counters')
    id = 'C11'
    props_file = 'theories/Props/C11.v'
    n_cases = {'quick': 500, 'thorough': 12000}
    profile = {'bodies': {'probe': 38, 'fail': 10, 'incr': 8, 'set': 8, 'call': 6, 'jump': 2, 'switch': 0,
                          'stop': 3, 'stoppipeline': 4, 'stopstepgroup': 2, 'clear': 2, 'clearall': 1, 'pype': 22},
               'n_pipes': (2, 3), 'p_swallow': 0.2, 'p_retry': 0.08, 'p_foreach': 0.12, 'p_while': 0.06,
               'n_steps': (1, 4), 'n_groups': (1, 3)}
    rule = ('parent/child pipeline chains (depth up to 3) served by a custom loader; all combinations of args / '
            'out (str, list, map, missing key) / useParentContext / raiseError / groups / success / failure; '
            'children that end normally, by error, by each stop instruction; probes record stack depth and '
            'current pipeline. Monitors: balanced call stack after the run; every step runs with its own '
            'pipeline as current pipeline (so call/jump after a pype resolve in the parent); reference interpreter '
            '(with pype: own/shared context, out, raiseError, Stop vs StopPipeline): executed steps, outcome, watched keys')
    trusted_base = EngineProp.engine_trusted

    def generate(self, rng, n, tier):
        import gen_pipes
        cases = []
        for _ in range(n):
            case = gen_pipes.gen_case(rng, self.profile)
            r = rng.random()
            if r < 0.12 and len(case['lib']) >= 2:
                parser_failure_family(rng, case)
            elif r < 0.18 and len(case['lib']) >= 2:
                gen_pipes.pype_out_containers(rng, case)
            cases.append(case)
        return cases

    def monitor(self, case, obs):
        out = RefProp.monitor(self, case, obs)
        has_tagless_probe = any(st.get('simple') and st['body'] == 'probe'
                                for _, groups in case['lib'] for _, steps in groups for st in steps or [])
        if has_tagless_probe:
            return out      # a probe without its own tag reports whatever tag is left in a shared context
        for e in obs['trace']:
            tag, pipe = e['l'][0], e['l'][5]
            if isinstance(tag, str) and '/' in tag:
                owner = tag.split('/')[0]
                if owner != pipe:
                    out.append(fail('current-pipeline-wrong',
                                    f'step {tag} of pipeline {owner!r} ran with current_pipeline = {pipe!r}'))
                    break
        return out


def parser_failure_family(rng, case):
    """child whose context parser fails (or not), with a failure handler that calls, stops, fails;
    the parent pypes it first and then carries on."""
    child = case['lib'][1][0]
    groups = case['lib'][1][1]
    if not any(g == 'context_parser' for g, _ in groups):
        groups.insert(0, ['context_parser', None])
    handler = [{'body': 'probe', 'in': [['ptag', f'{child}/on_failure/0']]}]
    kind = rng.choice(['call', 'call', 'stoppipeline', 'stopstepgroup', 'stop', 'fail', 'probe'])
    if kind == 'call':
        handler.append({'body': 'call', 'in': [['ptag', f'{child}/on_failure/1'], ['call', 'gz']]})
    elif kind == 'fail':
        handler.append({'body': 'fail', 'in': [['ptag', f'{child}/on_failure/1'],
                                              ['vfail', {'d': [['err', 'RuntimeError'], ['msg', 'handler']]}]]})
    elif kind != 'probe':
        handler.append({'body': kind, 'in': [['ptag', f'{child}/on_failure/1']]})
    handler.append({'body': 'probe', 'in': [['ptag', f'{child}/on_failure/2']]})
    case['lib'][1][1] = [[g, s] for g, s in groups if g != 'on_failure'] + [['on_failure', handler]]
    # keep gz last
    gl = case['lib'][1][1]
    gl.sort(key=lambda gs: gs[0] == 'gz')
    cfg = [['name', child], ['pipeArg', rng.choice(['fail', 'fail x', 'ok', 'none'])]]
    if rng.random() < 0.4:
        cfg.append(['raiseError', rng.choice([True, False])])
    if rng.random() < 0.3:
        cfg.append(['useParentContext', rng.choice([True, False])])
    first = {'body': 'pype', 'in': [['ptag', 'main/steps/0'], ['pype', {'d': cfg}]]}
    if rng.random() < 0.3:
        first['swallow'] = True
    main_groups = case['lib'][0][1]
    for g in main_groups:
        if g[0] == 'steps':
            g[1] = [first] + (g[1] or [])[1:] + [{'body': 'probe', 'in': [['ptag', 'main/steps/after']]}]
            break
    else:
        main_groups.insert(0, ['steps', [first, {'body': 'probe', 'in': [['ptag', 'main/steps/after']]}]])
