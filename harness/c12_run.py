"""Run one C12 case on the real pypyr: load once, run main / main / other / main on the SAME
cached definitions, snapshotting the shared definitions (value and structure) around every run."""
import copy
import io
import logging
import threading

import c12_lang as L
import c12_state as S

ORDER = ['main', 'main', 'other', 'main']


def to_py(t):
    if isinstance(t, int):
        return t
    if 'l' in t:
        return [to_py(x) for x in t['l']]
    if 's' in t:
        return set(to_py(x) for x in t['s'])
    if 'd' in t:
        return {k: to_py(v) for k, v in t['d']}
    raise ValueError(f'not data: {t!r}')


def make_vars(case):
    """config.vars: plain python values, or - as Config.init() does for a config.yaml - whatever
    ruamel's round-trip loader builds from yaml text (CommentedMap / CommentedSeq / CommentedSet)."""
    if not case['vars']:
        return {}
    if case.get('vars_yaml'):
        import ruamel.yaml
        text = 'vars:\n' + ''.join(f'  {k}: {L.yflow(v)}\n' for k, v in case['vars'])
        return ruamel.yaml.YAML().load(io.StringIO(text))['vars']
    return {k: to_py(v) for k, v in case['vars']}


def root_value(case, live, where):
    pname, j, key = where
    if j == 'info':
        i = live[pname + '.info']
        return {k: i[k] for k in ('loader', 'is_loader_cascading', 'is_parent_cascading')}
    if pname == 'vars':
        return live['vars'][key]
    if pname == 'shortcut':
        return live['shortcuts']['c12sc'][key]
    turn = bool(case.get('threads'))
    if isinstance(j, (tuple, list)):
        return live[pname][f'sub{j[0]}'][L.step_index(j[1], turn)]['in'][key]
    return live[pname]['steps'][L.step_index(j, turn)]['in'][key]


def run_case(case):
    import vstate
    import pv
    import pypyr.pipelinerunner as runner
    from pypyr.cache.loadercache import loader_cache
    from pypyr.config import config
    from pypyr.errors import get_error_name
    from pypyr.yaml import get_pipeline_yaml

    logging.disable(logging.CRITICAL)
    from pypyr.context import Context
    created = {}

    class RecordingContext(Context):
        def __init__(self, *a, **k):
            super().__init__(*a, **k)
            created.setdefault(threading.get_ident(), []).append(self)

    turn = bool(case.get('threads'))
    texts = {'main': L.emit_pipeline(case['main'], turn, case.get('parser')),
             'other': L.emit_pipeline(case['other'], turn)}
    if case.get('child'):
        texts['child'] = L.emit_pipeline(case['child'], turn, 'list')
    pipes = L.pipes_of(case)
    vstate.reset(texts, pv.Canon())
    loader_cache.clear_pipes()
    from pypyr.cache.filecache import file_cache
    file_cache.clear()
    # the pipelines are served by the in-memory loader, or - file_loader - written to a temp dir and
    # found, parsed and cached by pypyr's REAL file loader under two paths that differ only in case
    names, loader_name, tmpdir = {'main': 'main', 'other': 'other'}, 'vloader', None
    fl = case.get('file_loader') if not turn else None
    if fl:
        import os
        import sys
        import tempfile
        tmpdir = tempfile.mkdtemp(prefix='c12-')
        rel = {'name': ('Release', 'release'), 'dir': ('Ops/build', 'ops/build'),
               'both': ('Jobs/Nightly', 'jobs/nightly')}[fl.get('layout', 'name')]
        paths = {}
        for p, r in zip(('main', 'other'), rel):
            paths[p] = os.path.join(tmpdir, r + '.yaml')
            os.makedirs(os.path.dirname(paths[p]), exist_ok=True)
        for p in ('main', 'other'):
            with open(paths[p], 'w') as f:
                f.write(texts[p])
        if 'child' in texts:
            # a pype child is found next to its parent
            for p in ('other', 'main'):
                paths['child'] = os.path.join(os.path.dirname(paths[p]), 'child.yaml')
                with open(paths['child'], 'w') as f:
                    f.write(texts['child'])
            if case.get('two_loaders'):
                alt = os.path.join(tmpdir, 'alt')
                os.makedirs(alt)
                with open(os.path.join(alt, 'child.yaml'), 'w') as f:
                    f.write(L.emit_pipeline(case['child'] + [{'kind': 'set', 'in': [], 'pairs': [['viaWrapper', 1]]}],
                                            turn, 'list'))
                S.ALT_DIR[0] = alt
        if os.path.samefile(paths['main'], paths['other']):     # a case-insensitive file system
            import shutil
            shutil.rmtree(tmpdir, ignore_errors=True)
            tmpdir = None
        else:
            names = {p: paths[p][:-len('.yaml')] for p in paths}
            loader_name = None
    old_vars, old_shortcuts = config.vars, config.shortcuts
    dict_in = {k: to_py(v) for k, v in case['dict_in']}
    config.vars = make_vars(case)
    config.shortcuts = {}
    if case.get('shortcut'):
        config.shortcuts = {'c12sc': {'pipeline_name': names['main'], 'args': copy.deepcopy(dict_in)}}
        if loader_name:
            config.shortcuts['c12sc']['loader'] = loader_name
        if case.get('sc_parser_args') is not None:
            config.shortcuts['c12sc']['parser_args'] = list(case['sc_parser_args'])
    fresh_shortcuts = copy.deepcopy(config.shortcuts)
    S.TURN.update(active=False, schedule=[], pos=0, holder=None)
    S.TURN['dead'] = set()
    runner.Context = RecordingContext
    try:
        loader = loader_cache.get_pype_loader(loader_name)
        names.setdefault('child', 'child')
        two = bool(case.get('two_loaders')) and loader_name is None and 'child' in texts
        L.LOADER_SEEN[0] = loader_name or 'pypyr.loaders.file'

        def load_all():
            if two:     # the file loader's own objects (file_cache), no Loader asked yet
                import pypyr.loaders.file as file_loader
                return {p: file_loader.get_pipeline_definition(names[p], None) for p in pipes}
            return {p: loader.get_pipeline(names[p], None) for p in pipes}
        defs = load_all()     # load ONCE

        def info_fields(info):
            return {'pipeline_name': str(getattr(info, 'pipeline_name', None)), 'loader': info.loader,
                    'parent': None if info.parent is None else str(info.parent),
                    'is_loader_cascading': info.is_loader_cascading,
                    'is_parent_cascading': info.is_parent_cascading}

        def live():
            d = {p: defs[p].pipeline for p in pipes}
            for p in pipes:
                d[p + '.info'] = info_fields(defs[p].info)
            d.update(vars=config.vars, shortcuts=config.shortcuts)
            return d
        S.GETDEFS[0] = live
        S.PRISTINE.clear()
        for p in pipes:
            S.PRISTINE[p] = S.canon(get_pipeline_yaml(io.StringIO(texts[p])))   # re-parse = pristine
        for p in pipes:
            # what the loader produces for this pipeline: an independent fresh load (file mode) /
            # the info Loader._load_pipeline builds around a bare mapping (in-memory loader)
            if loader_name is None:
                import pypyr.loaders.file as file_loader
                from pathlib import Path
                fresh = file_loader.load_pipeline_from_file(Path(names[p] + '.yaml')).info
                exp = info_fields(fresh)
                exp['pipeline_name'] = str(defs[p].info.pipeline_name)
                exp['parent'] = None if defs[p].info.parent is None else str(defs[p].info.parent)
                exp['loader'] = 'pypyr.loaders.file'
            else:
                exp = {'pipeline_name': names[p], 'loader': loader_name, 'parent': None,
                       'is_loader_cascading': True, 'is_parent_cascading': True}
            S.PRISTINE[p + '.info'] = S.canon(exp)
        S.PRISTINE['vars'] = S.canon(make_vars(case))      # an independent re-build = pristine
        S.PRISTINE['shortcuts'] = S.canon(copy.deepcopy(config.shortcuts))
        loaded_ok = not S.changed()
        rts = L.roots(case)

        def one_run(pname, tid=None, via=None):
            me = threading.get_ident()
            S.TRACES[me] = []
            before = S.changed()
            sig_before = S.sigs()
            d = copy.deepcopy(dict_in)
            if tid is not None:
                d['c12tid'] = tid
            ctx = None
            created[me] = []
            try:
                args = list(case['args_in']) if (pname == 'main' and case.get('args_in')) else None
                if case.get('shortcut') and pname == 'main' and tid is None:
                    ctx = runner.run('c12sc', args_in=args)
                else:
                    ctx = runner.run(names[pname], args_in=args, dict_in=d, loader=via or loader_name)
                outcome = None
                final = S.snapshot(ctx)
            except Exception as e:      # the run's own failure is an observation
                outcome = get_error_name(e)
                final = S.snapshot(created[me][0]) if created.get(me) else None
            finally:
                if tid is not None:
                    import c12_turn
                    c12_turn.finish(tid)
            trace = S.TRACES.pop(me)
            after = S.changed()
            return {'pipe': pname, 'outcome': outcome,
                    'trace': [r['ctx'] for r in trace],
                    'sig_before': sig_before, 'sig_at_probe': [r['sig'] for r in trace],
                    'sig_after': S.sigs(),
                    'final': final, 'changed_before': before, 'changed_after': after,
                    'loads': list(vstate.LOADS)}

        obs = {'loaded_ok': loaded_ok, 'runs': [], 'same_pipeline_object': True,
               'loader': L.LOADER_SEEN[0], 'two_loaders': two}
        if not turn:
            vias = ['c12_wraploader', None, None, 'c12_wraploader'] if two else [None] * 4
            for pname, via in zip(ORDER, vias):
                r = one_run(pname, via=via)
                r['via'] = via
                lv = live()
                try:
                    r['defs'] = [S.to_tree(root_value(case, lv, w)) for w, _ in rts]
                except (KeyError, IndexError, TypeError) as e:
                    r['defs'] = [{'obj': f'root lost: {e!r}'}]
                obs['runs'].append(r)
                obs['same_pipeline_object'] &= loader.get_pipeline(names[pname], None) is defs[pname]
            # the same pipelines in the OTHER order relative to each other, in the same process,
            # from freshly loaded definitions and configuration
            loader_cache.clear_pipes()
            file_cache.clear()
            config.vars = make_vars(case)
            config.shortcuts = copy.deepcopy(fresh_shortcuts)
            loader = loader_cache.get_pype_loader(loader_name)
            defs.update(load_all())
            obs['reverse_loaded_ok'] = not S.changed()
            obs['reverse'] = [one_run(p) for p in ('other', 'main', 'other')]
        else:
            # solo results first (fresh cache state is not needed: the generator only makes
            # read-only pairs here; a mutation shows up in changed_after)
            def defs_now():
                lv = live()
                try:
                    return [S.to_tree(root_value(case, lv, w)) for w, _ in rts]
                except (KeyError, IndexError, TypeError) as e:
                    return [{'obj': f'root lost: {e!r}'}]
            tpipes = L.thread_pipes(case)
            solo = []
            for p in tpipes:
                r = one_run(p)
                r['defs'] = defs_now()
                solo.append(r)
            obs['solo'] = solo
            obs['threaded'] = []
            for sched in case['threads']['schedules']:
                S.TURN.update(active=True, schedule=list(sched), pos=0, holder=None)
                S.TURN['dead'] = set()
                res = {}

                def work(p, tid):
                    try:
                        res[tid] = one_run(p, tid)
                    except BaseException as e:      # harness failure
                        res[tid] = {'harness_error': repr(e)}
                ths = [threading.Thread(target=work, args=(p, tid)) for tid, p in enumerate(tpipes)]
                for t in ths:
                    t.start()
                for t in ths:
                    t.join(60)
                S.TURN['active'] = False
                if any(t.is_alive() for t in ths) or any('harness_error' in r for r in res.values()):
                    raise RuntimeError(f'threaded run failed: {res}')
                res[0]['defs'] = res[1]['defs'] = defs_now()
                obs['threaded'].append({'schedule': sched, 'runs': [res[0], res[1]]})
        # a final outcome for errors: context of a failed run is not returned by run(); fine
        return obs
    finally:
        S.ALT_DIR[0] = None
        L.LOADER_SEEN[0] = 'vloader'
        if tmpdir:
            import shutil
            import sys
            shutil.rmtree(tmpdir, ignore_errors=True)
            sys.path[:] = [x for x in sys.path if not str(x).startswith(tmpdir)]
        file_cache.clear()
        runner.Context = Context
        config.vars, config.shortcuts = old_vars, old_shortcuts
        loader_cache.clear_pipes()
        S.GETDEFS[0] = None
        S.TURN['active'] = False


def coq_threads_check(case, obs, stp='step'):
    solo = '[' + '; '.join(L.coq_obs(r) for r in obs['solo']) + ']'
    thr = '[' + '; '.join(f'({L.coq_obs(t["runs"][0])}, {L.coq_obs(t["runs"][1])})' for t in obs['threaded']) + ']'
    return (f'(c12_threads_check {stp} {L.coq_defs(case)} {L.coq_threads(case)} {L.coq_scheds(case)} '
            f'{solo} {thr})')


def coq_threads_show(case, stp='step'):
    return f'(c12_threads_show {stp} {L.coq_defs(case)} {L.coq_threads(case)} {L.coq_scheds(case)})'
