"""C17 helpers: drive the REAL pypyr command steps with (i) a fake spawner whose exit codes,
outputs and completion order come from the case, or (ii) real /bin/sh processes.

Case (JSON):
  step    'cmd' | 'shell' | 'cmds' | 'shells'
  conf    the step input: "str" | {"run": "str" | [..], "save": bool, "bytes": bool} | [ ... ]
          (async steps: list items / run items may be lists of str = serial sub-sequences)
  oracle  {cmd string: ["exit", rc, stdout, stderr] | ["spawn", error type, message]}
          (missing = exit 0 without output)
  sched   async only: list of picks; each pick k completes the (k mod r)-th of the r running
          processes, counted in DECLARATION order of their top-level entry
  mode    'fake' | 'real'   (real: conf holds $T for the temp dir; oracle derived by real_plan)
"""
import asyncio
import os
import shlex
import shutil
import subprocess
import tempfile
import types


def norm(cmd):
    """Key of a command: the whitespace-normalised command line."""
    if isinstance(cmd, (list, tuple)):
        return ' '.join(str(x) for x in cmd)
    return ' '.join(str(cmd).split())


# ------------------------------------------------------------------ walking the step input

def entries_of_run(run):
    """run value -> list of top-level entries; an entry is a list of commands run serially
    (a plain string is the one-element entry)."""
    if isinstance(run, str):
        return [[run]]
    out = []
    for x in run:
        out.append(list(x) if isinstance(x, list) else [x])
    return out


def commands_of(conf):
    """Step input -> list of (save, is_bytes, entries).  One tuple per pypyr Command."""
    def of_map(m):
        return (bool(m.get('save', False)), bool(m.get('bytes', False)), entries_of_run(m['run']))
    if isinstance(conf, str):
        return [(False, False, [[conf]])]
    if isinstance(conf, dict):
        return [of_map(conf)]
    out = []
    for it in conf:
        if isinstance(it, str):
            out.append((False, False, [[it]]))
        elif isinstance(it, list):
            out.append((False, False, [list(it)]))
        else:
            out.append(of_map(it))
    return out


def flat_commands(conf):
    """All command strings in declaration order."""
    return [c for _, _, ents in commands_of(conf) for e in ents for c in e]


# ------------------------------------------------------------------ fake spawners

class FakeWorld:
    def __init__(self, case):
        self.oracle = {norm(k): v for k, v in case.get('oracle', {}).items()}
        self.sched = list(case.get('sched', []))
        decl = [norm(c) for c in flat_commands(case['conf'])]
        self.decl_index = {}
        for i, c in enumerate(decl):
            self.decl_index.setdefault(c, i)
        self.started = []          # command keys in the order the spawner was called
        self.completed = []        # in the order processes were allowed to finish
        self.wave = None           # snapshot of started when the first completion is released
        self.running = []          # FakeProc objects
        self.sched_task = None
        self.picks_used = 0

    def outcome(self, key):
        return self.oracle.get(key, ['exit', 0, '', ''])

    def raise_spawn(self, o):
        import builtins
        exc = getattr(builtins, o[1].split('.')[-1], OSError)
        raise exc(o[2])

    # ---- synchronous: stands in for subprocess.run inside pypyr.subproc
    def sync_run(self, args, capture_output=False, check=False, cwd=None, encoding=None,
                 shell=False, text=None, stdout=None, stderr=None, **kw):
        key = norm(args)
        self.started.append(key)
        o = self.outcome(key)
        if o[0] == 'spawn':
            self.raise_spawn(o)
        _, rc, out, err = o
        if capture_output:
            as_text = bool(text or encoding)
            so = out if as_text else out.encode('latin-1')
            se = err if as_text else err.encode('latin-1')
        else:
            so = se = None
        self.completed.append(key)
        if check and rc:
            raise subprocess.CalledProcessError(rc, args, output=so, stderr=se)
        return subprocess.CompletedProcess(args, rc, so, se)

    # ---- asynchronous: stand in for asyncio.create_subprocess_exec / _shell
    async def create_exec(self, program, *args, stdout=None, stderr=None, cwd=None, **kw):
        return self._spawn(norm([program, *args]), stdout, stderr)

    async def create_shell(self, cmd, stdout=None, stderr=None, cwd=None, **kw):
        if not isinstance(cmd, (str, bytes)):
            raise ValueError('cmd must be a string')
        return self._spawn(norm(cmd), stdout, stderr)

    def _spawn(self, key, stdout, stderr):
        self.started.append(key)
        o = self.outcome(key)
        if o[0] == 'spawn':
            self.raise_spawn(o)
        p = FakeProc(self, key, o, stdout, stderr)
        self.running.append(p)
        loop = asyncio.get_running_loop()
        if self.sched_task is None or self.sched_task.done():
            self.sched_task = loop.create_task(self._scheduler())
        return p

    async def _scheduler(self):
        while True:
            # let every runnable task run until it blocks on one of our processes
            for _ in range(12):
                await asyncio.sleep(0)
            if not self.running:
                return
            self.running.sort(key=lambda p: self.decl_index.get(p.key, 10 ** 6))
            k = self.sched[self.picks_used] if self.picks_used < len(self.sched) else 0
            self.picks_used += 1
            p = self.running.pop(k % len(self.running))
            if self.wave is None:
                self.wave = list(self.started)
            p.returncode = p.o[1]
            self.completed.append(p.key)
            p.event.set()


class FakeProc:
    def __init__(self, world, key, o, stdout, stderr):
        self.world, self.key, self.o = world, key, o
        self.event = asyncio.Event()
        self.returncode = None
        self.pipe_out = stdout == asyncio.subprocess.PIPE
        self.pipe_err = stderr == asyncio.subprocess.PIPE
        self.pid = 4242

    async def wait(self):
        await self.event.wait()
        return self.returncode

    async def communicate(self, input=None):
        await self.event.wait()
        return (self.o[2].encode('latin-1') if self.pipe_out else None,
                self.o[3].encode('latin-1') if self.pipe_err else None)


class patched:
    """Context manager: swap the `subprocess` / `asyncio` names inside pypyr's two subproc
    modules for shims whose spawn functions are the fakes.  Nothing global is touched."""

    def __init__(self, world):
        self.world = world

    def __enter__(self):
        import pypyr.subproc as S
        import pypyr.aio.subproc as A
        self.S, self.A = S, A
        self.saved = (S.subprocess, A.asyncio)
        sp = types.SimpleNamespace(**{k: getattr(subprocess, k) for k in dir(subprocess)
                                      if not k.startswith('__')})
        sp.run = self.world.sync_run
        S.subprocess = sp
        aio = types.SimpleNamespace(**{k: getattr(asyncio, k) for k in dir(asyncio)
                                       if not k.startswith('__')})
        aio.create_subprocess_exec = self.world.create_exec
        aio.create_subprocess_shell = self.world.create_shell
        A.asyncio = aio
        return self

    def __exit__(self, *a):
        self.S.subprocess, self.A.asyncio = self.saved


# ------------------------------------------------------------------ canonical observation

def ename(e):
    return f'{type(e).__module__}.{type(e).__qualname__}'


def cval(x, tdir=None):
    """stdout / stderr / cmd values -> JSON: None | "str" | {"b": latin-1} | {"l": [...]}"""
    if x is None:
        return None
    if isinstance(x, str):
        return x.replace(tdir, '$T') if tdir else x
    if isinstance(x, (bytes, bytearray)):
        s = bytes(x).decode('latin-1')
        return {'b': s.replace(tdir, '$T') if tdir else s}
    if isinstance(x, (list, tuple)):
        return {'l': [cval(y, tdir) for y in x]}
    return {'other': repr(x)}


def cresult(r, tdir=None):
    from pypyr.subproc import SubprocessResult
    if isinstance(r, SubprocessResult):
        return {'k': 'res', 'cmd': cval(r.cmd, tdir), 'rc': r.returncode,
                'out': cval(r.stdout, tdir), 'err': cval(r.stderr, tdir)}
    if isinstance(r, BaseException):
        return cerror(r, tdir)
    if isinstance(r, list):
        return {'k': 'list', 'items': [cresult(x, tdir) for x in r]}
    return {'k': 'other', 'repr': repr(r)}


def cerror(e, tdir=None):
    from pypyr.errors import MultiError, SubprocessError
    if isinstance(e, MultiError):
        return {'k': 'multi', 'type': ename(e), 'message': e.message,
                'errors': [cerror(x, tdir) for x in e.errors]}
    if isinstance(e, (SubprocessError, subprocess.CalledProcessError)):
        return {'k': 'proc', 'type': ename(e), 'cmd': cval(e.cmd, tdir), 'rc': e.returncode,
                'out': cval(e.stdout, tdir), 'err': cval(e.stderr, tdir)}
    msg = str(e)
    return {'k': 'exn', 'type': ename(e), 'msg': msg.replace(tdir, '$T') if tdir else msg}


STEPS = {'cmd': 'pypyr.steps.cmd', 'shell': 'pypyr.steps.shell',
         'cmds': 'pypyr.steps.cmds', 'shells': 'pypyr.steps.shells'}


def run_step(case, conf, tdir=None):
    import importlib
    from pypyr.context import Context
    mod = importlib.import_module(STEPS[case['step']])
    key = 'cmds' if case['step'] in ('cmds', 'shells') else 'cmd'
    ctx = Context({key: conf})
    err = None
    try:
        mod.run_step(ctx)
    except Exception as e:   # the step's own failure is the observation
        err = cerror(e, tdir)
    if 'cmdOut' not in ctx:
        out = ['unset']
    else:
        co = ctx['cmdOut']
        out = ['list', [cresult(x, tdir) for x in co]] if isinstance(co, list) else ['single', cresult(co, tdir)]
    return err, out


def decl_sorted(keys, conf):
    decl = [norm(c) for c in flat_commands(conf)]
    idx = {}
    for i, c in enumerate(decl):
        idx.setdefault(c, i)
    return sorted(keys, key=lambda c: idx.get(c, 10 ** 6))


def run_fake(case):
    world = FakeWorld(case)
    with patched(world):
        err, out = run_step(case, case['conf'])
    is_async = case['step'] in ('cmds', 'shells')
    obs = {'error': err, 'cmdOut': out, 'started_raw': world.started,
           'completed_raw': world.completed, 'still_running': [p.key for p in world.running]}
    if is_async:
        obs['started'] = decl_sorted(world.started, case['conf'])
        obs['wave'] = decl_sorted(world.wave if world.wave is not None else world.started,
                                  case['conf'])
    else:
        obs['started'] = list(world.started)
        obs['wave'] = []
    return obs


# ------------------------------------------------------------------ real processes

HELPER = '''#!/bin/sh
# $1 marker name  $2 sleep seconds  $3 exit code
d="$(dirname "$0")"
touch "$d/$1.start"
echo "out-$1"
echo "err-$1" >&2
sleep "$2"
touch "$d/$1.done"
exit "$3"
'''


def real_command(step, name, delay, rc):
    """The command line used for marker `name` (with $T for the temp dir)."""
    if step in ('shell', 'shells'):
        return (f'touch $T/{name}.start; echo out-{name}; echo err-{name} >&2; sleep {delay}; '
                f'touch $T/{name}.done; exit {rc}')
    return f'/bin/sh $T/h.sh {name} {delay} {rc}'


def real_materialise(conf, tdir):
    if isinstance(conf, str):
        return conf.replace('$T', tdir)
    if isinstance(conf, list):
        return [real_materialise(x, tdir) for x in conf]
    if isinstance(conf, dict):
        return {k: real_materialise(v, tdir) for k, v in conf.items()}
    return conf


class quiet_fds:
    """Children that are not captured inherit fd 1/2: point those at /dev/null meanwhile."""

    def __enter__(self):
        import sys
        sys.stdout.flush()
        sys.stderr.flush()
        self.saved = (os.dup(1), os.dup(2))
        null = os.open(os.devnull, os.O_WRONLY)
        os.dup2(null, 1)
        os.dup2(null, 2)
        os.close(null)

    def __exit__(self, *a):
        os.dup2(self.saved[0], 1)
        os.dup2(self.saved[1], 2)
        os.close(self.saved[0])
        os.close(self.saved[1])


def run_real(case):
    tdir = tempfile.mkdtemp(prefix='c17-')
    try:
        with open(os.path.join(tdir, 'h.sh'), 'w') as f:
            f.write(HELPER)
        conf = real_materialise(case['conf'], tdir)
        with quiet_fds():
            err, out = run_step(case, conf, tdir)
        names = case['markers']            # command string (with $T) -> marker name
        started, done = [], []
        for c in flat_commands(case['conf']):
            nm = names[c]
            if os.path.exists(os.path.join(tdir, nm + '.start')):
                started.append(norm(c))
            if os.path.exists(os.path.join(tdir, nm + '.done')):
                done.append(norm(c))
        return {'error': err, 'cmdOut': out, 'started': started, 'wave': [],
                'started_raw': started, 'completed_raw': done,
                'still_running': [c for c in started if c not in done]}
    finally:
        shutil.rmtree(tdir, ignore_errors=True)


def run_case(case):
    if case.get('mode') == 'real':
        return run_real(case)
    return run_fake(case)


def shlex_ok(cmd):
    """True when shlex.split(cmd) is plain whitespace splitting (what the model does)."""
    return not any(ch in cmd for ch in '\'"\\') and shlex.split(cmd) == cmd.split()
