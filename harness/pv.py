"""Tagged, JSON-able representation ("pv") of the Python values the models know about,
with converters: pv -> real Python object, real object -> pv, pv -> Coq term.

pv grammar (JSON):
  None -> null | bool -> true/false | int -> int | str -> "..."
  float -> {"f": [num, den]}          (exact rational of a dyadic float)
  bytes -> {"b": "<latin-1 text>"}
  list -> {"l": [...]} | tuple -> {"t": [...]} | set -> {"s": [...sorted...]}
  dict -> {"d": [[k, v], ...]}         (insertion order kept)
  !py -> {"py": <expr ast>} | !sic -> {"sic": "..."} | !jsonify -> {"jsonify": pv}
  opaque object -> {"obj": n}          (n = first-seen index of id())
  exception -> {"exn": [name, msg, n]}

pyexpr ast (JSON lists): ["none"], ["bool", b], ["int", n], ["str", s], ["name", x],
  ["list", [..]], ["tuple", [..]], ["cmp", op, a, b], ["and", a, b], ["or", a, b], ["not", a],
  ["add", a, b], ["sub", a, b], ["mul", a, b], ["len", a], ["in", a, b], ["index", a, b],
  ["walrus", x, a], ["lambdacall", x, body, arg], ["listcomp", body, x, src]
"""
from fractions import Fraction

# ---------------------------------------------------------------- Coq printing


def coq_str(s):
    """Python str -> Coq term of type string (UTF-8 bytes)."""
    if isinstance(s, str):
        data = s.encode('utf-8', 'surrogatepass')
    else:
        data = bytes(s)
    parts = []
    cur = []

    def flush():
        if cur:
            parts.append('"' + ''.join(cur) + '"')
            cur.clear()
    for b in data:
        if b == 0x22:
            cur.append('""')
        elif 0x20 <= b < 0x7f:
            cur.append(chr(b))
        else:
            flush()
            parts.append(f'chr {b}')
    flush()
    if not parts:
        return '""'
    if len(parts) == 1:
        p = parts[0]
        return p if p.startswith('"') else f'({p})'
    return '(' + ' ++ '.join(parts) + ')'


def coq_Z(n):
    return f'({n})%Z' if n < 0 else f'{n}%Z'


def coq_list(items):
    return '[' + '; '.join(items) + ']'


def coq_bool(b):
    return 'true' if b else 'false'


def coq_opt(x, f):
    return 'None' if x is None else f'(Some {f(x)})'


CMP = {'eq': 'CEq', 'ne': 'CNe', 'lt': 'CLt', 'le': 'CLe', 'gt': 'CGt', 'ge': 'CGe'}
CMP_PY = {'eq': '==', 'ne': '!=', 'lt': '<', 'le': '<=', 'gt': '>', 'ge': '>='}


def coq_expr(e):
    t = e[0]
    if t == 'none':
        return 'ENone'
    if t == 'bool':
        return f'(EBool {coq_bool(e[1])})'
    if t == 'int':
        return f'(EInt {coq_Z(e[1])})'
    if t == 'str':
        return f'(EStr {coq_str(e[1])})'
    if t == 'name':
        return f'(EName {coq_str(e[1])})'
    if t == 'list':
        return f'(EList {coq_list([coq_expr(x) for x in e[1]])})'
    if t == 'tuple':
        return f'(ETuple {coq_list([coq_expr(x) for x in e[1]])})'
    if t == 'cmp':
        return f'(ECmp {CMP[e[1]]} {coq_expr(e[2])} {coq_expr(e[3])})'
    two = {'and': 'EAnd', 'or': 'EOr', 'add': 'EAdd', 'sub': 'ESub', 'mul': 'EMul',
           'in': 'EIn', 'index': 'EIndex'}
    if t in two:
        return f'({two[t]} {coq_expr(e[1])} {coq_expr(e[2])})'
    if t == 'not':
        return f'(ENot {coq_expr(e[1])})'
    if t == 'len':
        return f'(ELen {coq_expr(e[1])})'
    if t in ('walrus', 'walrus_ns'):
        return f'(EWalrus {coq_str(e[1])} {coq_expr(e[2])})'
    if t == 'lambdacall':
        return f'(ELambdaCall {coq_str(e[1])} {coq_expr(e[2])} {coq_expr(e[3])})'
    if t == 'listcomp':
        return f'(EListComp {coq_expr(e[1])} {coq_str(e[2])} {coq_expr(e[3])})'
    raise ValueError(f'bad expr {e!r}')


def render_expr(e):
    """pyexpr ast -> Python source (fully parenthesised)."""
    t = e[0]
    if t == 'none':
        return 'None'
    if t == 'bool':
        return 'True' if e[1] else 'False'
    if t == 'int':
        return repr(e[1]) if e[1] >= 0 else f'({e[1]!r})'
    if t == 'str':
        return repr(e[1])
    if t == 'name':
        return e[1]
    if t == 'list':
        return '[' + ', '.join(render_expr(x) for x in e[1]) + ']'
    if t == 'tuple':
        xs = [render_expr(x) for x in e[1]]
        return '(' + ', '.join(xs) + (',)' if len(xs) == 1 else ')')
    if t == 'cmp':
        return f'({render_expr(e[2])} {CMP_PY[e[1]]} {render_expr(e[3])})'
    ops = {'and': 'and', 'or': 'or', 'add': '+', 'sub': '-', 'mul': '*', 'in': 'in'}
    if t in ops:
        return f'({render_expr(e[1])} {ops[t]} {render_expr(e[2])})'
    if t == 'index':
        return f'{render_expr(e[1])}[{render_expr(e[2])}]'
    if t == 'not':
        return f'(not {render_expr(e[1])})'
    if t == 'len':
        return f'len({render_expr(e[1])})'
    if t == 'walrus':
        return f'({e[1]} := {render_expr(e[2])})'
    if t == 'walrus_ns':
        return f'({e[1]}:={render_expr(e[2])})'        # the same, written without spaces
    if t == 'lambdacall':
        return f'(lambda {e[1]}: {render_expr(e[2])})({render_expr(e[3])})'
    if t == 'listcomp':
        return f'[{render_expr(e[1])} for {e[2]} in {render_expr(e[3])}]'
    if t == 'genexp':       # (elt for var in iterable if cond): lazy — outside the Coq model
        return f'({render_expr(e[1])} for {e[2]} in {render_expr(e[3])} if {render_expr(e[4])})'
    raise ValueError(f'bad expr {e!r}')


def coq_Q(num, den):
    return f'(Qmake {coq_Z(num)} {den}%positive)'


def coq_val(v):
    if v is None:
        return 'VNone'
    if v is True or v is False:
        return f'(VBool {coq_bool(v)})'
    if isinstance(v, int):
        return f'(VInt {coq_Z(v)})'
    if isinstance(v, str):
        return f'(VStr {coq_str(v)})'
    if isinstance(v, dict):
        if 'share' in v:
            return coq_val(v['v'])
        if 'f' in v:
            n, d = v['f']
            return f'(VFloat {coq_Q(n, d)})'
        if 'b' in v:
            return f'(VBytes {coq_str(v["b"].encode("latin-1"))})'
        if 'l' in v:
            return f'(VList {coq_list([coq_val(x) for x in v["l"]])})'
        if 't' in v:
            return f'(VTuple {coq_list([coq_val(x) for x in v["t"]])})'
        if 's' in v:
            return f'(VSet {coq_list([coq_val(x) for x in v["s"]])})'
        if 'd' in v:
            return '(VDict ' + coq_dict(v['d']) + ')'
        if 'py' in v:
            src = v.get('src')
            if src is None:
                src = render_expr(v['py'])
            return f'(VPy {coq_str(src)} {coq_expr(v["py"])})'
        if 'sic' in v:
            return f'(VSic {coq_str(v["sic"])})'
        if 'jsonify' in v:
            return f'(VJsonify {coq_val(v["jsonify"])})'
        if 'obj' in v:
            return f'(VObj {coq_Z(v["obj"])})'
        if 'exn' in v:
            n, m, i = v['exn']
            return f'(VExn {coq_str(n)} {coq_str(m)} {coq_Z(i)})'
    raise ValueError(f'bad pv {v!r}')


def coq_dict(pairs):
    return coq_list([f'({coq_val(k)}, {coq_val(x)})' for k, x in pairs])


def coq_res(r, okf):
    """r = ["ok", x] | ["err", name, msg]."""
    if r[0] == 'ok':
        return f'(Ok {okf(r[1])})'
    return f'(Err {coq_str(r[1])} {coq_str(r[2])})'

# ---------------------------------------------------------------- pv <-> Python


class Opaque:
    """An arbitrary Python object with identity only."""

    def __init__(self, n):
        self.n = n

    def __repr__(self):
        return f'<Opaque {self.n}>'


def set_sort_key(x):
    # matches PyVal.key_ltb: ints (tag "") before strs (tag "s"+s), ints by value
    if isinstance(x, bool):
        raise ValueError('bool in set')
    if isinstance(x, int):
        return ('', x, '')
    if isinstance(x, str):
        return ('s', 0, x.encode('utf-8'))
    raise ValueError('unsupported set member')


PY_ASTS = {}   # source text -> ast of every !py value built by to_py (for canonicalising back)


def register_asts(obj):
    """Walk any JSON structure and remember the ast of every {'py': ast} node by its source."""
    if isinstance(obj, dict):
        if 'py' in obj and isinstance(obj['py'], list) and 'src' not in obj:
            PY_ASTS[render_expr(obj['py'])] = obj['py']
            return
        for x in obj.values():
            register_asts(x)
    elif isinstance(obj, list):
        for x in obj:
            register_asts(x)


def to_py(v, opaque=None, dict_cls=dict, list_cls=list, set_cls=set):
    """pv -> real Python object. `opaque` maps obj index -> object (shared identity)."""
    from pypyr.dsl import PyString, SicString, Jsonify
    if opaque is None:
        opaque = {}
    shared = {}

    def go(v):
        if v is None or isinstance(v, (bool, int, str)):
            return v
        if 'share' in v:
            if v['share'] not in shared:
                shared[v['share']] = go(v['v'])
            return shared[v['share']]
        if 'f' in v:
            n, d = v['f']
            return n / d
        if 'b' in v:
            return bytearray(v['b'].encode('latin-1')) if v.get('ba') else v['b'].encode('latin-1')
        if 'l' in v:
            return list_cls(go(x) for x in v['l'])
        if 't' in v:
            return tuple(go(x) for x in v['t'])
        if 's' in v:
            return set_cls(go(x) for x in v['s'])
        if 'd' in v:
            return dict_cls((go(k), go(x)) for k, x in v['d'])
        if 'py' in v:
            src = v.get('src')
            if src is None:
                src = render_expr(v['py'])
                PY_ASTS[src] = v['py']
            return PyString(src)
        if 'sic' in v:
            return SicString(v['sic'])
        if 'jsonify' in v:
            return Jsonify(go(v['jsonify']))
        if 'obj' in v:
            return opaque.setdefault(v['obj'], Opaque(v['obj']))
        raise ValueError(f'bad pv {v!r}')
    return go(v)


class Canon:
    """real Python object -> pv, with first-seen numbering of opaque objects and
    exceptions (so identities can be compared across observations)."""

    def __init__(self, opaque=None):
        self.ids = {}
        self.keep = []
        if opaque:
            for n, o in opaque.items():
                self.ids[id(o)] = n

    def obj_index(self, o):
        k = id(o)
        if k not in self.ids:
            self.ids[k] = len(self.ids) + 1000
            self.keep.append(o)
        return self.ids[k]

    def exn(self, e):
        from pypyr.errors import get_error_name
        return {'exn': [get_error_name(e), str(e), self.obj_index(e)]}

    def __call__(self, o):
        from pypyr.dsl import PyString, SicString, Jsonify
        from collections.abc import Mapping
        if o is None or type(o) in (bool, int, str):
            return o
        if isinstance(o, bool):
            return bool(o)
        if isinstance(o, int):
            return int(o)          # ruamel ScalarInt and friends: the subclass is not observed
        if isinstance(o, str):
            return str(o)
        if isinstance(o, float):
            fr = Fraction(o)
            return {'f': [fr.numerator, fr.denominator]}
        if isinstance(o, (bytes, bytearray)):
            return {'b': bytes(o).decode('latin-1')}
        if isinstance(o, PyString):
            if o.value in PY_ASTS:
                return {'py': PY_ASTS[o.value]}
            return {'py': ['name', '?'], 'src': o.value}
        if isinstance(o, SicString):
            return {'sic': o.value}
        if isinstance(o, Jsonify):
            return {'jsonify': self(o.value)}
        if isinstance(o, BaseException):
            return self.exn(o)
        if isinstance(o, Mapping):
            return {'d': [[self(k), self(x)] for k, x in o.items()]}
        if isinstance(o, list):
            return {'l': [self(x) for x in o]}
        if isinstance(o, tuple):
            return {'t': [self(x) for x in o]}
        if isinstance(o, (set, frozenset)):
            try:
                return {'s': [self(x) for x in sorted(o, key=set_sort_key)]}
            except ValueError:
                return {'obj': self.obj_index(o)}
        return {'obj': self.obj_index(o)}


def pv_equal(a, b):
    """Structural equality of pv (bool is not int)."""
    if type(a) is not type(b):
        return False
    if isinstance(a, dict):
        if a.keys() != b.keys():
            return False
        return all(pv_equal(a[k], b[k]) for k in a)
    if isinstance(a, list):
        return len(a) == len(b) and all(pv_equal(x, y) for x, y in zip(a, b))
    return a == b
