"""C19 probe step: records which pipeline definition is actually running.

Loaded by name (`name: c19_probe`) from generated pipeline files; the harness directory is on
PYTHONPATH of the layout subprocess.  The trace is a module global so that it does not depend
on how pype shares or isolates the context."""
from pathlib import Path

TRACE = []


def tag_parent(p):
    """(kind, text) of PipelineInfo.parent"""
    if p is None:
        return ['N', '']
    if isinstance(p, Path):
        return ['P', str(p)]
    if isinstance(p, str):
        return ['S', p]
    return ['?', repr(p)]


def run_step(context):
    info = context.current_pipeline.pipeline_definition.info
    path = getattr(info, 'path', None)
    TRACE.append(['f', str(context['c19id']), str(info.pipeline_name), str(info.loader)]
                 + tag_parent(info.parent) +
                 ['true' if info.is_loader_cascading else 'false',
                  'true' if info.is_parent_cascading else 'false',
                  '' if path is None else str(path)])
