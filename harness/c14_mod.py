"""A tiny importable module for the C14 cases (import / from-import / pyimport targets).
Mirrors Model/PyScope.v [std_mods]."""
K = 7
S = 'seven'
