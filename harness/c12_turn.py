"""C12 turnstile step (thorough tier): one step of one run at a time, in the order the
schedule dictates.  A run holds the turn from the moment it is let through until it arrives
at its next turnstile (or ends), so steps of different runs never overlap."""
import c12_state


def _skip_dead(t):
    while t['pos'] < len(t['schedule']) and t['schedule'][t['pos']] in t['dead']:
        t['pos'] += 1


def _release(t, me):
    if t.get('holder') == me:
        t['holder'] = None
        t['pos'] += 1


def arrive(me):
    t = c12_state.TURN
    with t['cond']:
        _release(t, me)
        t['cond'].notify_all()
        while True:
            _skip_dead(t)
            if t['pos'] >= len(t['schedule']):
                break                       # schedule exhausted: free running
            if t['schedule'][t['pos']] == me and t.get('holder') is None:
                t['holder'] = me
                break
            if not t['cond'].wait(timeout=20):
                raise RuntimeError('turnstile timeout')


def finish(me):
    t = c12_state.TURN
    with t['cond']:
        _release(t, me)
        t['dead'].add(me)
        t['cond'].notify_all()


def run_step(context):
    if c12_state.TURN['active']:
        arrive(context.get('c12tid'))
