"""C12 probe step: records the context by value and whether any shared definition changed."""
import c12_state


def run_step(context):
    c12_state.record(context)
