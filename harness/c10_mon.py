"""C10 monitors — written from the property statement, over canonical pv trees:
old context, incoming tree, context afterwards, and the log of what each formatted input
came out as (only used to know which keys the incoming mapping names).

Nothing here looks at the Coq model.  Every check is a necessary condition of the statement
and is skipped where the named set is only known approximately (always over-approximated,
so a check can be lost but not fire wrongly)."""
import pv
from core import fail


def is_map(v):
    return isinstance(v, dict) and 'd' in v


def is_list(v):
    return isinstance(v, dict) and 'l' in v


def is_tuple(v):
    return isinstance(v, dict) and 't' in v


def is_set(v):
    return isinstance(v, dict) and 's' in v


def is_tag(v):
    return isinstance(v, dict) and ('py' in v or 'sic' in v or 'jsonify' in v)


def literal_key(k):
    return not is_tag(k) and not (isinstance(k, str) and ('{' in k or '}' in k))


def plain_leaf(v):
    """a value that formatting returns unchanged"""
    if v is None or isinstance(v, (bool, int)):
        return True
    if isinstance(v, str):
        return '{' not in v and '}' not in v
    return isinstance(v, dict) and ('f' in v or 'b' in v or 'obj' in v)


def _num(k):
    if isinstance(k, (bool, int)):
        return k
    if isinstance(k, dict) and 'f' in k:
        return k['f'][0] / k['f'][1]
    return None


def key_eq(a, b):
    """python dict-key equality on pv (True == 1 == 1.0)"""
    if pv.pv_equal(a, b):
        return True
    x, y = _num(a), _num(b)
    return x is not None and y is not None and x == y


def opaque(v):
    """a value the canonicaliser could not look into (e.g. a set with non-scalar members)"""
    return isinstance(v, dict) and v.get('obj', 0) >= 1000


def get(pairs, k):
    for kk, v in pairs:
        if key_eq(kk, k):
            return True, v
    return False, None


def show(path):
    return '/'.join(str(p) for p in path) or '<root>'


class Named:
    """which keys an incoming mapping level names: a literal key names itself, any other key
    names every value it was observed to format to."""

    def __init__(self, log):
        self.log = log

    def formatted(self, k):
        if literal_key(k):
            return [k]
        return [out for inp, out, hashable in self.log if hashable and pv.pv_equal(inp, k)]

    def outputs(self, v):
        """everything the value v was observed to format to"""
        return [out for inp, out, _ in self.log if pv.pv_equal(inp, v)]

    def level(self, inc_levels):
        """-> list of (formatted key, [(incoming key, incoming value), ...])"""
        named = []
        for inc in inc_levels:
            for k, v in inc:
                for fk in self.formatted(k):
                    for ent in named:
                        if key_eq(ent[0], fk):
                            ent[1].append((k, v))
                            break
                    else:
                        named.append((fk, [(k, v)]))
        return named


def under_shared(path, shared):
    for group in shared or []:
        for p in group:
            if len(p) <= len(path) and all(key_eq(a, b) for a, b in zip(p, path)):
                return True
    return False


def check_merge(case, obs, old, inc, after):
    out = []
    named_of = Named(obs.get('fmt_log', []))
    ok = obs['res'] == ['ok']
    shared = obs.get('shared')

    def fp(base, path):
        return base + ('-shared-object' if under_shared(path, shared) else '')

    def sure_key(k0):
        return literal_key(k0) or len(named_of.formatted(k0)) == 1

    def walk(old_pairs, after_pairs, inc_levels, path, certain):
        # certain: every mapping in inc_levels is known to have been merged at this level
        named = named_of.level(inc_levels)
        for k, ov in old_pairs:
            here = path + [k]
            has, av = get(after_pairs, k)
            found, items = get(named, k)
            if not found:
                # not named by the incoming mapping: keeps its value
                if not has:
                    out.append(fail('frame', f'{show(here)} is not named by the incoming mapping but was removed',
                                    fp('frame-unnamed-path-changed', here)))
                elif not pv.pv_equal(av, ov):
                    out.append(fail('frame', f'{show(here)} is not named by the incoming mapping but changed '
                                             f'from {ov!r} to {av!r}', fp('frame-unnamed-path-changed', here)))
                continue
            if opaque(av):
                continue
            vals = [v for _, v in items]
            exact = certain and len(items) == 1 and literal_key(items[0][0])
            if all(is_map(v) for v in vals) and is_map(ov):
                if has and is_map(av):
                    walk(ov['d'], av['d'], [v['d'] for v in vals], here,
                         certain and len(items) == 1 and sure_key(items[0][0]))
                elif exact and ok:
                    out.append(fail('mappings-merge-recursively', f'{show(here)}: mapping merged into mapping gave {av!r}',
                                    fp('mapping-not-merged', here)))
                continue
            for kind, test, tagk in (('list', is_list, 'l'), ('tuple', is_tuple, 't')):
                if all(test(v) for v in vals) and test(ov):
                    o_el = ov[tagk]
                    if not (has and test(av) and len(av[tagk]) >= len(o_el)
                            and all(pv.pv_equal(a, b) for a, b in zip(av[tagk], o_el))):
                        out.append(fail('appends-after', f'{show(here)}: existing {kind} members {o_el!r} are not a '
                                                         f'prefix of {av!r}', fp(f'{kind}-not-prefix', here)))
                    elif exact and ok:
                        suffix = av[tagk][len(o_el):]
                        want = vals[0][tagk]
                        if len(suffix) != len(want) or any(
                                plain_leaf(w) and not pv.pv_equal(w, s) for w, s in zip(want, suffix)):
                            out.append(fail('appends-after', f'{show(here)}: appended {suffix!r} for incoming {want!r}',
                                            fp(f'{kind}-wrong-suffix', here)))
            if all(is_set(v) for v in vals) and is_set(ov):
                if not (has and is_set(av) and all(any(pv.pv_equal(m, x) for x in av['s']) for m in ov['s'])):
                    out.append(fail('appends-after', f'{show(here)}: existing set members lost: {ov!r} -> {av!r}',
                                    fp('set-not-superset', here)))
                elif exact and ok:
                    want = [m for m in vals[0]['s'] if plain_leaf(m)]
                    if not all(any(pv.pv_equal(m, x) for x in av['s']) for m in want) \
                            or len(av['s']) > len(ov['s']) + len(vals[0]['s']):
                        out.append(fail('appends-after', f'{show(here)}: set union wrong: {av!r}', fp('set-wrong-union', here)))
            if exact and ok:
                check_overwrite(items[0][1], ov, has, av, here)

        # keys the incoming mapping adds
        if ok and certain:
            for fk, items in named:
                k0 = items[0][0]
                sure = len(items) == 1 and sure_key(k0)
                if sure and not get(old_pairs, fk)[0]:
                    has, av = get(after_pairs, fk)
                    if not has:
                        out.append(fail('adds', f'{show(path + [fk])} named by the incoming mapping (key {k0!r}) '
                                                f'is missing afterwards', fp('named-key-not-set', path + [fk])))
                    elif literal_key(k0):
                        check_overwrite(items[0][1], None, has, av, path + [fk], absent=True)
            for inc in inc_levels:
                for k, v in inc:
                    if not literal_key(k) and not named_of.formatted(k):
                        out.append(fail('keys-formatted', f'incoming key {k!r} under {show(path)} was merged without '
                                                          f'being formatted', 'key-not-formatted'))
        # every key that appears was named
        for k, av in after_pairs:
            if not get(old_pairs, k)[0] and not get(named, k)[0]:
                out.append(fail('frame', f'{show(path + [k])} appeared but the incoming mapping does not name it',
                                fp('merge-added-unnamed', path + [k])))

    def check_overwrite(v, ov, has, av, here, absent=False):
        if opaque(av):
            return
        # incoming strings and scalars overwrite (with the formatted value)
        want = None
        if plain_leaf(v):
            want = v
        elif isinstance(v, dict) and 'sic' in v:
            want = v['sic']
        if want is not None and not (has and pv.pv_equal(av, want)):
            out.append(fail('overwrite', f'{show(here)}: incoming {v!r} over {"nothing" if absent else repr(ov)} '
                                         f'left {av!r}', fp('scalar-not-overwritten', here)))
        if want is None and (isinstance(v, str) or is_tag(v)) and not obs.get('shares_anywhere'):
            outs = named_of.outputs(v)
            if not (has and any(pv.pv_equal(av, o) for o in outs)):
                out.append(fail('overwrite', f'{show(here)}: incoming {v!r} left {av!r}, which is not what it '
                                             f'formats to ({outs!r})', 'value-not-formatted'))
        # kinds differ (and not both containers of the same kind): the incoming value replaces
        if not absent and isinstance(v, dict) and not is_tag(v) and 'b' not in v and 'f' not in v and 'obj' not in v:
            same = (is_map(v) and is_map(ov)) or (is_list(v) and is_list(ov)) or \
                   (is_tuple(v) and is_tuple(ov)) or (is_set(v) and is_set(ov))
            if not same:
                tagk = next(t for t in ('d', 'l', 't', 's') if t in v)
                if not (has and isinstance(av, dict) and tagk in av and len(av[tagk]) <= len(v[tagk])):
                    out.append(fail('overwrite', f'{show(here)}: incoming {v!r} over {ov!r} left {av!r}',
                                    fp('container-not-overwritten', here)))

    walk(old, after, [inc], [], True)
    return out


def check_defaults(case, obs, old, inc, after):
    out = []
    named_of = Named(obs.get('fmt_log', []))
    ok = obs['res'] == ['ok']
    shared = obs.get('shared')

    def fp(base, path):
        return base + ('-shared-object' if under_shared(path, shared) else '')

    def sure_key(k0):
        return literal_key(k0) or len(named_of.formatted(k0)) == 1

    def walk(old_pairs, after_pairs, inc_levels, path, certain):
        named = named_of.level(inc_levels)
        # every existing path keeps its exact value (None included)
        for k, ov in old_pairs:
            here = path + [k]
            has, av = get(after_pairs, k)
            if not has:
                out.append(fail('never-overwrites', f'{show(here)} existed and is gone', fp('defaults-overwrote', here)))
                continue
            if is_map(ov):
                if not is_map(av):
                    out.append(fail('never-overwrites', f'{show(here)} was a mapping, now {av!r}',
                                    fp('defaults-overwrote', here)))
                    continue
                found, items = get(named, k)
                levels = [v['d'] for _, v in items if is_map(v)] if found else []
                walk(ov['d'], av['d'], levels, here,
                     certain and found and len(items) == 1 and sure_key(items[0][0]))
            elif not pv.pv_equal(av, ov):
                out.append(fail('never-overwrites', f'{show(here)} existed with value {ov!r}, now {av!r}',
                                fp('defaults-overwrote', here)))
        # the new paths are exactly the missing ones
        for k, av in after_pairs:
            if get(old_pairs, k)[0]:
                continue
            here = path + [k]
            found, items = get(named, k)
            if not found:
                out.append(fail('adds-exactly-missing', f'{show(here)} was added but the defaults mapping does not name it',
                                fp('defaults-added-unnamed', here)))
            elif certain and len(items) == 1 and literal_key(items[0][0]) and ok:
                v = items[0][1]
                want = v if plain_leaf(v) else (v['sic'] if isinstance(v, dict) and 'sic' in v else None)
                if want is not None and not pv.pv_equal(av, want):
                    out.append(fail('adds-exactly-missing', f'{show(here)} added as {av!r}, default is {v!r}',
                                    'defaults-wrong-value'))
        if ok and certain:
            for inc_level in inc_levels:
                for k, v in inc_level:
                    if not literal_key(k) and not named_of.formatted(k):
                        out.append(fail('keys-formatted', f'defaults key {k!r} under {show(path)} was processed '
                                                          f'without being formatted', 'key-not-formatted'))
                    if literal_key(k) and not get(after_pairs, k)[0]:
                        out.append(fail('adds-exactly-missing', f'{show(path + [k])} is missing and was not added',
                                        'defaults-missing-not-added'))

    walk(old, after, [inc], [], True)
    return out


def tree_nodes(v, acc):
    """every key and value node of an incoming pv tree"""
    acc.append(v)
    if isinstance(v, dict):
        if 'd' in v:
            for k, x in v['d']:
                acc.append(k)
                tree_nodes(x, acc)
        else:
            for t in ('l', 't', 's'):
                if t in v:
                    for x in v[t]:
                        tree_nodes(x, acc)
            if 'jsonify' in v:
                tree_nodes(v['jsonify'], acc)
    return acc


def check_formats_incoming_only(case, obs):
    """"apply formatting to incoming keys and values": everything the operation handed to
    Context.get_formatted_value must be a key or a value of the incoming tree — never existing
    context content (whose braces are data)."""
    nodes = tree_nodes({'d': case['inc']}, [])
    # a !jsonify object formats its inner value through the context when it is itself formatted:
    # the inner values of those stored in the context can legitimately show up
    for tree in (obs['ctx_before'], obs['ctx_after']):
        for n in tree_nodes(tree, []):
            if isinstance(n, dict) and 'jsonify' in n:
                nodes.append(n['jsonify'])
    out = []
    for inp in obs.get('fmt_inputs', []):
        if not any(pv.pv_equal(inp, n) for n in nodes):
            out.append(fail('formats-incoming-only',
                            f'formatted {inp!r}, which is not a key or value of the incoming mapping '
                            f'(result {obs["res"]!r})', 'formatted-non-incoming'))
            break
    return out


def check_list_members_pre_state(case, obs, old, after):
    """"extended with the formatted incoming members": the members of the first list merged by
    the operation are formatted against the context as it was before the merge touched anything —
    not against a destination list that is already growing."""
    pre = obs.get('pre_formatted_list')
    if not pre or obs['res'] != ['ok'] or obs.get('shares_anywhere') or not is_list(pre['members']):
        return []
    o, a = {'d': old}, {'d': after}
    for k in pre['path']:
        ho, o = get(o['d'], k) if is_map(o) else (False, None)
        ha, a = get(a['d'], k) if is_map(a) else (False, None)
        if not (ho and ha):
            return []
    if not (is_list(o) and is_list(a)) or opaque(a):
        return []
    n = len(o['l'])
    want = pre['members']['l']
    got = a['l'][n:n + len(want)]
    if len(a['l']) >= n + len(want) and all(pv.pv_equal(x, y) for x, y in zip(a['l'][:n], o['l'])) \
            and not all(pv.pv_equal(x, y) for x, y in zip(got, want)):
        # (a later item may append more; only the members right after the old ones are judged)
        return [fail('appends-after', f'{show(pre["path"])}: appended {got!r}, but the incoming members formatted '
                                      f'against the context before the merge are {want!r}',
                     'list-members-formatted-against-later-state')]
    return []


def check(case, obs):
    if obs.get('cyclic'):
        return []
    out = []
    old = obs['ctx_before']['d']
    after = obs['ctx_after']['d']
    inc = case['inc']
    if not obs.get('rerun_same', True):
        out.append(fail('harness', 'two runs of the same case gave different results', 'nondeterministic'))
    out += check_formats_incoming_only(case, obs)
    out += check_list_members_pre_state(case, obs, old, after)
    if case['op'] == 'merge':
        out += check_merge(case, obs, old, inc, after)
    else:
        out += check_defaults(case, obs, old, inc, after)
    if not (obs['inc_same_value'] and obs['inc_same_ids']):
        key = 'contextMerge' if case['op'] == 'merge' else 'defaults'
        names_itself = case['via'] == 'step' and any(
            key_eq(fk, key) for k, _ in inc for fk in Named(obs.get('fmt_log', [])).formatted(k))
        out.append(fail('incoming-unmodified',
                        f'the incoming mapping changed: {obs.get("inc_after", "identity of a node")!r}',
                        'step-incoming-names-itself' if names_itself else 'incoming-modified'))
    return out
