"""C14: drive the REAL pypyr code (Context.get_eval_string, pypyr.steps.py, pypyr.steps.pyimport)
on a case and canonicalise what can be seen from outside."""
import builtins
import types

import c14_lang as L


def build(case):
    """Fresh Python objects for the case: (heap objects, context dict)."""
    heap = [[] for _ in case['heap']]

    def val(v):
        if isinstance(v, dict):
            return heap[v['ref']]
        return v
    for obj, items in zip(heap, case['heap']):
        obj.extend(val(x) for x in items)
    return heap, {k: val(v) for k, v in case['ctx']}


class Canon:
    """Mirrors Model/PyScope.v [canon]: pre-existing heap objects keep their index, new
    objects are numbered from 1000 in first-seen order, an object met again is a back ref."""

    def __init__(self, heap):
        self.ids = {id(o): i for i, o in enumerate(heap)}
        self.keep = list(heap)
        self.done = set()
        self.next = 1000

    def cid(self, o):
        k = id(o)
        if k not in self.ids:
            self.ids[k] = self.next
            self.next += 1
            self.keep.append(o)
        return self.ids[k]

    def __call__(self, v):
        if v is None or isinstance(v, (bool, int, str)):
            return v
        if isinstance(v, types.ModuleType):
            return {'mod': v.__name__}
        if v is builtins.__dict__:
            return {'nat': '<builtins>'}
        if isinstance(v, types.FunctionType):
            if v.__module__ == 'pypyr.steps.py' and v.__name__ == 'save':
                return {'nat': '<save>'}
            return {'fn': [self.cid(v), v.__name__]}
        if isinstance(v, list):
            c = self.cid(v)
            if c in self.done:
                return {'back': c}
            self.done.add(c)
            return {'l': [c, [self(x) for x in v]]}
        if isinstance(v, type) and getattr(builtins, v.__name__, None) is not v:
            c = self.cid(v)
            if c in self.done:
                return {'back': c}
            self.done.add(c)
            return {'cls': [c, v.__name__, [[k, self(x)] for k, x in vars(v).items()
                                            if not (k.startswith('__') and k.endswith('__'))]]}
        mod = getattr(v, '__module__', None)
        name = getattr(v, '__name__', None) or type(v).__name__
        if mod in (None, 'builtins'):
            return {'nat': name}
        return {'nat': f'{mod}.{name}'}


def plain(v, depth=0):
    """value only (no identities) — for comparing with the plain-eval oracle."""
    if v is None or isinstance(v, (bool, int, str)):
        return v
    if isinstance(v, list):
        if depth > 8:
            return '<deep>'
        return {'l': [plain(x, depth + 1) for x in v]}
    if isinstance(v, types.ModuleType):
        return {'mod': v.__name__}
    return {'nat': getattr(v, '__name__', type(v).__name__)}


def err_obs(e):
    name = type(e).__name__
    if isinstance(e, (NameError, UnboundLocalError)):
        msg = str(e)
    elif isinstance(e, KeyError) and e.args and isinstance(e.args[0], str):
        msg = e.args[0]
    else:
        msg = ''
    return ['err', name, msg]


def import_source(imports):
    return '\n'.join(L.render_stmt(s) for s in imports)


def snapshot(ctx):
    return [(k, v) for k, v in dict.items(ctx)]


def run_eval_case(case):
    from pypyr.context import Context
    import pypyr.steps.pyimport as pyimport
    heap, cdict = build(case)
    ctx = Context(cdict)
    if case.get('imports'):
        ctx['pyImport'] = import_source(case['imports'])
        pyimport.run_step(ctx)
        del ctx['pyImport']
    before = snapshot(ctx)
    imps_before = list(ctx._pystring_globals.keys())
    srcs = [L.render(e) for e in case['exprs']]
    raw, plain_now = [], []
    for src in srcs:
        try:
            raw.append(('ok', ctx.get_eval_string(src)))
            plain_now.append(['ok', plain(raw[-1][1])])      # value at this moment (later !py may mutate it)
        except Exception as e:   # noqa
            raw.append(('err', e))
            plain_now.append(['err', type(e).__name__])
    after = snapshot(ctx)
    obs = finish(case, heap, ctx, raw, before, after)
    obs['src'] = srcs
    obs['imps_keys_before'] = imps_before
    # second oracle: plain eval of each expression in a fresh dict(context) (+ imports underneath),
    # over a second copy of the case's objects so in-place mutations are replayed, not shared
    heap2, cdict2 = build(case)
    pl = []
    for src in srcs:
        d = dict(ctx._pystring_globals)
        d.update(cdict2)
        try:
            pl.append(['ok', plain(eval(src, d))])
        except Exception as e:   # noqa
            pl.append(['err', type(e).__name__])
    obs['plain_eval'] = pl
    obs['plain_results'] = plain_now
    return obs


def run_exec_case(case):
    from pypyr.context import Context
    import pypyr.steps.py as pystep
    heap, cdict = build(case)
    ctx = Context(cdict)
    src = L.render_block(case['block'])
    ctx['py'] = src
    before = snapshot(ctx)
    try:
        pystep.run_step(ctx)
        raw = [('ok', None)]
    except Exception as e:   # noqa
        raw = [('err', e)]
    after = snapshot(ctx)
    obs = finish(case, heap, ctx, raw, before, after)
    obs['src'] = [src]
    return obs


def finish(case, heap, ctx, raw, before, after):
    canon = Canon(heap)
    results = [['ok', canon(v)] if t == 'ok' else err_obs(v) for t, v in raw]
    cctx = [[k, canon(v)] for k, v in after]
    imps = [[k, canon(v)] for k, v in ctx._pystring_globals.items()]
    nsd = [[k, canon(v)] for k, v in dict.items(ctx._pystring_namespace) if k != '__builtins__']
    amap = dict(after)
    return {
        'results': results, 'ctx': cctx, 'imps': imps, 'nsd': nsd,
        # raw facts for the monitors (no model involved)
        'keys_before': [k for k, _ in before],
        'keys_after': [k for k, _ in after],
        'rebound': [k for k, v in before if k in amap and amap[k] is not v],
        'list_lens_after': {k: len(v) for k, v in after if isinstance(v, list)},
        'builtins_dict_in_ctx': any(v is builtins.__dict__ for _, v in after),
        'nsd_has_builtins': '__builtins__' in dict.keys(ctx._pystring_namespace),
    }
