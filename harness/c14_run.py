"""C14: drive the REAL pypyr code (Context.get_eval_string, pypyr.steps.py, pypyr.steps.pyimport)
on a case and canonicalise what can be seen from outside."""
import builtins
import functools
import importlib
import os
import shutil
import sys
import tempfile
import types

import c14_lang as L


def build(case):
    """Fresh Python objects for the case: (heap objects, context dict)."""
    heap = [[] for _ in case['heap']]

    def val(v):
        if isinstance(v, dict) and 'view' in v:
            return VIEW
        if isinstance(v, dict):
            return heap[v['ref']]
        return v
    for obj, items in zip(heap, case['heap']):
        obj.extend(val(x) for x in items)
    return heap, {k: val(v) for k, v in case['ctx']}


VIEW = object()      # placeholder for a context value that is a live view of the context


def bind_views(mapping):
    """replace the placeholders by a function that reads `mapping` itself when called — what a lambda
    made by an earlier !py, or a function of an earlier py block, is: a live view of the context"""
    def peek(k):
        return mapping.get(k)
    for k, v in list(dict.items(mapping)):
        if v is VIEW:
            dict.__setitem__(mapping, k, peek)
    return mapping


class Canon:
    """Mirrors Model/PyScope.v [canon]: pre-existing heap objects keep their index, new
    objects are numbered from 1000 in first-seen order, an object met again is a back ref."""

    def __init__(self, heap):
        self.ids = {id(o): i for i, o in enumerate(heap)}
        self.keep = list(heap)
        self.done = set()
        self.next = 1000

    def cid(self, o):
        k = id(o)
        if k not in self.ids:
            self.ids[k] = self.next
            self.next += 1
            self.keep.append(o)
        return self.ids[k]

    def __call__(self, v):
        if v is None or isinstance(v, (bool, int, str)):
            return v
        if isinstance(v, types.ModuleType):
            return {'mod': v.__name__}
        if v is builtins.__dict__:
            return {'nat': '<builtins>'}
        if isinstance(v, functools.partial) and getattr(v.func, '__module__', None) == 'pypyr.steps.py':
            return {'nat': '<save>'}
        if isinstance(v, types.FunctionType):
            if v.__module__ == 'pypyr.steps.py' and v.__name__ == 'save':
                return {'nat': '<save>'}
            if getattr(v, '__module__', None) not in (None, 'builtins'):
                return {'nat': f'{v.__module__}.{v.__name__}'}      # a function of an imported module
            return {'fn': [self.cid(v), v.__name__]}
        if isinstance(v, list):
            c = self.cid(v)
            if c in self.done:
                return {'back': c}
            self.done.add(c)
            return {'l': [c, [self(x) for x in v]]}
        if isinstance(v, type) and getattr(builtins, v.__name__, None) is not v:
            c = self.cid(v)
            if c in self.done:
                return {'back': c}
            self.done.add(c)
            return {'cls': [c, v.__name__, [[k, self(x)] for k, x in vars(v).items()
                                            if not (k.startswith('__') and k.endswith('__'))]]}
        mod = getattr(v, '__module__', None)
        name = getattr(v, '__name__', None) or type(v).__name__
        if mod in (None, 'builtins'):
            return {'nat': name}
        return {'nat': f'{mod}.{name}'}


def plain(v, depth=0):
    """value only (no identities) — for comparing with the plain-eval oracle."""
    if v is None or isinstance(v, (bool, int, str)):
        return v
    if isinstance(v, list):
        if depth > 8:
            return '<deep>'
        return {'l': [plain(x, depth + 1) for x in v]}
    if isinstance(v, types.ModuleType):
        return {'mod': v.__name__}
    return {'nat': getattr(v, '__name__', type(v).__name__)}


def err_obs(e):
    name = type(e).__name__
    if isinstance(e, (NameError, UnboundLocalError)):
        msg = str(e)
    elif isinstance(e, KeyError) and e.args and isinstance(e.args[0], str):
        msg = e.args[0]
    else:
        msg = ''
    return ['err', name, msg]


def import_source(imports):
    return '\n'.join(L.render_stmt(s) for s in imports)


def snapshot(ctx):
    return [(k, v) for k, v in dict.items(ctx)]


class Sandbox:
    """The import environment of one case: the throw-away package written to a temp dir on
    sys.path, nothing of it (nor pypyr's import-namespace cache) left over from another case."""

    def __init__(self, case):
        self.pkg = case.get('pkg')
        self.tmp = None

    def purge(self):
        if self.pkg:
            for m in [m for m in sys.modules if m == self.pkg or m.startswith(self.pkg + '.')]:
                del sys.modules[m]

    def __enter__(self):
        from pypyr.cache.namespacecache import pystring_namespace_cache
        pystring_namespace_cache.clear()
        self.purge()
        if self.pkg:
            self.tmp = tempfile.mkdtemp(prefix='c14_')
            for rel, src in L.pkg_files(self.pkg).items():
                path = os.path.join(self.tmp, rel)
                os.makedirs(os.path.dirname(path), exist_ok=True)
                with open(path, 'w') as f:
                    f.write(src)
            sys.path.insert(0, self.tmp)
            importlib.invalidate_caches()
        # which modules of the table are already imported in this process (initial sys.modules)
        self.loaded0 = [m for m, _ in L.case_mods({'pkg': self.pkg}) if m in sys.modules]
        return self

    def __exit__(self, *exc):
        if self.tmp:
            if self.tmp in sys.path:
                sys.path.remove(self.tmp)
            shutil.rmtree(self.tmp, ignore_errors=True)
            importlib.invalidate_caches()
        self.purge()
        return False


def run_eval_case(case):
    with Sandbox(case) as sb:
        obs = _run_eval_case(case)
        obs['loaded0'] = sb.loaded0
        return obs


def run_exec_case(case):
    with Sandbox(case) as sb:
        obs = _run_exec_case(case)
        obs['loaded0'] = sb.loaded0
        return obs


def case_steps(case):
    """[['import', [stmts]] | ['eval', expr] | ['drop', key]] — `steps` when the case interleaves pyimport steps and
    !py evaluations, else one pyimport step (if any) followed by the expressions."""
    if case.get('steps'):
        return case['steps']
    pre = [['import', case['imports']]] if case.get('imports') else []
    return pre + [['eval', e] for e in case['exprs']]


def _run_eval_case(case):
    from pypyr.context import Context
    import pypyr.steps.pyimport as pyimport
    heap, cdict = build(case)
    ctx = bind_views(Context(cdict))
    before = snapshot(ctx)
    import_error = None
    srcs, raw, plain_now = [], [], []
    for st in case_steps(case):
        if st[0] == 'drop':
            ctx.pop(st[1], None)          # the context loses a key (contextclear / pop / in-arg leaving scope)
            continue
        if st[0] == 'import':
            ctx['pyImport'] = import_source(st[1])
            try:
                pyimport.run_step(ctx)
            except Exception as e:   # noqa
                import_error = import_error or e
            del ctx['pyImport']
            continue
        src = L.render(st[1])
        srcs.append(src)
        try:
            if import_error is not None:
                raise import_error
            raw.append(('ok', ctx.get_eval_string(src)))
            plain_now.append(['ok', plain(raw[-1][1])])      # value at this moment (later !py may mutate it)
        except Exception as e:   # noqa
            raw.append(('err', e))
            plain_now.append(['err', type(e).__name__])
    after = snapshot(ctx)
    obs = finish(case, heap, ctx, raw, before, after)
    obs['src'] = srcs
    obs['pyimport_error'] = None if import_error is None else f'{type(import_error).__name__}: {import_error}'
    # second oracle, plain Python scoping at the moment of each !py: replay the steps over a second copy
    # of the case's objects (so in-place mutations are replayed, not shared); an evaluation execs the
    # import sources seen so far, in order, into a fresh namespace and evals the expression in a fresh
    # {**that namespace, **dict(context as it is now)} — context first, then imports, then builtins
    heap2, cdict2 = build(case)
    bind_views(cdict2)
    obs['oracle_import_error'] = None
    pl, ran, keys_at_eval = [], [], []
    for st in case_steps(case):
        if st[0] == 'drop':
            cdict2.pop(st[1], None)
            continue
        if st[0] == 'import':
            ran.append(import_source(st[1]))
            continue
        imp_ns = {}
        try:
            for isrc in ran:
                exec(isrc, imp_ns)
        except Exception as e:   # noqa
            obs['oracle_import_error'] = f'{type(e).__name__}: {e}'
        imp_ns.pop('__builtins__', None)
        d = dict(imp_ns)
        d.update(cdict2)
        keys_at_eval.append(sorted(cdict2))
        try:
            pl.append(['ok', plain(eval(L.render(st[1]), d))])
        except Exception as e:   # noqa
            pl.append(['err', type(e).__name__])
    obs['oracle_ctx_keys_at_eval'] = keys_at_eval
    obs['plain_eval'] = pl
    obs['plain_results'] = plain_now
    return obs


def _run_exec_case(case):
    from pypyr.context import Context
    import pypyr.steps.py as pystep
    heap, cdict = build(case)
    ctx = bind_views(Context(cdict))
    src = L.render_block(case['block'])
    ctx['py'] = src
    before = snapshot(ctx)
    try:
        pystep.run_step(ctx)
        raw = [('ok', None)]
    except Exception as e:   # noqa
        raw = [('err', e)]
    after = snapshot(ctx)
    obs = finish(case, heap, ctx, raw, before, after)
    obs['src'] = [src]
    obs['plain_ctx'] = [[k, plain(v)] for k, v in after]
    obs['oracle'] = exec_oracle(case, src)
    return obs


def exec_oracle(case, src):
    """Plain Python, from the statement: exec the block over a copy of the context as its variables, with
    `save` a function that writes the REAL mapping at the moment it is called (positional names are looked
    up in the block's namespace, keywords taken as given).  Returns the outcome class and the mapping."""
    heap2, cdict2 = build(case)
    octx = bind_views(dict(cdict2))
    octx['py'] = src
    ns = dict(octx)
    ns['__builtins__'] = builtins.__dict__

    def save(*args, **kwargs):
        d = {}
        for a in args:
            d[a] = ns[a]
        d.update(kwargs)
        octx.update(d)
    ns['save'] = save
    try:
        exec(src, ns)
        out = 'ok'
    except Exception as e:   # noqa
        out = type(e).__name__
    return {'outcome': out, 'ctx': [[k, plain(v)] for k, v in octx.items()]}


def finish(case, heap, ctx, raw, before, after):
    canon = Canon(heap)
    results = [['ok', canon(v)] if t == 'ok' else err_obs(v) for t, v in raw]
    cctx = [[k, canon(v)] for k, v in after]
    imps = [[k, canon(v)] for k, v in ctx._pystring_globals.items()]
    nsd = [[k, canon(v)] for k, v in dict.items(ctx._pystring_namespace) if k != '__builtins__']
    amap = dict(after)
    return {
        'results': results, 'ctx': cctx, 'imps': imps, 'nsd': nsd,
        # raw facts for the monitors (no model involved)
        'keys_before': [k for k, _ in before],
        'keys_after': [k for k, _ in after],
        'rebound': [k for k, v in before if k in amap and amap[k] is not v],
        'list_lens_after': {k: len(v) for k, v in after if isinstance(v, list)},
        'builtins_dict_in_ctx': any(v is builtins.__dict__ for _, v in after),
        'nsd_has_builtins': '__builtins__' in dict.keys(ctx._pystring_namespace),
    }
