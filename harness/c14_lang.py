"""C14: the mini-Python AST (JSON lists), its rendering to Python source, its printing as a
Coq term of Model/PyScope.v, and a few static helpers used by the monitors.

expr: ['none'] ['bool',b] ['int',n] ['str',s] ['name',x] ['bin',op,a,b] (op: add|eq|lt)
      ['list',[e..]] ['lam',[ps],body,[args]] ['comp',elt,[[x,it]..]] ['walrus',x,e]
      ['call',f,[args]] ['attr',e,a] ['append',l,x]
stmt: ['assign',x,e] ['aug',x,e] ['import',a.b.c] ['importas',a.b.c,m] ['from',a.b,n,a] ['fromn',a.b,[[n,a]..]]
      ['def',f,[ps],body]
      ['class',c,[[a,e]..]] ['save',[names],[[k,e]..]] ['expr',e] ['del',x]
value (context / heap items): None | bool | int | str | {'ref': i}   (i = index into case['heap'])
"""
from pv import coq_str, coq_Z, coq_list, coq_bool

OPS = {'add': ('+', 'BAdd'), 'eq': ('==', 'BEq'), 'lt': ('<', 'BLt')}

# ---------------------------------------------------------------- rendering


def render(e):
    t = e[0]
    if t == 'none':
        return 'None'
    if t == 'bool':
        return 'True' if e[1] else 'False'
    if t == 'int':
        return repr(e[1]) if e[1] >= 0 else f'({e[1]!r})'
    if t == 'str':
        return repr(e[1])
    if t == 'name':
        return e[1]
    if t == 'bin':
        return f'({render(e[2])} {OPS[e[1]][0]} {render(e[3])})'
    if t == 'list':
        return '[' + ', '.join(render(x) for x in e[1]) + ']'
    if t == 'lam':
        ps = ', '.join(e[1])
        return f'(lambda {ps}: {render(e[2])})(' + ', '.join(render(x) for x in e[3]) + ')' if ps else \
               f'(lambda: {render(e[2])})(' + ', '.join(render(x) for x in e[3]) + ')'
    if t == 'comp':
        return '[' + render(e[1]) + ''.join(f' for {x} in {render(it)}' for x, it in e[2]) + ']'
    if t == 'walrus':
        return f'({e[1]} := {render(e[2])})'
    if t == 'call':
        return f'{render_callee(e[1])}(' + ', '.join(render(x) for x in e[2]) + ')'
    if t == 'attr':
        return f'{render_callee(e[1])}.{e[2]}'
    if t == 'append':
        return f'{render_callee(e[1])}.append({render(e[2])})'
    raise ValueError(f'bad expr {e!r}')


def render_callee(e):
    s = render(e)
    if e[0] in ('name', 'attr', 'call', 'lam', 'append') or s.startswith(('(', '[')):
        return s
    return f'({s})'


def render_stmt(s):
    t = s[0]
    if t == 'assign':
        return f'{s[1]} = {render(s[2])}'
    if t == 'aug':
        return f'{s[1]} += {render(s[2])}'
    if t == 'import':
        return f'import {s[1]}'
    if t == 'importas':
        return f'import {s[1]} as {s[2]}'
    if t == 'from':
        return f'from {s[1]} import {s[2]}' + (f' as {s[3]}' if s[3] != s[2] else '')
    if t == 'fromn':
        return f'from {s[1]} import ' + ', '.join(n + (f' as {a}' if a != n else '') for n, a in s[2])
    if t == 'def':
        return f'def {s[1]}({", ".join(s[2])}): return {render(s[3])}'
    if t == 'class':
        if not s[2]:
            return f'class {s[1]}: pass'
        return f'class {s[1]}:\n' + '\n'.join(f'    {a} = {render(e)}' for a, e in s[2])
    if t == 'save':
        args = [repr(n) for n in s[1]] + [f'{k}={render(e)}' for k, e in s[2]]
        return 'save(' + ', '.join(args) + ')'
    if t == 'expr':
        return render(s[1])
    if t == 'del':
        return f'del {s[1]}'
    raise ValueError(f'bad stmt {s!r}')


def render_block(b):
    return '\n'.join(render_stmt(s) for s in b) + '\n'

# ---------------------------------------------------------------- Coq printing


def coq_nat(n):
    return f'{n}%nat'


def coq_expr(e):
    t = e[0]
    if t == 'none':
        return 'XNone'
    if t == 'bool':
        return f'(XBool {coq_bool(e[1])})'
    if t == 'int':
        return f'(XInt {coq_Z(e[1])})'
    if t == 'str':
        return f'(XStr {coq_str(e[1])})'
    if t == 'name':
        return f'(XName {coq_str(e[1])})'
    if t == 'bin':
        return f'(XBin {OPS[e[1]][1]} {coq_expr(e[2])} {coq_expr(e[3])})'
    if t == 'list':
        return f'(XList {coq_list([coq_expr(x) for x in e[1]])})'
    if t == 'lam':
        return (f'(XLam {coq_list([coq_str(p) for p in e[1]])} {coq_expr(e[2])} '
                f'{coq_list([coq_expr(x) for x in e[3]])})')
    if t == 'comp':
        cl = coq_list([f'({coq_str(x)}, {coq_expr(it)})' for x, it in e[2]])
        return f'(XComp {coq_expr(e[1])} {cl})'
    if t == 'walrus':
        return f'(XWalrus {coq_str(e[1])} {coq_expr(e[2])})'
    if t == 'call':
        return f'(XCall {coq_expr(e[1])} {coq_list([coq_expr(x) for x in e[2]])})'
    if t == 'attr':
        return f'(XAttr {coq_expr(e[1])} {coq_str(e[2])})'
    if t == 'append':
        return f'(XAppend {coq_expr(e[1])} {coq_expr(e[2])})'
    raise ValueError(f'bad expr {e!r}')


def coq_stmt(s):
    t = s[0]
    if t == 'assign':
        return f'(SAssign {coq_str(s[1])} {coq_expr(s[2])})'
    if t == 'aug':
        return f'(SAug {coq_str(s[1])} {coq_expr(s[2])})'
    if t == 'import':
        return f'(SImport {coq_str(s[1])})'
    if t == 'importas':
        return f'(SImportAs {coq_str(s[1])} {coq_str(s[2])})'
    if t == 'from':
        return f'(SFrom {coq_str(s[1])} {coq_str(s[2])} {coq_str(s[3])})'
    if t == 'fromn':
        return f'(SFromN {coq_str(s[1])} ' + coq_list([f'({coq_str(n)}, {coq_str(a)})' for n, a in s[2]]) + ')'
    if t == 'def':
        return f'(SDef {coq_str(s[1])} {coq_list([coq_str(p) for p in s[2]])} {coq_expr(s[3])})'
    if t == 'class':
        at = coq_list([f'({coq_str(a)}, {coq_expr(e)})' for a, e in s[2]])
        return f'(SClass {coq_str(s[1])} {at})'
    if t == 'save':
        kw = coq_list([f'({coq_str(k)}, {coq_expr(e)})' for k, e in s[2]])
        return f'(SSave {coq_list([coq_str(n) for n in s[1]])} {kw})'
    if t == 'expr':
        return f'(SExpr {coq_expr(s[1])})'
    if t == 'del':
        return f'(SDel {coq_str(s[1])})'
    raise ValueError(f'bad stmt {s!r}')


def coq_value(v):
    if v is None:
        return 'PNone'
    if v is True or v is False:
        return f'(PBool {coq_bool(v)})'
    if isinstance(v, int):
        return f'(PInt {coq_Z(v)})'
    if isinstance(v, str):
        return f'(PStr {coq_str(v)})'
    if isinstance(v, dict) and 'ref' in v:
        return f'(PRef {coq_nat(v["ref"])})'
    if isinstance(v, dict) and 'view' in v:
        return '(PNative "c14_run.peek")'
    if isinstance(v, dict) and 'nat' in v:
        return f'(PNative {coq_str(v["nat"])})'
    if isinstance(v, dict) and 'mod' in v:
        return f'(PModule {coq_str(v["mod"])})'
    raise ValueError(f'bad value {v!r}')


def coq_ns(pairs):
    return coq_list([f'({coq_str(k)}, {coq_value(v)})' for k, v in pairs])


def coq_heap(heap):
    return coq_list(['(OList ' + coq_list([coq_value(x) for x in items]) + ')' for items in heap])


def coq_cval(c):
    if c is None:
        return 'CNone'
    if c is True or c is False:
        return f'(CBool {coq_bool(c)})'
    if isinstance(c, int):
        return f'(CInt {coq_Z(c)})'
    if isinstance(c, str):
        return f'(CStr {coq_str(c)})'
    if 'nat' in c:
        return f'(CNative {coq_str(c["nat"])})'
    if 'mod' in c:
        return f'(CMod {coq_str(c["mod"])})'
    if 'l' in c:
        return f'(CList {coq_nat(c["l"][0])} {coq_list([coq_cval(x) for x in c["l"][1]])})'
    if 'back' in c:
        return f'(CBack {coq_nat(c["back"])})'
    if 'fn' in c:
        return f'(CFunc {coq_nat(c["fn"][0])} {coq_str(c["fn"][1])})'
    if 'cls' in c:
        at = coq_list([f'({coq_str(k)}, {coq_cval(x)})' for k, x in c['cls'][2]])
        return f'(CClass {coq_nat(c["cls"][0])} {coq_str(c["cls"][1])} {at})'
    raise ValueError(f'bad cval {c!r}')


def coq_cns(pairs):
    return coq_list([f'({coq_str(k)}, {coq_cval(v)})' for k, v in pairs])


def coq_result(r):
    if r[0] == 'ok':
        return f'(Ok {coq_cval(r[1])})'
    return f'(Err {coq_str(r[1])} {coq_str(r[2])})'


def coq_obs(o):
    return (f'(mk_obs {coq_list([coq_result(r) for r in o["results"]])} {coq_cns(o["ctx"])} '
            f'{coq_cns(o["imps"])} {coq_cns(o["nsd"])})')

# ---------------------------------------------------------------- static helpers (program text only)


def sub_exprs(e):
    t = e[0]
    if t == 'bin':
        return [e[2], e[3]]
    if t == 'list':
        return list(e[1])
    if t == 'lam':
        return [e[2]] + list(e[3])
    if t == 'comp':
        return [e[1]] + [it for _, it in e[2]]
    if t == 'walrus':
        return [e[2]]
    if t == 'call':
        return [e[1]] + list(e[2])
    if t == 'attr':
        return [e[1]]
    if t == 'append':
        return [e[1], e[2]]
    return []


def walk(e):
    yield e
    for s in sub_exprs(e):
        yield from walk(s)


def module_level_walrus(e, in_comp=False):
    """(targets of := that sit directly at module level, targets inside module-level
    comprehensions) — lambda bodies are their own scope and are skipped."""
    top, comp = set(), set()
    t = e[0]
    if t == 'walrus':
        (comp if in_comp else top).add(e[1])
        a, b = module_level_walrus(e[2], in_comp)
        return top | a, comp | b
    if t == 'lam':
        for x in e[3]:
            a, b = module_level_walrus(x, in_comp)
            top |= a
            comp |= b
        return top, comp
    if t == 'comp':
        first = True
        for _, it in e[2]:
            a, b = module_level_walrus(it, in_comp if first else True)
            first = False
            top |= a
            comp |= b
        a, b = module_level_walrus(e[1], True)
        return top | a, comp | b
    for s in sub_exprs(e):
        a, b = module_level_walrus(s, in_comp)
        top |= a
        comp |= b
    return top, comp


def stmt_exprs(s):
    t = s[0]
    if t in ('assign', 'aug'):
        return [s[2]]
    if t == 'def':
        return [s[3]]
    if t == 'class':
        return [e for _, e in s[2]]
    if t == 'save':
        return [e for _, e in s[2]]
    if t == 'expr':
        return [s[1]]
    return []


def save_targets(block):
    out = []
    for s in block:
        if s[0] == 'save':
            out += list(s[1]) + [k for k, _ in s[2]]
    return out


def block_names(block):
    """names a block binds other than through save(): (assigned, imported, defs, classes, loop vars)."""
    assigned, imported, defs, classes, loops = set(), set(), set(), set(), set()
    for s in block:
        t = s[0]
        if t in ('assign', 'aug'):
            assigned.add(s[1])
        elif t == 'import':
            imported.add(s[1].split('.')[0])
        elif t == 'importas':
            imported.add(s[2])
        elif t == 'from':
            imported.add(s[3])
        elif t == 'fromn':
            imported |= {a for _, a in s[2]}
        elif t == 'def':
            defs.add(s[1])
        elif t == 'class':
            classes.add(s[1])
        for e in stmt_exprs(s):
            for x in walk(e):
                if x[0] == 'comp':
                    loops |= {v for v, _ in x[2]}
                elif x[0] == 'walrus':
                    assigned.add(x[1])
                elif x[0] == 'lam':
                    loops |= set(x[1])
    return assigned, imported, defs, classes, loops


# ---------------------------------------------------------------- the module table (mirrors PyScope.v)

STD_MODS = [
    ['math', [['gcd', {'nat': 'math.gcd'}]]],
    ['c14_mod', [['K', 7], ['S', 'seven']]],
    ['os', [['path', {'mod': 'posixpath'}], ['sep', '/']]],
    ['os.path', [['<self>', {'mod': 'posixpath'}], ['sep', '/']]],
    ['posixpath', [['sep', '/']]],
    ['urllib', []],
    ['urllib.parse', [['quote', {'nat': 'urllib.parse.quote'}]]],
    ['xml', []],
    ['xml.dom', [['XHTML_NAMESPACE', 'http://www.w3.org/1999/xhtml']]],
    ['xml.dom.minidom', [['parseString', {'nat': 'xml.dom.minidom.parseString'}], ['parse', {'nat': 'xml.dom.minidom.parse'}]]],
]


def pkg_files(P):
    """the throw-away package a case may import: relative path -> source"""
    return {f'{P}/__init__.py': 'TOP = 1\nONLY = 11\n', f'{P}/other.py': "NAME = 'other'\n",
            f'{P}/sub/__init__.py': "SUBC = 2\nTOP = 'sub-top'\n", f'{P}/sub/mod.py': "CONST = 40\nWORD = 'leaf'\n"}


def pkg_mods(P):
    return [[P, [['TOP', 1], ['ONLY', 11]]], [f'{P}.other', [['NAME', 'other']]],
            [f'{P}.sub', [['SUBC', 2], ['TOP', 'sub-top']]],
            [f'{P}.sub.mod', [['CONST', 40], ['WORD', 'leaf']]]]


def case_mods(case):
    return STD_MODS + (pkg_mods(case['pkg']) if case.get('pkg') else [])


def coq_mods(mods):
    return coq_list([f'({coq_str(m)}, {coq_ns(attrs)})' for m, attrs in mods])


def stmt_binding_name(s):
    if s[0] == 'import':
        return s[1].split('.')[0]
    if s[0] == 'importas':
        return s[2]
    if s[0] == 'from':
        return s[3]
    if s[0] == 'fromn':
        return s[2][0][1]
    return None


def stmt_binding_names(s):
    if s[0] == 'fromn':
        return [a for _, a in s[2]]
    n = stmt_binding_name(s)
    return [] if n is None else [n]


IMPORT_KINDS = ('import', 'importas', 'from', 'fromn')
