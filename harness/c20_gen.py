"""C20 case generator: environments, presence subsets of the five config locations, and
assignments of settings to files; plus the yaml / toml text of every file.

A case:
  {"env": {VAR: value, ...},                    # only the variables that are SET; "/SB" = sandbox root
   "files": [{"path", "kind": "yaml"|"toml", "loc", "payload": pv, "text"}, ...],
   "subset": [...locations present...], "defect": kind or null, "fresh": bool}
paths are "/SB/..." or relative to the working directory (/SB/cwd).
"""
import json
import os

import tomli_w

SB = '/SB'
HOME = SB + '/home'
LOCS = ['c1', 'c2', 'u', 'py', 'loc']

# the settings pypyr documents as configurable (docs: "config file" reference)
SCALARS = ['json_ascii', 'json_indent', 'pipelines_subdir', 'log_config', 'log_date_format',
           'log_notify_format', 'log_detail_format', 'default_backoff', 'default_cmd_encoding',
           'default_encoding', 'default_loader', 'default_group', 'default_success_group',
           'default_failure_group', 'no_cache']
DICTS = ['shortcuts', 'vars']
BOGUS = ['log_level', 'bogus', 'Vars', 'default_groups', 'cwd', 'skip_init', 'platform_paths',
         'pyproject_toml', 'var', 'shortcut']

TRUTHY_ENV = ['1', 'true', 'TRUE', 'True', '1.0', 'tRuE']
FALSY_ENV = ['0', 'false', '', 'yes', '2', 'no', '1.00', ' 1']


def d(pairs):
    return {'d': [[k, v] for k, v in pairs]}


def lst(items):
    return {'l': list(items)}


# ---------------------------------------------------------------- text
def flow(v):
    """pv -> YAML flow / JSON-ish text."""
    if v is None:
        return 'null'
    if v is True:
        return 'true'
    if v is False:
        return 'false'
    if isinstance(v, int):
        return str(v)
    if isinstance(v, str):
        return json.dumps(v)
    if 'f' in v:
        return repr(v['f'][0] / v['f'][1])
    if 'l' in v:
        return '[' + ', '.join(flow(x) for x in v['l']) + ']'
    if 'd' in v:
        return '{' + ', '.join(f'{flow(k)}: {flow(x)}' for k, x in v['d']) + '}'
    raise ValueError(v)


def block(v, indent=0):
    """pv mapping -> YAML block text (nested mappings in block style, the rest flow)."""
    pad = ' ' * indent
    lines = []
    for k, x in v['d']:
        key = k if isinstance(k, str) and k.replace('_', '').isalnum() and not k[0].isdigit() \
            and k.lower() not in ('null', 'true', 'false', 'yes', 'no', 'on', 'off') else flow(k)
        if isinstance(x, dict) and 'd' in x and x['d']:
            lines.append(f'{pad}{key}:')
            lines.append(block(x, indent + 2))
        else:
            lines.append(f'{pad}{key}: {flow(x)}')
    return '\n'.join(lines)


def yaml_text(rng, payload):
    if payload is None:
        return rng.choice(['', 'null\n', '# nothing here\n', '~\n', '---\n'])
    if isinstance(payload, dict) and 'd' in payload and payload['d']:
        r = rng.random()
        if r < 0.6:
            return block(payload) + '\n'
        if r < 0.8:
            return '---\n# generated\n' + block(payload) + '\n'
        return flow(payload) + '\n'
    return flow(payload) + '\n'


def to_plain(v):
    if v is None or isinstance(v, (bool, int, str)):
        return v
    if 'd' in v:
        return {k: to_plain(x) for k, x in v['d']}
    if 'l' in v:
        return [to_plain(x) for x in v['l']]
    if 'f' in v:
        return v['f'][0] / v['f'][1]
    raise ValueError(v)


def toml_text(doc):
    return tomli_w.dumps(to_plain(doc))


def from_plain(o):
    if o is None or isinstance(o, (bool, int, str)):
        return o
    if isinstance(o, float):
        from fractions import Fraction
        fr = Fraction(o)
        return {'f': [fr.numerator, fr.denominator]}
    if isinstance(o, dict):
        return {'d': [[from_plain(k), from_plain(x)] for k, x in o.items()]}
    if isinstance(o, list):
        return {'l': [from_plain(x) for x in o]}
    raise ValueError(o)


def toml_file(doc):
    """(text, payload): tomli_w orders scalars before sub-tables, so the payload the case
    records is the document as tomllib reads the text back (key order is observable)."""
    import tomllib
    text = toml_text(doc)
    return text, from_plain(tomllib.loads(text))


# ---------------------------------------------------------------- values
def scalar_value(rng, name, tag, toml=False):
    """A value for setting `name`, recognisably from file `tag`."""
    if name == 'json_ascii' or name == 'no_cache':
        return rng.choice([True, False])
    if name == 'json_indent':
        return rng.choice([0, 1, 3, 4, 8, {'c1': 11, 'c2': 12, 'c3': 17, 'u': 13, 'py': 14, 'loc': 15, 'g': 16}.get(tag, 99)])
    if name == 'log_config':
        v = d([('version', 1), ('from', tag)])
        return v if toml or rng.random() < 0.8 else None
    if name in ('default_encoding', 'default_cmd_encoding'):
        # ASCII-compatible only: default_encoding is the encoding the NEXT yaml file is read with
        pool = ['utf-8', 'ascii', 'utf8', 'latin-1']
        return rng.choice(pool if toml else pool + [None])
    r = rng.random()
    if r < 0.06 and not toml:
        return None
    if r < 0.10:
        return ''
    if r < 0.14:
        return rng.choice([0, 7, False, lst(['x', tag])])
    return f'{name[-5:]}-{tag}'


def dict_value(rng, prop, tag, toml=False):
    keys = ['a', 'b', 'c', 'd'] if prop == 'vars' else ['s1', 's2', 's3']
    if not toml and prop == 'vars':
        keys = keys + [1]
    n = rng.choice([0, 1, 1, 2, 2, 3])
    chosen = rng.sample(keys, min(n, len(keys)))
    pairs = []
    for k in chosen:
        if prop == 'shortcuts':
            v = d([('pipeline_name', f'p-{tag}'), ('args', lst([tag, str(k)]))])
        else:
            r = rng.random()
            if r < 0.6:
                v = f'{k}-{tag}'
            elif r < 0.75:
                v = d([(tag, 1), ('k', str(k))])
            elif r < 0.85:
                v = lst([tag, 1])
            elif r < 0.9:
                v = rng.choice([0, True, {'f': [3, 2]}])
            else:
                v = '' if toml else None
        pairs.append((k, v))
    return d(pairs)


def mapping_payload(rng, tag, toml=False):
    pool = rng.sample(SCALARS, 5) if rng.random() < 0.3 else \
        ['default_group', 'default_backoff', 'json_indent', 'default_loader', 'log_config',
         'default_encoding', 'no_cache', 'default_success_group']
    n = rng.choice([0, 1, 2, 2, 3, 4])
    pairs = [(s, scalar_value(rng, s, tag, toml)) for s in rng.sample(pool, min(n, len(pool)))]
    for prop in DICTS:
        if rng.random() < 0.6:
            pairs.append((prop, dict_value(rng, prop, tag, toml)))
    rng.shuffle(pairs)
    return d(pairs)


FALSY_NONMAP = [lst([]), 0, False, '', {'f': [0, 1]}]
TRUTHY_NONMAP = [lst([1]), 3, True, 'abc', lst([d([('default_group', 'x')])]), {'f': [3, 2]}, -1]


def defective(rng, kind, tag, toml=False):
    """A payload with one defect of the given kind."""
    if kind == 'falsy-nonmap':
        return rng.choice(FALSY_NONMAP)
    if kind == 'truthy-nonmap':
        return rng.choice(TRUTHY_NONMAP)
    p = mapping_payload(rng, tag, toml)
    pairs = [tuple(kv) for kv in p['d']]
    if kind == 'unknown':
        for b in rng.sample(BOGUS, rng.choice([1, 1, 2])):
            pairs.insert(rng.randrange(len(pairs) + 1), (b, f'{b}-{tag}'))
    elif kind == 'bad-dict':
        prop = rng.choice(DICTS)
        pairs = [kv for kv in pairs if kv[0] != prop]
        bad = rng.choice([3, True, lst([]), ''] if toml else [3, None, True, lst([]), '', 0])
        pairs.append((prop, bad))
    elif kind == 'empty-map':
        pairs = []
    elif kind == 'empty-file':
        return None
    return d(pairs)


# ---------------------------------------------------------------- cases
REPEAT_DIRS = ['{0}/c1:{0}/c2:{0}/c1', '{0}/c1:{0}/c1:{0}/c2', '{0}/c2:{0}/c1:{0}/c2',
               '{0}/c2:{0}/c2:{0}/c1', '{0}/c1:{0}/c2:{0}/c2:{0}/c1', '{0}/c1:{0}/c3:{0}/c1:{0}/c2',
               '{0}/c2:{0}/c1:{0}/c1', '{0}/c1:{0}/c2:{0}/c1:{0}/c2']


def gen_env(rng, etc_xdg_clear, repeat=False):
    env = gen_env_plain(rng, etc_xdg_clear)
    if repeat:
        # the same config path consulted more than once: a directory listed twice in
        # $XDG_CONFIG_DIRS, and / or $XDG_CONFIG_HOME equal to one of the common directories
        r = rng.random()
        if r < 0.5:
            env['XDG_CONFIG_DIRS'] = rng.choice(REPEAT_DIRS).format(SB)
            if rng.random() < 0.7:
                env['XDG_CONFIG_HOME'] = f'{SB}/u'
        elif r < 0.85:
            env['XDG_CONFIG_DIRS'] = rng.choice([f'{SB}/c1:{SB}/c2', f'{SB}/c2:{SB}/c1',
                                                 f'{SB}/c1:{SB}/c3:{SB}/c2'])
            env['XDG_CONFIG_HOME'] = rng.choice([f'{SB}/c1', f'{SB}/c2'])
        else:
            env['XDG_CONFIG_DIRS'] = rng.choice(REPEAT_DIRS).format(SB)
            env['XDG_CONFIG_HOME'] = rng.choice([f'{SB}/c1', f'{SB}/c2'])
        if rng.random() < 0.85:
            env.pop('PYPYR_CONFIG_GLOBAL', None)
            env.pop('PYPYR_SKIP_INIT', None)
    return env


def gen_env_plain(rng, etc_xdg_clear):
    env = {}
    r = rng.random()
    if r < 0.55:
        env['XDG_CONFIG_DIRS'] = f'{SB}/c1:{SB}/c2'
    elif r < 0.70:
        env['XDG_CONFIG_DIRS'] = f'{SB}/c2:{SB}/c1'
    elif r < 0.78:
        env['XDG_CONFIG_DIRS'] = f'{SB}/c1'
    elif r < 0.86:
        env['XDG_CONFIG_DIRS'] = rng.choice([f'{SB}/c1::{SB}/c2', f'{SB}/c1: :{SB}/c2:', f':{SB}/c1:{SB}/c2'])
    elif r < 0.94:
        env['XDG_CONFIG_DIRS'] = f'{SB}/c1:{SB}/c3:{SB}/c2'
    elif etc_xdg_clear:
        if rng.random() < 0.5:
            env['XDG_CONFIG_DIRS'] = rng.choice(['', ' '])
    else:
        env['XDG_CONFIG_DIRS'] = f'{SB}/c1:{SB}/c2'
    r = rng.random()
    if r < 0.75:
        env['XDG_CONFIG_HOME'] = f'{SB}/u'
    elif r < 0.85:
        env['XDG_CONFIG_HOME'] = rng.choice(['', '  '])
    r = rng.random()
    if r < 0.10:
        env['PYPYR_SKIP_INIT'] = rng.choice(TRUTHY_ENV)
    elif r < 0.20:
        env['PYPYR_SKIP_INIT'] = rng.choice(FALSY_ENV)
    r = rng.random()
    if r < 0.22:
        env['PYPYR_CONFIG_GLOBAL'] = rng.choice([f'{SB}/g/global.yaml', 'glob.yaml'])
    elif r < 0.26:
        env['PYPYR_CONFIG_GLOBAL'] = ''
    if rng.random() < 0.12:
        env['PYPYR_CONFIG_LOCAL'] = rng.choice(['alt-config.yaml', f'{SB}/elsewhere/local.yaml'])
    if rng.random() < 0.15:
        env['PYPYR_NO_CACHE'] = rng.choice(TRUTHY_ENV + FALSY_ENV)
    if rng.random() < 0.10:
        env['PYPYR_ENCODING'] = rng.choice(['utf-8', 'ascii', 'latin-1'])
    if rng.random() < 0.10:
        env['PYPYR_CMD_ENCODING'] = rng.choice(['utf-8', 'cp1252', ''])
    return env


def import_env(rng, env, etc_xdg_clear):
    """The environment in force when pypyr.config was imported / the Config object was built,
    different from the one init() runs under: the variables init() is documented to obey
    (PYPYR_SKIP_INIT, PYPYR_CONFIG_GLOBAL, PYPYR_CONFIG_LOCAL, XDG_*) set <-> unset or changed,
    and the constructor's own variables (PYPYR_NO_CACHE, PYPYR_ENCODING, PYPYR_CMD_ENCODING)."""
    imp = dict(env)
    r = rng.random()
    if r < 0.45:
        if env_is_true(env.get('PYPYR_SKIP_INIT')):
            if rng.random() < 0.6:
                imp.pop('PYPYR_SKIP_INIT')
            else:
                imp['PYPYR_SKIP_INIT'] = rng.choice(FALSY_ENV)
        else:
            imp['PYPYR_SKIP_INIT'] = rng.choice(TRUTHY_ENV)
    elif r < 0.60:
        if 'PYPYR_CONFIG_GLOBAL' in env:
            imp.pop('PYPYR_CONFIG_GLOBAL')
        else:
            imp['PYPYR_CONFIG_GLOBAL'] = rng.choice([f'{SB}/g/global.yaml', f'{SB}/nowhere.yaml'])
    elif r < 0.72:
        imp['XDG_CONFIG_DIRS'] = rng.choice([f'{SB}/c2:{SB}/c1', f'{SB}/c3', f'{SB}/c1:{SB}/c2'])
        imp['XDG_CONFIG_HOME'] = rng.choice([f'{SB}/c1', f'{SB}/elsewhere'])
    elif r < 0.80:
        if 'PYPYR_CONFIG_LOCAL' in env:
            imp.pop('PYPYR_CONFIG_LOCAL')
        else:
            imp['PYPYR_CONFIG_LOCAL'] = 'other-local.yaml'
    else:
        return gen_env_plain(rng, etc_xdg_clear)
    for var, pool in (('PYPYR_NO_CACHE', TRUTHY_ENV + FALSY_ENV), ('PYPYR_ENCODING', ['utf-8', 'ascii']),
                      ('PYPYR_CMD_ENCODING', ['utf-8', 'cp1252'])):
        if rng.random() < 0.2:
            if var in imp:
                imp.pop(var)
            else:
                imp[var] = rng.choice(pool)
    return imp


def env_is_true(s):
    return s is not None and s.lower() in ('true', '1', '1.0')


def user_dir(env):
    h = env.get('XDG_CONFIG_HOME', '')
    return h if h.strip() else HOME + '/.config'


def loc_path(env, loc):
    if loc in ('c1', 'c2', 'c3'):
        return f'{SB}/{loc}/pypyr/config.yaml'
    if loc == 'u':
        return user_dir(env) + '/pypyr/config.yaml'
    if loc == 'py':
        return 'pyproject.toml'
    if loc == 'loc':
        return env.get('PYPYR_CONFIG_LOCAL', 'pypyr-config.yaml')
    if loc == 'g':
        return env['PYPYR_CONFIG_GLOBAL']
    raise ValueError(loc)


DEFECTS = ['falsy-nonmap', 'truthy-nonmap', 'unknown', 'bad-dict', 'empty-map', 'empty-file']


def pyproject_doc(rng, inner, shape):
    """The whole toml document around the [tool.pypyr] payload `inner`."""
    pairs = []
    if rng.random() < 0.6:
        pairs.append(('project', d([('name', 'x'), ('version', '1.0')])))
    if shape == 'no-tool':
        if not pairs:
            pairs.append(('build-system', d([('requires', lst(['setuptools']))])))
    elif shape == 'tool-no-pypyr':
        pairs.append(('tool', d([('other', d([('default_group', 'not-pypyr')]))])))
    elif shape == 'empty-tool':
        pairs.append(('tool', d([])))
    elif shape == 'empty-doc':
        pairs = []
    elif shape == 'tool-not-table':
        pairs.append(('tool', rng.choice([3, 'x', True, lst([1])])))
    elif shape == 'tool-falsy':
        pairs.append(('tool', rng.choice([0, '', False, lst([])])))
    else:
        tool = [('pypyr', inner)]
        if rng.random() < 0.4:
            tool.insert(rng.randrange(2), ('black', d([('line-length', 88)])))
        pairs.append(('tool', d(tool)))
    rng.shuffle(pairs)
    return d(pairs)


def add_conflicts(rng, payload, tag):
    """Make a mapping payload set the contested scalar / vars key / shortcuts key, each to a
    value that names the file."""
    pairs = [list(kv) for kv in payload['d']]

    def put(key, value):
        for kv in pairs:
            if kv[0] == key:
                kv[1] = value
                return
        pairs.insert(rng.randrange(len(pairs) + 1), [key, value])

    def put_in(prop, key, value):
        for kv in pairs:
            if kv[0] == prop and isinstance(kv[1], dict) and 'd' in kv[1]:
                inner = [x for x in kv[1]['d'] if x[0] != key]
                inner.insert(rng.randrange(len(inner) + 1), [key, value])
                kv[1] = {'d': inner}
                return
        put(prop, d([(key, value)]))
    if rng.random() < 0.8:
        put('default_group', f'group-{tag}')
    if rng.random() < 0.5:
        put('pipelines_subdir', f'sub-{tag}')
    if rng.random() < 0.7:
        put_in('vars', 'a', f'a-{tag}')
    if rng.random() < 0.6:
        put_in('shortcuts', 's1', d([('pipeline_name', f'p-{tag}')]))
    return {'d': pairs}


def make_case(rng, subset, etc_xdg_clear, force_defect=None, repeat=False):
    env = gen_env(rng, etc_xdg_clear, repeat)
    present = [l for l in LOCS if l in subset]
    if repeat:
        for l in ('c1', 'c2'):
            if l not in present and rng.random() < 0.9:
                present.append(l)
        if 'u' not in present and rng.random() < 0.6:
            present.append('u')
    glob = env.get('PYPYR_CONFIG_GLOBAL')
    if glob and rng.random() < 0.8:
        present.append('g')
    if 'c3' in env.get('XDG_CONFIG_DIRS', '') and rng.random() < 0.6:
        present.append('c3')
    defect = None
    defect_loc = None
    r = rng.random()
    if force_defect or (present and r < (0.10 if repeat else 0.30)):
        defect = force_defect or rng.choice(DEFECTS)
        if present:
            defect_loc = rng.choice(present)
        else:
            defect = None
    files = []
    for loc in present:
        toml = loc == 'py'
        if loc == defect_loc:
            payload = defective(rng, defect, loc, toml)
            if toml and payload is None:
                payload = d([])
        else:
            payload = mapping_payload(rng, loc, toml)
            if repeat and loc in ('c1', 'c2', 'c3', 'u'):
                payload = add_conflicts(rng, payload, loc)
        path = loc_path(env, loc)
        if toml:
            shape = 'pypyr'
            r = rng.random()
            if loc != defect_loc and r < 0.16:
                shape = rng.choice(['no-tool', 'tool-no-pypyr', 'empty-tool', 'empty-doc', 'tool-falsy'])
            elif loc != defect_loc and r < 0.19:
                shape = 'tool-not-table'
            text, doc = toml_file(pyproject_doc(rng, payload, shape))
            files.append({'path': path, 'kind': 'toml', 'loc': loc, 'payload': doc, 'text': text})
        else:
            files.append({'path': path, 'kind': 'yaml', 'loc': loc, 'payload': payload,
                          'text': yaml_text(rng, payload)})
    # a decoy at the default local name when the local name is overridden
    if 'PYPYR_CONFIG_LOCAL' in env and rng.random() < 0.7:
        p = mapping_payload(rng, 'decoy')
        files.append({'path': 'pypyr-config.yaml', 'kind': 'yaml', 'loc': 'decoy', 'payload': p,
                      'text': yaml_text(rng, p)})
    seen = set()
    uniq = []
    for f in files:
        if f['path'] not in seen:
            seen.add(f['path'])
            uniq.append(f)
    case = {'env': env, 'files': uniq, 'subset': [l for l in LOCS if l in subset],
            'defect': defect if defect_loc else None, 'fresh': rng.random() < 0.06}
    if repeat:
        case['repeat'] = True
    if rng.random() < 0.18:
        case['import_env'] = import_env(rng, env, etc_xdg_clear)
    return case


def generate(rng, n, tier):
    etc_xdg_clear = not os.path.exists('/etc/xdg/pypyr/config.yaml')
    cases = []
    for i in range(n):
        mask = i % 32
        subset = [l for j, l in enumerate(LOCS) if mask >> j & 1]
        # every 5th pass over the 32 subsets consults some config path more than once
        cases.append(make_case(rng, subset, etc_xdg_clear, repeat=(i // 32) % 5 == 4))
    return cases
