"""C16 helpers: drive the real filewrite* / fetch* / fileformat* steps and the file context
parsers of /repo on temp files, canonicalise what they did, and compute the independent
oracles the monitors and the YAML/TOML model instantiation need.

Placeholders: every case uses the directory '/T'; at run time it is replaced by a fresh
temp dir, and replaced back in everything observed."""
import io
import json
import math
import os
import shutil
import tempfile
from collections.abc import Mapping
from fractions import Fraction

import pv

ROOT = '/T'
FMT = {
    'json': dict(w='fileWriteJson', f='fetchJson', x='fileFormatJson', ext='json',
                 wm='pypyr.steps.filewritejson', fm='pypyr.steps.fetchjson',
                 xm='pypyr.steps.fileformatjson', pm='pypyr.parser.jsonfile', coq='FJson'),
    'yaml': dict(w='fileWriteYaml', f='fetchYaml', x='fileFormatYaml', ext='yaml',
                 wm='pypyr.steps.filewriteyaml', fm='pypyr.steps.fetchyaml',
                 xm='pypyr.steps.fileformatyaml', pm='pypyr.parser.yamlfile', coq='FYaml'),
    'toml': dict(w='fileWriteToml', f='fetchToml', x='fileFormatToml', ext='toml',
                 wm='pypyr.steps.filewritetoml', fm='pypyr.steps.fetchtoml',
                 xm='pypyr.steps.fileformattoml', pm='pypyr.parser.tomlfile', coq='FToml'),
}

# ------------------------------------------------------------------ pv <-> python (C16 subset)


def to_py(v, sub=None):
    """pv -> Python object.  `sub` = (placeholder, real) replaced as a string prefix."""
    if v is None or isinstance(v, (bool, int)):
        return v
    if isinstance(v, str):
        if sub and v.startswith(sub[0]):
            return sub[1] + v[len(sub[0]):]
        return v
    if 'f' in v:
        n, d = v['f']
        return n / d
    if 'fx' in v:
        return float(v['fx'])
    if 'b' in v:
        return v['b'].encode('latin-1')
    if 'l' in v:
        return [to_py(x, sub) for x in v['l']]
    if 't' in v:
        return tuple(to_py(x, sub) for x in v['t'])
    if 's' in v:
        return set(to_py(x, sub) for x in v['s'])
    if 'd' in v:
        return {to_py(k, sub): to_py(x, sub) for k, x in v['d']}
    raise ValueError(f'bad pv {v!r}')


def canon(o, unsub=None):
    """Python object -> pv.  `unsub` = (real, placeholder) replaced inside every string."""
    if o is None or isinstance(o, bool):
        return o
    if isinstance(o, int):
        return int(o)
    if isinstance(o, str):
        s = str(o)
        return s.replace(unsub[0], unsub[1]) if unsub else s
    if isinstance(o, float):
        if math.isnan(o):
            return {'fx': 'nan'}
        if math.isinf(o):
            return {'fx': 'inf' if o > 0 else '-inf'}
        if o == 0 and math.copysign(1, o) < 0:
            return {'fx': '-0.0'}
        fr = Fraction(o)
        return {'f': [fr.numerator, fr.denominator]}
    if isinstance(o, (bytes, bytearray)):
        return {'b': bytes(o).decode('latin-1')}
    if isinstance(o, Mapping):
        return {'d': [[canon(k, unsub), canon(x, unsub)] for k, x in o.items()]}
    if isinstance(o, list):
        return {'l': [canon(x, unsub) for x in o]}
    if isinstance(o, tuple):
        return {'t': [canon(x, unsub) for x in o]}
    if isinstance(o, (set, frozenset)):
        try:
            return {'s': [canon(x, unsub) for x in sorted(o, key=pv.set_sort_key)]}
        except (ValueError, TypeError):
            return {'other': 'set'}
    return {'other': type(o).__name__ + ':' + repr(o)[:60]}


def has_tag(v, tag):
    if isinstance(v, dict):
        if tag in v:
            return True
        for t in ('l', 't', 's'):
            if t in v:
                return any(has_tag(x, tag) for x in v[t])
        if 'd' in v:
            return any(has_tag(k, tag) or has_tag(x, tag) for k, x in v['d'])
    if isinstance(v, list):
        return any(has_tag(x, tag) for x in v)
    return False


def deep_has(v, tag):
    """Any dict anywhere inside an arbitrary JSON-able structure carrying `tag`."""
    if isinstance(v, dict):
        return tag in v or any(deep_has(x, tag) for x in v.values())
    if isinstance(v, (list, tuple)):
        return any(deep_has(x, tag) for x in v)
    return False


def modelable(v):
    """No non-finite floats / foreign objects anywhere (the Coq value printer has no term
    for them)."""
    return not (deep_has(v, 'fx') or deep_has(v, 'other'))


def same(a, b):
    """Document equality from the property statement: equal values, equal types
    (True is not 1, 1 is not 1.0), mapping key ORDER ignored, nan equal to nan."""
    if isinstance(a, dict) and isinstance(b, dict):
        if 'd' in a and 'd' in b:
            if len(a['d']) != len(b['d']):
                return False
            for k, x in a['d']:
                hit = [y for kk, y in b['d'] if same(k, kk)]
                if len(hit) != 1 or not same(x, hit[0]):
                    return False
            return True
        if a.keys() != b.keys():
            return False
        return all(same(a[k], b[k]) for k in a)
    if isinstance(a, list) and isinstance(b, list):
        return len(a) == len(b) and all(same(x, y) for x, y in zip(a, b))
    return type(a) is type(b) and a == b

# ------------------------------------------------------------------ representable domains
# (written from the formats' data models; mirrored by json_rt / yaml_representable /
#  toml_representable in Model/Codec.v, and the YAML one is cross-checked against Coq)


def _strings(v):
    if isinstance(v, str):
        yield v
    elif isinstance(v, dict):
        for t in ('l', 't', 's'):
            if t in v:
                for x in v[t]:
                    yield from _strings(x)
        if 'd' in v:
            for k, x in v['d']:
                yield from _strings(k)
                yield from _strings(x)


def plain_data(v, allow_none, str_keys, allow_float=True):
    if v is None:
        return allow_none
    if isinstance(v, str):
        return not any(0xD800 <= ord(c) <= 0xDFFF for c in v)    # lone surrogates are not text
    if isinstance(v, (bool, int)):
        return True
    if isinstance(v, dict):
        if 'f' in v or 'fx' in v:
            return allow_float
        if 'l' in v:
            return all(plain_data(x, allow_none, str_keys, allow_float) for x in v['l'])
        if 'd' in v:
            for k, x in v['d']:
                if isinstance(k, str):
                    if not plain_data(k, allow_none, str_keys):
                        return False
                elif k is None or isinstance(k, (bool, int)):
                    if str_keys:
                        return False
                else:
                    return False
                if not plain_data(x, allow_none, str_keys, allow_float):
                    return False
            return True
    return False


def has_nel(s):
    return b'\xc2\x85' in s.encode('utf-8', 'surrogatepass')


def yaml_dq(s):
    """Mirror of Codec.yaml_dq on the UTF-8 bytes."""
    b = s.encode('utf-8', 'surrogatepass')
    n = len(b)
    for i, c in enumerate(b):
        if (c < 32 and c != 10) or c == 127:
            return True
        if i + 1 < n:
            m = b[i + 1]
            if c == 194 and 128 <= m <= 159:
                return True
            if (c == 32 and m == 10) or (c == 10 and m == 32):
                return True
            if i + 2 < n:
                k = b[i + 2]
                if c == 226 and m == 128 and k in (168, 169):
                    return True
                if c == 239 and m == 187 and k == 191:
                    return True
                if c == 239 and m == 191 and k in (190, 191):
                    return True
    return False


def yaml_str_ok(s):
    return not has_nel(s) and not (yaml_dq(s) and ' ' in s)


def representable(fmt, v):
    """Is the (formatted) payload in the domain the property statement is about?"""
    if fmt == 'json':
        return plain_data(v, True, True)
    if fmt == 'yaml':
        return plain_data(v, True, False)
    return plain_data(v, False, True) and isinstance(v, dict) and 'd' in v and len(v['d']) > 0


def yaml_domain(v):
    return plain_data(v, True, False) and all(yaml_str_ok(s) for s in _strings(v))

# ------------------------------------------------------------------ direct codec calls (oracles)


class Codec:
    """The serialiser / parser pair of one step run, called directly.  ff=True: the pair a
    fileformat representer uses - for YAML ONE round-trip YAML() instance does both the
    load and the dump (it remembers e.g. a %YAML directive), as YamlRepresenter does."""

    def __init__(self, fmt, ff=False):
        self.fmt, self.ff = fmt, ff
        self.rt = None
        if fmt == 'yaml' and ff:
            import pypyr.yaml
            self.rt = pypyr.yaml.get_yaml_parser_roundtrip()

    def print(self, obj):
        if self.fmt == 'json':
            return json.dumps(obj, indent=2, ensure_ascii=False)
        if self.fmt == 'yaml':
            import pypyr.yaml
            w = self.rt if self.ff else pypyr.yaml.get_yaml_parser_roundtrip_for_context()
            s = io.StringIO()
            w.dump(obj, s)
            return s.getvalue()
        import tomli_w
        return tomli_w.dumps(obj)

    def parse(self, text):
        if self.fmt == 'json':
            return json.loads(text)
        if self.fmt == 'yaml':
            import ruamel.yaml as yaml
            if self.ff:
                return self.rt.load(text)
            return yaml.YAML(typ='safe', pure=True).load(text)
        import tomllib
        return tomllib.loads(text)


def codec_print(fmt, obj, ff=False):
    return Codec(fmt, ff).print(obj)


def codec_parse(fmt, text, ff=False):
    return Codec(fmt, ff).parse(text)


def same_obs(a, b):
    if a[0] != b[0]:
        return False
    if a[0] == 'ok':
        return pv.pv_equal(a[1], b[1])
    return a[1] == b[1]


def in_child(fn, case):
    """Run fn(case) in a forked child and return its JSON result: whatever a case with a
    history leaves behind in module-level state cannot reach later cases of this worker."""
    r, w = os.pipe()
    pid = os.fork()
    if pid == 0:
        code = 0
        try:
            os.close(r)
            try:
                data = json.dumps(['ok', fn(case)])
            except BaseException as e:           # noqa
                import traceback
                data = json.dumps(['exc', f'{type(e).__name__}: {e}', traceback.format_exc()[-1200:]])
            with os.fdopen(w, 'w') as f:
                f.write(data)
        except BaseException:                    # noqa
            code = 1
        finally:
            os._exit(code)
    os.close(w)
    with os.fdopen(r) as f:
        data = f.read()
    os.waitpid(pid, 0)
    res = json.loads(data)
    if res[0] != 'ok':
        raise RuntimeError(f'case child failed: {res[1]}\n{res[2]}')
    return res[1]


def attempt(fn, *a, **kw):
    import contextlib
    from pypyr.errors import get_error_name
    try:
        # (ruamel's emitter writes the offending text to stdout when a stream cannot encode it)
        with contextlib.redirect_stdout(io.StringIO()):
            return ['ok', fn(*a, **kw)]
    except RecursionError:
        return ['err', 'RecursionError', '']
    except Exception as e:
        return ['err', get_error_name(e), str(e)[:300]]


def format_nodes(ctx, o):
    """The property statement's reading of fileformat: the same document with every string
    node (keys included) replaced by its formatted value, all other nodes unchanged.
    Each string is formatted on its own with the real Context.get_formatted_value."""
    if isinstance(o, str):
        return ctx.get_formatted_value(str(o))
    if isinstance(o, Mapping):
        return {format_nodes(ctx, k): format_nodes(ctx, x) for k, x in o.items()}
    if isinstance(o, list):
        return [format_nodes(ctx, x) for x in o]
    return o

# ------------------------------------------------------------------ stdlib formatting oracle
NA = ('__not_applicable__',)


def _plain_scalar(v):
    return v is None or isinstance(v, (bool, int, float)) or \
        (isinstance(v, str) and '{' not in v and '}' not in v)


def std_format(s, ctxd):
    """The formatted value of ONE string, computed without pypyr and without the model:
    python's own string.Formatter tokenises it; only literal text, the {{ / }} escapes and
    plain {name} references (no conversion, no spec, no accessor) to plain scalars of the
    context are in scope - anything else: NA.  A string that is exactly one reference
    yields the referenced scalar itself (the documented keep-type rule); otherwise the
    pieces are joined as str.format does."""
    import string
    try:
        items = list(string.Formatter().parse(s))
    except ValueError:
        return NA
    fields = []
    for lit, name, spec, conv in items:
        if name is None:
            continue
        if spec or conv or not name.isidentifier() or name not in ctxd or not _plain_scalar(ctxd[name]):
            return NA
        fields.append(name)
    if len(items) == 1 and items[0][0] == '' and fields:
        return ctxd[fields[0]]
    try:
        return string.Formatter().vformat(s, (), {k: ctxd[k] for k in fields})
    except Exception:
        return NA


def std_format_nodes(o, ctxd):
    """Every string node (keys included) through std_format; NA if any node is out of scope."""
    if isinstance(o, str):
        return std_format(str(o), ctxd)
    if isinstance(o, Mapping):
        out = {}
        for k, x in o.items():
            fk, fx = std_format_nodes(k, ctxd), std_format_nodes(x, ctxd)
            if fk is NA or fx is NA:
                return NA
            try:
                out[fk] = fx
            except TypeError:
                return NA
        return out
    if isinstance(o, list):
        xs = [std_format_nodes(x, ctxd) for x in o]
        return NA if any(x is NA for x in xs) else xs
    if isinstance(o, (tuple, set, frozenset, bytes)):
        return NA
    return o


def plain_ctx(case, sb):
    return {k: to_py(v, sb.sub) for k, v in case['ctx']}

# ------------------------------------------------------------------ running cases


class Sandbox:
    def __init__(self):
        self.tmp = os.path.realpath(tempfile.mkdtemp(prefix='c16-'))
        self.sub = (ROOT, self.tmp)
        self.unsub = (self.tmp, ROOT)

    def real(self, p):
        return p.replace(ROOT, self.tmp, 1) if p.startswith(ROOT) else p

    def files(self, enc):
        out = []
        for d, _, names in sorted(os.walk(self.tmp)):
            for n in sorted(names):
                full = os.path.join(d, n)
                with open(full, 'rb') as f:
                    raw = f.read()
                try:
                    text = raw.decode(enc or 'utf-8')
                except UnicodeDecodeError:
                    text = raw.decode('latin-1')
                out.append([full.replace(self.tmp, ROOT), text.replace(self.tmp, ROOT)])
        return out

    def close(self):
        shutil.rmtree(self.tmp, ignore_errors=True)


def build_context(case, sb, extra):
    from pypyr.context import Context
    d = {}
    for k, v in case['ctx']:
        d[k] = to_py(v, sb.sub)
    for k, v in extra:
        d[k] = to_py(v, sb.sub)
    return Context(d)


def step_inputs(case):
    """The step input mappings as pv, in the order they are added to the context."""
    F = FMT[case['fmt']]
    if case['kind'] == 'wf':
        w = [['path', case['path']]]
        if 'payload' in case:
            w.append(['payload', case['payload']])
        if case.get('enc') and case['fmt'] != 'toml':
            w.append(['encoding', case['enc']])
        if case.get('fetch_form') == 'str':
            f = case.get('fetch_path', case['path'])
        else:
            fl = [['path', case.get('fetch_path', case['path'])]]
            if 'key' in case:
                fl.append(['key', case['key']])
            if case.get('enc') and case['fmt'] != 'toml':
                fl.append(['encoding', case['enc']])
            f = {'d': fl}
        extra = []
        if not case.get('drop_write_key'):
            extra.append([F['w'], {'d': w} if not case.get('write_none') else None])
        extra.append([F['f'], f])
        return extra
    x = [['in', case['in']]]
    if case.get('out') is not None:
        x.append(['out', case['out']])
    if case['fmt'] != 'toml':
        for k, name in (('enc', 'encoding'), ('enc_in', 'encodingIn'), ('enc_out', 'encodingOut')):
            if case.get(k):
                x.append([name, case[k]])
    return [[F['x'], {'d': x}]]


def ff_encodings(case):
    """(in, out) encodings a fileformat case asks for, by the documented defaults:
    encodingIn / encodingOut fall back to encoding, which falls back to the platform
    default (utf-8 here)."""
    if case['fmt'] == 'toml':
        return 'utf-8', 'utf-8'
    d = case.get('enc') or case.get('default_enc') or 'utf-8'
    return case.get('enc_in') or d, case.get('enc_out') or d


def can_encode(text, enc):
    try:
        text.encode(enc)
        return True
    except UnicodeEncodeError:
        return False


def _run_wf(case):
    import importlib
    F = FMT[case['fmt']]
    fmt = case['fmt']
    enc = wf_encoding(case)
    sb = Sandbox()
    try:
        extra = step_inputs(case)
        ctx = build_context(case, sb, extra)
        obs = {}
        # the formatted payload, by the real formatter (consistency relation for the monitor;
        # also the key of the print table for yaml/toml)
        if 'payload' in case:
            fp = attempt(lambda: ctx.get_formatted_value(to_py(case['payload'], sb.sub)))
        else:
            fp = attempt(lambda: dict(ctx.get_formatted_value(ctx)))
        fp_obj = fp[1] if fp[0] == 'ok' else None
        obs['fp'] = ['ok', canon(fp_obj, sb.unsub)] if fp[0] == 'ok' else fp
        fpath = attempt(lambda: ctx.get_formatted_value(to_py(case.get('fetch_path', case['path']), sb.sub)))
        obs['fetch_path'] = canon(fpath[1], sb.unsub) if fpath[0] == 'ok' else None
        # the same, by python's own formatter (no pypyr code), where it applies; without a
        # payload the document is the whole context - root keys included
        src = to_py(case['payload'], sb.sub) if 'payload' in case else dict(ctx)
        st = std_format_nodes(src, plain_ctx(case, sb))
        if st is not NA:
            obs['fp_std'] = canon(st, sb.unsub)
        if 'key' in case and case.get('fetch_form') != 'str':
            kf = attempt(lambda: ctx.get_formatted_value(to_py(case['key'], sb.sub)))
            obs['key_f'] = ['ok', canon(kf[1], sb.unsub)] if kf[0] == 'ok' else kf
        # oracles: the serialiser / parser called directly
        oracle = {}
        if fp[0] == 'ok':
            pr = attempt(codec_print, fmt, fp_obj)
            oracle['print'] = ['ok', pr[1].replace(sb.tmp, ROOT)] if pr[0] == 'ok' else pr
            if pr[0] == 'ok':
                obs['encodable'] = can_encode(pr[1], enc or 'utf-8')
                pa = attempt(codec_parse, fmt, pr[1])
                oracle['parse'] = ['ok', canon(pa[1], sb.unsub)] if pa[0] == 'ok' else pa
                obs['rt_ok'] = pa[0] == 'ok' and same(oracle['parse'][1], obs['fp'][1])
        obs['oracle'] = oracle
        # 1. write
        if not case.get('no_write'):
            w = attempt(importlib.import_module(F['wm']).run_step, ctx)
            obs['write'] = ['ok'] if w[0] == 'ok' else w
        else:
            obs['write'] = None
        obs['files'] = sb.files(enc)
        if obs['write'] is not None and obs['write'][0] == 'ok' and len(obs['files']) == 1:
            # what the step wrote, read back with the parser called directly
            fpz = attempt(codec_parse, fmt, obs['files'][0][1].replace(ROOT, sb.tmp))
            obs['file_parsed'] = ['ok', canon(fpz[1], sb.unsub)] if fpz[0] == 'ok' else fpz
        # 2. fetch (same context object, as in a pipeline)
        if obs['write'] is None or obs['write'][0] == 'ok':
            before = canon(dict(ctx), sb.unsub)
            fetch_mod = importlib.import_module(F['fm'])
            # "fetching is a function of the file": the same fetch on an identical context,
            # once BEFORE anything else was loaded in this process ...
            c0 = build_context(case, sb, extra)
            f0 = attempt(fetch_mod.run_step, c0)
            first = ['ok', canon(dict(c0), sb.unsub)] if f0[0] == 'ok' else f0[:2]
            # ... then the history: earlier, unrelated documents go through the same step and
            # the same context parser (kept out of the case's directory)
            if case.get('pre'):
                from pypyr.context import Context
                pre_dir = tempfile.mkdtemp(prefix='c16-pre-')
                try:
                    for i, text in enumerate(case['pre']):
                        pp = os.path.join(pre_dir, f'legacy{i}.{F["ext"]}')
                        with open(pp, 'w', encoding=enc or 'utf-8') as f:
                            f.write(text)
                        attempt(fetch_mod.run_step, Context({F['f']: {'path': pp, 'key': 'legacy'}}))
                        attempt(importlib.import_module(F['pm']).get_parsed_context, [pp])
                finally:
                    shutil.rmtree(pre_dir, ignore_errors=True)
            fr = attempt(fetch_mod.run_step, ctx)
            obs['fetch'] = ['ok', canon(dict(ctx), sb.unsub)] if fr[0] == 'ok' else fr
            obs['ctx_before_fetch'] = before
            # ... and once more afterwards
            c2 = build_context(case, sb, extra)
            f2 = attempt(fetch_mod.run_step, c2)
            again = ['ok', canon(dict(c2), sb.unsub)] if f2[0] == 'ok' else f2[:2]
            this = obs['fetch'] if obs['fetch'][0] == 'ok' else obs['fetch'][:2]
            obs['fetch_stable'] = {'first': same_obs(first, this), 'again': same_obs(again, this)}
            if not obs['fetch_stable']['first']:
                obs['fetch_first'] = first
            if fr[0] != 'ok':
                obs['ctx_after_failed_fetch'] = canon(dict(ctx), sb.unsub)
        else:
            obs['fetch'] = None
        # 3. the file context parser on the same file
        if case.get('parser') and isinstance(obs['fetch_path'], str) \
                and (obs['write'] is None or obs['write'][0] == 'ok'):
            args = sb.real(obs['fetch_path']).split(' ')
            pr = attempt(importlib.import_module(F['pm']).get_parsed_context, args)
            if pr[0] == 'ok':
                obs['parser'] = ['ok', None if pr[1] is None else canon(pr[1], sb.unsub)]
            else:
                obs['parser'] = pr
        # json.load oracle for the file that was written
        if fmt == 'json' and obs['files']:
            jl = attempt(json.loads, obs['files'][0][1])
            obs['json_load'] = ['ok', canon(jl[1])] if jl[0] == 'ok' else ['err']
        return obs
    finally:
        sb.close()


def with_default_encoding(fn, case):
    """Run one case with pypyr's configured default file encoding set as the case says
    (config.default_encoding; None = platform default), and put it back afterwards."""
    from pypyr.config import config
    old = config.default_encoding
    config.default_encoding = case.get('default_enc')
    try:
        return fn(case)
    finally:
        config.default_encoding = old


def run_wf(case):
    return with_default_encoding(_run_wf, case)


def run_ff(case):
    return with_default_encoding(_run_ff, case)


def wf_encoding(case):
    """The encoding a filewrite / fetch pair without or with an explicit `encoding` uses:
    explicit, else the configured default, else utf-8 (TOML: always utf-8, binary)."""
    if case['fmt'] == 'toml':
        return None
    return case.get('enc') or case.get('default_enc')


def make_text(fmt, obj, style):
    """Input document text for fileformat, in a chosen layout."""
    if fmt == 'json':
        kw = {}
        if style.get('indent', 2) != 'none':
            kw['indent'] = style.get('indent', 2)
        if style.get('seps'):
            kw['separators'] = tuple(style['seps'])
        text = json.dumps(obj, ensure_ascii=style.get('ascii', False), **kw)
        return style.get('lead', '') + text + style.get('trail', '')
    if fmt == 'yaml':
        import ruamel.yaml as yaml
        kind = style.get('dumper', 'rt')
        y = yaml.YAML(typ='safe' if kind.startswith('safe') else 'rt', pure=True)
        if kind == 'safe-flow':
            y.default_flow_style = True
        elif kind == 'safe-block':
            y.default_flow_style = False
        if style.get('width'):
            y.width = style['width']
        s = io.StringIO()
        y.dump(obj, s)
        return style.get('lead', '') + s.getvalue()
    import tomli_w
    return style.get('lead', '') + tomli_w.dumps(obj, multiline_strings=bool(style.get('multiline')))


def _run_ff(case):
    import importlib
    F = FMT[case['fmt']]
    fmt = case['fmt']
    enc_in, enc_out = ff_encodings(case)
    sb = Sandbox()
    try:
        ctx = build_context(case, sb, step_inputs(case))
        obs = {}
        if 'text' in case:
            text = case['text']
        else:
            text = make_text(fmt, to_py(case['doc']), case.get('style', {}))
        p_in = sb.real(case['in_real'])
        os.makedirs(os.path.dirname(p_in), exist_ok=True)
        if not can_encode(text, enc_in):
            # the generated document cannot be stored in the requested input encoding, so
            # there is no such input file: nothing to run
            return {'skip': 'input not encodable in ' + enc_in}
        if not case.get('no_infile'):
            with open(p_in, 'w', encoding=enc_in, newline='') as f:
                f.write(text)
        obs['in_text'] = text
        # oracles (direct third-party calls, the loaders the representers use)
        cd = Codec(fmt, True)
        pin = attempt(cd.parse, text)
        oracle = {}
        if pin[0] == 'ok':
            oracle['in_parsed'] = ['ok', canon(pin[1])]
            fd = attempt(lambda: ctx.get_formatted_value(pin[1]))
            if fd[0] == 'ok':
                oracle['formatted'] = ['ok', canon(fd[1], sb.unsub)]
                pr = attempt(cd.print, fd[1])
                oracle['print'] = ['ok', pr[1].replace(sb.tmp, ROOT)] if pr[0] == 'ok' else pr
            else:
                oracle['formatted'] = fd
            # the statement's expectation: node-wise formatting of the parsed input
            ex = attempt(lambda: format_nodes(ctx, codec_parse(fmt, text, True)))
            obs['expected'] = ['ok', canon(ex[1], sb.unsub)] if ex[0] == 'ok' else ex
            # ... and the same expectation from python's own formatter, where it applies
            st = std_format_nodes(codec_parse(fmt, text, True), plain_ctx(case, sb))
            if st is not NA:
                obs['expected_std'] = canon(st, sb.unsub)
        else:
            oracle['in_parsed'] = pin
        obs['oracle'] = oracle
        r = attempt(importlib.import_module(F['xm']).run_step, ctx)
        obs['res'] = ['ok'] if r[0] == 'ok' else r
        target = case.get('out_real') or case['in_real']
        order = [case['in_real']]
        if case.get('out_real') and case['out_real'] != case['in_real']:
            order.append(case['out_real'])
        # the bytes on disk, decoded with the encoding the step was asked to use for that file
        raw = {}
        for d, _, names in sorted(os.walk(sb.tmp)):
            for n in sorted(names):
                with open(os.path.join(d, n), 'rb') as f:
                    raw[os.path.join(d, n).replace(sb.tmp, ROOT)] = f.read()
        obs['files'] = []
        obs['decode'] = 'ok'
        for p in order:
            if p not in raw:
                continue
            b = raw.pop(p)
            e = enc_out if (p == target and r[0] == 'ok') else enc_in
            try:
                t = b.decode(e)
            except UnicodeError as ex:
                if p == target and r[0] == 'ok':
                    obs['decode'] = f'{p}: the bytes written do not decode as {e}: {ex}'[:300]
                t = '<undecodable as ' + e + '> ' + b.decode('latin-1')
            if p == target and r[0] == 'ok' and e == 'utf-8-sig' and not b.startswith(b'\xef\xbb\xbf'):
                obs['decode'] = f'{p}: encodingOut utf-8-sig but the file has no BOM'
            if p == target and r[0] == 'ok' and e == 'utf-16' and b[:2] not in (b'\xff\xfe', b'\xfe\xff'):
                obs['decode'] = f'{p}: encodingOut utf-16 but the file has no BOM'
            obs['files'].append([p, t.replace(sb.tmp, ROOT)])
        obs['stray_files'] = sorted(raw)            # temp files left behind (C15's concern)
        out_text = dict(obs['files']).get(target)
        obs['out_text'] = out_text
        if 'print' in oracle and oracle['print'][0] == 'ok':
            obs['out_encodable'] = can_encode(oracle['print'][1], enc_out)
        if r[0] == 'ok' and out_text is not None:
            po = attempt(codec_parse, fmt, out_text, True)
            obs['out_parsed'] = ['ok', canon(po[1])] if po[0] == 'ok' else po
        if fmt == 'json':
            jl = attempt(json.loads, text)
            obs['json_load_in'] = ['ok', canon(jl[1])] if jl[0] == 'ok' else ['err']
        return obs
    finally:
        sb.close()
