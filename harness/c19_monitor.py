"""C19 monitors — written from the property STATEMENT, not from the Coq model.

A reference walk predicts, hop by hop, which file the statement says must run:
   absolute name           -> only <name>.yaml itself
   otherwise, in order     -> directory of the calling pipeline (pype children, unless
                              resolveFromParent is false / an explicit parent is given / a
                              different loader is named), cwd, cwd/<pipelines>, built-in dir
   nothing there           -> PipelineNotFoundError naming the places searched
and checks that custom step modules next to a file-loaded pipeline import, and that the
pipeline's directory is on sys.path exactly once.
"The calling pipeline's directory" is what the calling pipeline's PipelineInfo records as its
parent (for the file loader: the directory of the file — checked); whether it cascades by
default is PipelineInfo.is_parent_cascading / is_loader_cascading (pipedef.py), and an explicit
resolveFromParent on the pype step overrides that default in BOTH directions.  These three
facts are read from the probe event of the calling pipeline, so children of pipelines loaded
by the custom test loaders are judged by the same rule.  Only `loader: null` / '' (is that "a
different loader"?) is left without a verdict."""
import os

from core import fail
from c19_lib import (CT, CREPO, FILE_LOADER, PNF, PMNF, all_dirs, builtin_abs, cabs, file_abs,
                     real_builtin_entries, sub)


def truthy(x):
    return bool(x)


def resolve(cwd, s):
    return os.path.normpath(s if s.startswith('/') else cwd + '/' + s)


class Walk:
    def __init__(self, case, obs):
        self.case, self.obs = case, obs
        self.files = {file_abs(case, f): f for f in list(case['files']) + real_builtin_entries(case)}
        self.mods = {cabs(m) for m in case.get('mods', [])}
        self.dirs = set(all_dirs(case))
        self.cwd = cabs('cwd')
        self.subd = self.cwd + '/' + (case.get('subdir') or 'pipelines')
        self.blt = builtin_abs(case)
        self.trace = obs['trace']
        self.pos = 0
        self.fails = []
        self.requests = {}       # (loader, cache key) -> (name, parent string)
        self.stopped = False     # walk left the statement's domain
        self.ended = False       # an error ended the run
        self.err = obs['err']    # outcome of the current root run
        self.swallow = 0         # depth of enclosing `raiseError: false` pype steps

    def failure(self, clause, msg, fp=None):
        self.fails.append(fail(clause, msg, fp or clause))

    # -- the statement's candidate list for one request
    def child_loader(self, call, caller):
        if 'loader' in call:
            return call['loader'] or FILE_LOADER
        if caller is None:
            return FILE_LOADER
        return caller['loader'] if caller['lcasc'] else FILE_LOADER

    def candidates(self, call, caller):
        """-> (candidate files in the documented order, parent dir or None, why, parent text)"""
        name = sub(call['name'], CT)
        fname = name + '.yaml'
        parent, why, ptext = None, 'root', None
        if caller is not None:
            if 'parent' in call:
                why = 'explicit-parent'
                p = sub(call['parent'], CT)
                if truthy(p):
                    parent, ptext = resolve(self.cwd, p), p
            else:
                told = 'resolve' in call
                rfp = bool(call['resolve']) if told else caller['pcasc']
                if not rfp:
                    why = 'resolveFromParent-false' if told else 'parent-not-cascading'
                elif self.child_loader(call, caller) != caller['loader']:
                    why = 'different-loader'
                else:
                    why = 'parent-default' if not told else 'resolveFromParent-true'
                    if truthy(caller['parent']):
                        ptext = caller['parent']
                        parent = resolve(self.cwd, ptext)
        if fname.startswith('/'):
            return [fname], None, 'absolute', ptext
        order = ([parent] if parent else []) + [self.cwd, self.subd, self.blt]
        return [d + '/' + fname for d in order], parent, why, ptext

    def next_f(self):
        while self.pos < len(self.trace) and self.trace[self.pos][0] != 'f':
            self.pos += 1
        if self.pos < len(self.trace):
            e = self.trace[self.pos]
            self.pos += 1
            return e
        return None

    def visit(self, call, caller):
        """caller: None for the root, else what the probe of the calling pipeline recorded:
        {file, loader, parent (text or None), lcasc, pcasc}."""
        if self.stopped or self.ended:
            return
        if 'loader' in call and not call['loader'] and caller is not None:
            # `loader: null` / '' : the statement does not say whether that is "a different
            # loader"; no verdict from here on
            self.stopped = True
            return
        cands, parent, why, pstr = self.candidates(call, caller)
        existing = [c for c in cands if c in self.files]
        expect = existing[0] if existing else None
        # loader that will load the child
        child_loader = self.child_loader(call, caller)
        name = sub(call['name'], CT)
        key = (child_loader, f'{pstr}+{name}' if pstr else name)
        collided = key in self.requests and self.requests[key] != (name, pstr)
        self.requests.setdefault(key, (name, pstr))

        err = self.err
        sw = self.swallow > 0     # inside a `raiseError: false` pype: errors are not observable
        if expect is not None and self.files[expect].get('silent'):
            # a real built-in pipeline (no probe inside): it must simply not be "not found"
            if err is not None and err[0] == PNF and (name + '.yaml') in err[1]:
                self.ended = True
                self.failure('first-existing', f'request {name!r}: {expect} exists but {err!r}',
                             'existing-not-found')
            return
        where = f'request {name!r} from {caller["file"] if caller else "root"} ({why})'
        if expect is None and sw:
            self.ended = True        # swallowed not-found: nothing to observe, the caller goes on
            return
        ev = self.next_f()
        if expect is None:
            # nothing exists: must be a not-found error naming the places searched
            if ev is not None:
                self.failure('not-found-error',
                             f'{where}: no candidate exists but {ev[1]} ran',
                             'cache-key-collision' if collided else
                             ('absolute-only' if why == 'absolute' else 'ran-without-candidate'))
                self.stopped = True
                return
            self.ended = True
            if err is None or err[0] != PNF:
                self.failure('not-found-error', f'{where}: expected {PNF}, got {err!r}',
                             'not-found-error-type')
                return
            msg = err[1]
            if why == 'absolute':
                if cands[0] not in msg:
                    self.failure('not-found-lists-locations',
                                 f'{where}: message does not name {cands[0]}: {msg!r}',
                                 'absolute-message')
                # "and nowhere else": the only place searched is the path itself
                other = [d for d in (self.cwd, self.subd, self.blt) if d in msg.split('\n')]
                if other:
                    self.failure('not-found-lists-locations',
                                 f'{where}: an absolute name is looked up only at itself, yet the '
                                 f'error lists {other}: {msg!r}', 'absolute-message-lists-other-places')
                return
            lines = msg.split('\n')
            must = []
            if parent and parent in self.dirs and parent != self.cwd:
                must.append(parent)
            must += [self.cwd, self.subd, self.blt]
            if (name + '.yaml') not in lines[0]:
                self.failure('not-found-lists-locations',
                             f'{where}: message does not name the file: {msg!r}', 'message-file')
            missing = [d for d in must if d not in lines[1:]]
            for d in missing:
                self.failure('not-found-lists-locations',
                             f'{where}: searched location {d} is not listed in {msg!r}',
                             'message-missing-location')
            if not missing:
                it = iter(lines[1:])
                if not all(any(d == x for x in it) for d in must):     # subsequence test
                    self.failure('not-found-lists-locations',
                                 f'{where}: locations listed out of order: {msg!r}',
                                 'message-order')
            return
        # a candidate exists: it must be the one that runs
        if ev is None:
            self.ended = True
            self.failure('first-existing',
                         f'{where}: {expect} exists but nothing ran; error={err!r}',
                         'cache-key-collision' if collided else
                         ('absolute-only' if why == 'absolute' else 'existing-not-found'))
            return
        ran = ev[1]
        if ran != expect:
            if collided:
                fp = 'cache-key-collision'
            elif why == 'absolute':
                fp = 'absolute-only'
            elif ran not in cands:
                if caller is not None and truthy(caller['parent']) \
                        and os.path.dirname(ran) == resolve(self.cwd, caller['parent']) \
                        and why in ('resolveFromParent-false', 'explicit-parent', 'different-loader',
                                    'parent-not-cascading'):
                    fp = 'opt-out-ignored:' + why
                else:
                    fp = 'outside-candidates'
            elif why in ('parent-default', 'resolveFromParent-true') and parent \
                    and expect.startswith(parent + '/') and not ran.startswith(parent + '/'):
                fp = 'parent-first' if why == 'parent-default' else 'resolveFromParent-true-ignored'
            else:
                fp = 'not-first-existing'
            self.failure('first-existing' if fp not in ('parent-first', 'resolveFromParent-true-ignored') and not fp.startswith('opt-out')
                         else 'child-resolution',
                         f'{where}: expected {expect} (first existing of {cands}) but {ran} ran', fp)
            self.stopped = True
            return
        f = self.files[expect]
        if ev[3] != child_loader:
            # loader recorded by the pipeline differs from the statement-level expectation
            self.failure('child-resolution', f'{where}: loaded by {ev[3]}, expected {child_loader}',
                         'loader-cascade')
        info = {'file': expect, 'loader': ev[3], 'parent': ev[5] if ev[4] in ('P', 'S') and ev[5] else None,
                'lcasc': ev[6] == 'true', 'pcasc': ev[7] == 'true'}
        if child_loader == FILE_LOADER:
            if (ev[4], ev[5]) != ('P', os.path.dirname(expect)) or not (info['lcasc'] and info['pcasc']):
                self.failure('child-resolution',
                             f'{expect}: the file loader must record the pipeline\'s own directory as a '
                             f'cascading parent, got {ev[4:8]}', 'file-info-parent')
            if ev[8] != expect:
                self.failure('first-existing',
                             f'{where}: marker says {expect} but info.path is {ev[8]}', 'info-path')
            d = os.path.dirname(expect)
            pre = [sub(x, CT) for x in self.case.get('pre_syspath', [])]
            if self.obs['syspath'].count(d) != (0 if d in pre else 1):
                self.failure('sys-path', f'{d} appears {self.obs["syspath"].count(d)} times in '
                             f'sys.path additions {self.obs["syspath"]} (already there before: {d in pre})',
                             'sys-path')
            if f.get('mod'):
                sibling = d + '/' + f['mod'] + '.py'
                if sibling in self.mods:
                    nxt = self.trace[self.pos] if self.pos < len(self.trace) else None
                    if nxt is None or nxt[0] != 'm':
                        self.ended = True
                        self.failure('module-importable',
                                     f'{expect}: custom step {f["mod"]} next to the pipeline did not '
                                     f'run; error={err!r}', 'module-importable')
                        return
                    same_name = [m for m in self.mods if m.endswith('/' + f['mod'] + '.py')]
                    if len(same_name) == 1 and nxt[1] != sibling:
                        self.failure('module-importable',
                                     f'{expect}: imported {nxt[1]} instead of {sibling}',
                                     'module-wrong-file')
        else:
            if f.get('mod') and (sw or (err is not None and err[0] == PMNF)):
                # not promised for pipelines loaded by a custom loader
                nxt = self.trace[self.pos] if self.pos < len(self.trace) else None
                if nxt is None or nxt[0] != 'm':
                    self.ended = True
                    return
        if f.get('mod') and child_loader == FILE_LOADER:
            d = os.path.dirname(expect)
            if (d + '/' + f['mod'] + '.py') not in self.mods:
                # module is not next to the pipeline: importability not promised
                nxt = self.trace[self.pos] if self.pos < len(self.trace) else None
                if (nxt is None or nxt[0] != 'm') and (sw or (err is not None and err[0] == PMNF)):
                    self.ended = True
                    return
        for c in f.get('calls', []):
            swallow = 'raise' in c and not c['raise']
            self.swallow += swallow
            self.visit(c, info)
            self.swallow -= swallow
            if swallow and self.ended and not self.stopped:
                self.ended = False       # raiseError: false - the error stays inside that child
            if self.stopped or self.ended:
                return

    def run(self):
        inv = self.case['invoke']
        env = self.obs['env']
        want = [self.cwd, self.subd, CREPO + '/pypyr/pipelines', FILE_LOADER]
        if env != want:
            self.failure('search-roots', f'search roots {env} differ from {want}', 'search-roots')
        if not self.obs.get('syspath_prefix_kept', True):
            self.failure('sys-path', 'pre-existing sys.path entries were changed', 'sys-path-prefix')
        # consecutive root runs of one process: the trace is cut at the run markers
        runs, cur = [], []
        for e in self.obs['trace']:
            if e[0] in ('run-ok', 'run-err'):
                runs.append((cur, None if e[0] == 'run-ok' else e[1:3]))
                cur = []
            else:
                cur.append(e)
        runs.append((cur, self.obs['err']))
        invs = [inv] + list(self.case.get('more_invokes', []))
        if len(runs) != len(invs):
            self.failure('first-existing', f'{len(invs)} root runs requested, {len(runs)} observed', 'run-count')
            return self.fails
        for inv, (trace, err) in zip(invs, runs):
            self.trace, self.err, self.pos, self.ended = trace, err, 0, False
            if self.stopped:
                break
            call = {'name': inv['name']}
            if inv.get('loader'):
                call['loader'] = inv['loader']
            self.visit(call, None)
            if not self.stopped and not self.ended:
                if self.next_f() is not None:
                    self.failure('first-existing', 'more pipelines ran than the layout calls for',
                                 'extra-pipeline')
                elif err is not None:
                    self.failure('not-found-error',
                                 f'every requested pipeline exists but the run failed: {err!r}',
                                 'unexpected-error')
        return self.fails


def monitor(case, obs):
    return Walk(case, obs).run()
