"""Per-case state shared by the C12 harness step modules (c12_probe, c12_turn)."""
import threading
from collections.abc import Mapping, Set

import c12_lang

TRACES = {}          # thread ident -> list of probe records
PRISTINE = {}        # 'main'/'other'/<name> -> canonical pristine definition, 'vars', 'shortcuts'
ALT_DIR = [None]     # where c12_wraploader looks first for `child`
GETDEFS = [None]     # callable -> {name: live object}
TURN = {'cond': threading.Condition(), 'schedule': [], 'pos': 0, 'active': False, 'dead': set()}


def to_tree(o, path=()):
    """context / definition value -> tree JSON of c12_lang (value only; a cycle -> {'obj': 'cycle'})."""
    if isinstance(o, bool):
        return c12_lang.TRUE_CODE if o else c12_lang.FALSE_CODE
    if isinstance(o, int):
        return o
    if isinstance(o, str):
        return c12_lang.enc(o)
    if id(o) in path:
        return {'obj': 'cycle'}
    if isinstance(o, list):
        return {'l': [to_tree(x, path + (id(o),)) for x in o]}
    if isinstance(o, Mapping):
        return {'d': [[k if isinstance(k, str) else repr(k), to_tree(v, path + (id(o),))] for k, v in o.items()]}
    if isinstance(o, Set):
        return {'s': sorted(to_tree(x) for x in o if isinstance(x, int))}
    return {'obj': type(o).__name__}


def canon(o, path=()):
    """definition object -> canonical JSON: value AND structure (types of every node)."""
    from pypyr.dsl import SpecialTagDirective
    if id(o) in path:
        return ['cycle', len(path) - path.index(id(o))]
    sub = path + (id(o),)
    if o is None or isinstance(o, (bool, int, float)):
        return [type(o).__name__, o]
    if isinstance(o, str):
        return ['str', str(o)]
    if isinstance(o, SpecialTagDirective):
        return [type(o).__name__, o.value]
    if isinstance(o, Mapping):
        return ['map', [[canon(k), canon(v, sub)] for k, v in o.items()]]
    if isinstance(o, (list, tuple)):
        return ['seq' if isinstance(o, list) else 'tuple', [canon(x, sub) for x in o]]
    if isinstance(o, Set):
        return ['set', sorted((canon(x) for x in o), key=repr)]
    return ['obj', type(o).__name__]


def diff_paths(a, b, path=()):
    """paths at which canonical values a (pristine) and b (now) differ."""
    if a == b:
        return []
    if a[0] == b[0] == 'map':
        ka = [repr(k) for k, _ in a[1]]
        kb = [repr(k) for k, _ in b[1]]
        if ka == kb:
            out = []
            for (k, x), (_, y) in zip(a[1], b[1]):
                out += diff_paths(x, y, path + (k[1],))
            return out
    if a[0] == b[0] == 'seq' and len(a[1]) == len(b[1]):
        out = []
        for n, (x, y) in enumerate(zip(a[1], b[1])):
            out += diff_paths(x, y, path + (n,))
        return out
    return [list(path)]


def changed():
    """{name: [paths]} for every shared definition that is no longer deep-equal to its pristine value."""
    out = {}
    live = GETDEFS[0]()
    for name, obj in live.items():
        d = diff_paths(PRISTINE[name], canon(obj))
        if d:
            out[name] = d
    return out


def sigs():
    """{name: short hash of the canonical live definition}."""
    import hashlib
    import json
    return {name: hashlib.sha1(json.dumps(canon(obj), sort_keys=True, default=str).encode()).hexdigest()[:10]
            for name, obj in GETDEFS[0]().items()}


def run_errors_tree(v):
    """runErrors by value: the entries saved for the harness fail step (the only steps that carry
    onError / swallow), each reduced to its customError - the other fields are immutable scalars
    and the exception object.  The entry of a run-ending error of any other step (customError
    always a fresh {}) is not part of the observation; None = nothing to show."""
    if isinstance(v, list) and all(isinstance(e, Mapping) and 'customError' in e and 'exception' in e for e in v):
        kept = [e for e in v if e.get('step') == 'vfail']
        if not kept:
            return None
        return {'l': [{'d': [['customError', to_tree(e['customError'])]]} for e in kept]}
    return to_tree(v)


def snapshot(context):
    out = []
    for k, v in context.items():
        if k in c12_lang.RESERVED:
            continue
        t = run_errors_tree(v) if k == 'runErrors' else to_tree(v)
        if t is not None:
            out.append([k, t])
    return out


def record(context):
    TRACES.setdefault(threading.get_ident(), []).append(
        {'ctx': snapshot(context), 'sig': sigs()})
