(** Model/PyScope.v — name resolution of inline Python in pypyr (C14).

    What is modelled, and where it comes from:

      pypyr/context.py   Context.get_eval_string    -> [run_eval]     (eval(src, ns) with, PER CALL, ns =
                                                        _ChainMapPretendDict({}, context, imports): a fresh
                                                        throw-away first map and a fresh dict part holding
                                                        __builtins__; globals = locals = ns; neither the
                                                        scratch map nor the dict part survives the call)
                         pystring_globals_update    -> [pyimport_ns]  (imports kept beside the context)
      pypyr/steps/py.py  run_step                   -> [exec_globals], [run_exec]
                                                       (exec(src, g) with g = context.copy() + __builtins__ + save)
                         get_save / save            -> [do_save]
      CPython 3.12       compile-time scope classification and the name opcodes
                         LOAD_NAME / STORE_NAME     -> [load_name] / [store_name]   (locals-mapping protocol)
                         LOAD_GLOBAL / STORE_GLOBAL -> [load_global] / [store_global]
                                                       (loads: dict-subclass __getitem__; stores: raw dict storage)
                         LOAD_FAST/DEREF, STORE_FAST-> [find_local] / [set_local]
                         PEP 709 inlined comprehensions, PEP 572 assignment expressions.

    The Python fragment is a small AST ([expr], [stmt]); the harness renders it to source.
    [Unsup] = outside the modelled fragment or out of fuel. *)
From PV Require Export PyVal.
Open Scope string_scope.

(** * Syntax *)
Inductive binop := BAdd | BEq | BLt.

Inductive expr : Type :=
| XNone
| XBool (b : bool)
| XInt (z : Z)
| XStr (s : string)
| XName (x : string)
| XBin (op : binop) (a b : expr)
| XList (es : list expr)
| XLam (params : list string) (body : expr) (args : list expr)  (* (lambda ps: body)(args) *)
| XComp (elt : expr) (clauses : list (string * expr))           (* [elt for x1 in e1 for x2 in e2 ..] *)
| XWalrus (x : string) (e : expr)                               (* (x := e) *)
| XCall (f : expr) (args : list expr)
| XAttr (e : expr) (a : string)
| XAppend (l x : expr).                                         (* l.append(x) *)

Inductive stmt : Type :=
| SAssign (x : string) (e : expr)
| SAug (x : string) (e : expr)                                  (* x += e *)
| SImport (m : string)                                          (* import a.b.c — binds the top-level name a *)
| SImportAs (m a : string)                                      (* import a.b.c as a — binds a to module a.b.c *)
| SFrom (m n a : string)                                        (* from a.b import n as a (n: attribute or submodule) *)
| SFromN (m : string) (names : list (string * string))          (* from a.b import n1 as a1, n2 as a2, .. *)
| SDef (f : string) (params : list string) (body : expr)        (* def f(ps): return body *)
| SClass (c : string) (attrs : list (string * expr))            (* class c: a1 = e1; ... *)
| SSave (names : list string) (kws : list (string * expr))      (* save('n1', .., k1=e1, ..) *)
| SExpr (e : expr)
| SDel (x : string).

(** * Values, objects, namespaces *)
Inductive value : Type :=
| PNone
| PBool (b : bool)
| PInt (z : Z)
| PStr (s : string)
| PNative (name : string)   (* builtin function / type; "<save>" = the save closure; "<builtins>" = the builtins dict *)
| PModule (name : string)
| PRef (id : nat).          (* reference to a heap object: identity matters *)

Definition ns := list (string * value).

Inductive obj : Type :=
| OList (items : list value)
| OFunc (name : string) (params : list string) (body : expr)
| OClass (name : string) (attrs : ns).

Fixpoint ns_get (k : string) (d : ns) : option value :=
  match d with
  | [] => None
  | (k', v) :: r => if String.eqb k k' then Some v else ns_get k r
  end.

(** Python [d[k] = v]: update in place when present, append otherwise. *)
Fixpoint ns_set (k : string) (v : value) (d : ns) : ns :=
  match d with
  | [] => [(k, v)]
  | (k', v') :: r => if String.eqb k k' then (k', v) :: r else (k', v') :: ns_set k v r
  end.

Fixpoint ns_del (k : string) (d : ns) : ns :=
  match d with
  | [] => []
  | (k', v') :: r => if String.eqb k k' then r else (k', v') :: ns_del k r
  end.

(** Python [d.update(e)]. *)
Definition ns_update (d e : ns) : ns := fold_left (fun acc kv => ns_set (fst kv) (snd kv) acc) e d.

Definition ns_keys (d : ns) : list string := map fst d.

Fixpoint mem (x : string) (l : list string) : bool :=
  match l with [] => false | y :: r => String.eqb x y || mem x r end.

(** * Frames: fast locals / cells of function and comprehension scopes.
    [None] = declared (by the compiler's classification) but not yet bound. *)
Record frame := mk_frame { fk : bool (* true: function scope; false: inlined comprehension *);
                           fvars : list (string * option value) }.

Fixpoint fv_get (x : string) (l : list (string * option value)) : option (option value) :=
  match l with
  | [] => None
  | (y, v) :: r => if String.eqb x y then Some v else fv_get x r
  end.

Fixpoint fv_set (x : string) (v : value) (l : list (string * option value)) : list (string * option value) :=
  match l with
  | [] => []
  | (y, w) :: r => if String.eqb x y then (y, Some v) :: r else (y, w) :: fv_set x v r
  end.

Inductive lres := LFound (v : value) | LUnboundLocal | LUnboundFree | LNotLocal.

(** lexical lookup through the enclosing function/comprehension scopes, innermost first;
    [crossed] = a function boundary lies between the reference and the frame *)
Fixpoint find_local (x : string) (fs : list frame) (crossed : bool) : lres :=
  match fs with
  | [] => LNotLocal
  | f :: r =>
      match fv_get x (fvars f) with
      | Some (Some v) => LFound v
      | Some None => if crossed then LUnboundFree else LUnboundLocal
      | None => find_local x r (crossed || fk f)
      end
  end.

(** a binding made by [:=] or by a [for] target goes to the nearest frame declaring the name,
    not looking past the innermost function scope *)
Fixpoint set_local (x : string) (v : value) (fs : list frame) : option (list frame) :=
  match fs with
  | [] => None
  | f :: r =>
      match fv_get x (fvars f) with
      | Some _ => Some (mk_frame (fk f) (fv_set x v (fvars f)) :: r)
      | None => if fk f then None
                else match set_local x v r with Some r' => Some (f :: r') | None => None end
      end
  end.

(** * Machine state *)
Record state := mk_state {
  scr : ns;              (* maps[0] of the per-evaluation namespace object: a throw-away dict *)
  ctx : ns;              (* the pypyr context = maps[1] of the eval namespace *)
  imps : ns;             (* Context._pystring_globals = maps[2]: names imported through pyimport *)
  nsd : ns;              (* raw dict storage of the per-evaluation namespace object, besides __builtins__ *)
  g : ns;                (* the exec globals: an exact dict, shallow copy of the context *)
  cns : ns;              (* namespace of the class body being executed *)
  frames : list frame;
  heap : list obj;       (* object identity = index *)
  saves : list ns;       (* ghost: the dicts save(...) handed to context.update, oldest first *)
  loaded : list string   (* sys.modules, as far as the module table goes: a submodule is an attribute
                            of its package only once it has been imported *)
}.

Definition set_scr (c : ns) (s : state) := mk_state c (ctx s) (imps s) (nsd s) (g s) (cns s) (frames s) (heap s) (saves s) (loaded s).
Definition set_ctx (c : ns) (s : state) := mk_state (scr s) c (imps s) (nsd s) (g s) (cns s) (frames s) (heap s) (saves s) (loaded s).
Definition set_nsd (c : ns) (s : state) := mk_state (scr s) (ctx s) (imps s) c (g s) (cns s) (frames s) (heap s) (saves s) (loaded s).
Definition set_g (c : ns) (s : state) := mk_state (scr s) (ctx s) (imps s) (nsd s) c (cns s) (frames s) (heap s) (saves s) (loaded s).
Definition set_cns (c : ns) (s : state) := mk_state (scr s) (ctx s) (imps s) (nsd s) (g s) c (frames s) (heap s) (saves s) (loaded s).
Definition set_frames (f : list frame) (s : state) := mk_state (scr s) (ctx s) (imps s) (nsd s) (g s) (cns s) f (heap s) (saves s) (loaded s).
Definition set_heap (h : list obj) (s : state) := mk_state (scr s) (ctx s) (imps s) (nsd s) (g s) (cns s) (frames s) h (saves s) (loaded s).
Definition set_ctx_saves (c : ns) (l : list ns) (s : state) :=
  mk_state (scr s) c (imps s) (nsd s) (g s) (cns s) (frames s) (heap s) l (loaded s).

Definition set_imps (c : ns) (s : state) := mk_state (scr s) (ctx s) c (nsd s) (g s) (cns s) (frames s) (heap s) (saves s) (loaded s).
Definition set_loaded (l : list string) (s : state) :=
  mk_state (scr s) (ctx s) (imps s) (nsd s) (g s) (cns s) (frames s) (heap s) (saves s) l.

(** * State-and-error monad. An error keeps the state reached so far (effects before a raise persist). *)
Definition M (A : Type) := state -> res A * state.
Definition ret {A} (a : A) : M A := fun s => (Ok a, s).
Definition raise {A} (n m : string) : M A := fun s => (Err n m, s).
Definition unsup {A} : M A := fun s => (Unsup, s).
Definition bindM {A B} (m : M A) (f : A -> M B) : M B :=
  fun s => match m s with
           | (Ok a, s') => f a s'
           | (Err n msg, s') => (Err n msg, s')
           | (Unsup, s') => (Unsup, s')
           end.
Notation "'do' x <~ m ;; k" := (bindM m (fun x => k))
  (at level 200, x name, m at level 100, k at level 200, right associativity).

Definition get_st : M state := fun s => (Ok s, s).
Definition modify (f : state -> state) : M unit := fun s => (Ok tt, f s).

(** * Environment: the static facts the compiler fixes for a piece of code *)
Inductive gkind := GChain | GPlain.
Record env := mk_env {
  gk : gkind;                    (* GChain: eval namespace object; GPlain: exact-dict exec globals *)
  gex : list string;             (* names declared global at module level: [:=] targets inside top-level comprehensions *)
  cls : bool;                    (* the code is a class body: LOAD_NAME consults the class namespace first *)
  infn : bool;                   (* the code is (inside) a function body: free names are LOAD_GLOBAL *)
  mods : list (string * ns);     (* abstract module table: importable modules and their attributes *)
  bi : ns                        (* the builtins namespace *)
}.
Definition in_function (E : env) := mk_env (gk E) (gex E) false true (mods E) (bi E).
Definition in_class (E : env) := mk_env (gk E) (gex E) true (infn E) (mods E) (bi E).

Definition name_error (x : string) : string := "name '" ++ x ++ "' is not defined".
Definition unbound_local (x : string) : string :=
  "cannot access local variable '" ++ x ++ "' where it is not associated with a value".
Definition unbound_free (x : string) : string :=
  "cannot access free variable '" ++ x ++ "' where it is not associated with a value in enclosing scope".

(** ChainMap.__getitem__ over maps = [scratch; context; imports] *)
Definition chain_get (x : string) (s : state) : option value :=
  match ns_get x (scr s) with
  | Some v => Some v
  | None => match ns_get x (ctx s) with Some v => Some v | None => ns_get x (imps s) end
  end.

Definition from_builtins {A} (E : env) (x : string) (s : A) : res value * A :=
  match ns_get x (bi E) with
  | Some v => (Ok v, s)
  | None => (Err "NameError" (name_error x), s)
  end.

(** LOAD_GLOBAL: globals.__getitem__ (PyObject_GetItem on a dict subclass), then builtins.
    The raw dict storage of the namespace object is NOT consulted. *)
Definition load_global (E : env) (x : string) : M value := fun s =>
  match (match gk E with GChain => chain_get x s | GPlain => ns_get x (g s) end) with
  | Some v => (Ok v, s)
  | None => from_builtins E x s
  end.

(** LOAD_NAME: locals mapping (class namespace / the namespace object's __getitem__), then the
    raw dict storage of globals, then builtins. *)
Definition load_name (E : env) (x : string) : M value := fun s =>
  match (if cls E then ns_get x (cns s) else None) with
  | Some v => (Ok v, s)
  | None =>
      match (match gk E with
             | GChain => match chain_get x s with Some v => Some v | None => ns_get x (nsd s) end
             | GPlain => ns_get x (g s)
             end) with
      | Some v => (Ok v, s)
      | None => from_builtins E x s
      end
  end.

(** STORE_NAME: locals.__setitem__; for the eval namespace that is ChainMap.__setitem__,
    i.e. maps[0][x] = v — the per-evaluation scratch map (the context is maps[1]). *)
Definition store_name (E : env) (x : string) (v : value) : M unit :=
  if cls E then modify (fun s => set_cns (ns_set x v (cns s)) s)
  else match gk E with
       | GChain => modify (fun s => set_scr (ns_set x v (scr s)) s)
       | GPlain => modify (fun s => set_g (ns_set x v (g s)) s)
       end.

(** STORE_GLOBAL: PyDict_SetItem on globals — the raw dict storage. *)
Definition store_global (E : env) (x : string) (v : value) : M unit :=
  match gk E with
  | GChain => modify (fun s => set_nsd (ns_set x v (nsd s)) s)
  | GPlain => modify (fun s => set_g (ns_set x v (g s)) s)
  end.

Definition load_var (E : env) (x : string) : M value := fun s =>
  match find_local x (frames s) false with
  | LFound v => (Ok v, s)
  | LUnboundLocal => (Err "UnboundLocalError" (unbound_local x), s)
  | LUnboundFree => (Err "NameError" (unbound_free x), s)
  | LNotLocal => if infn E || mem x (gex E) then load_global E x s else load_name E x s
  end.

Definition store_var (E : env) (x : string) (v : value) : M unit := fun s =>
  match set_local x v (frames s) with
  | Some fs => (Ok tt, set_frames fs s)
  | None => if infn E || mem x (gex E) then store_global E x v s else store_name E x v s
  end.

(** * Heap primitives *)
Definition alloc (o : obj) : M nat := fun s => (Ok (length (heap s)), set_heap (heap s ++ [o]) s).

Fixpoint list_upd {A} (l : list A) (i : nat) (x : A) : list A :=
  match l, i with
  | [], _ => []
  | _ :: r, O => x :: r
  | y :: r, S j => y :: list_upd r j x
  end.

Definition heap_extend (r : nat) (vs : list value) : M unit := fun s =>
  match nth_error (heap s) r with
  | Some (OList items) => (Ok tt, set_heap (list_upd (heap s) r (OList (items ++ vs))) s)
  | _ => (Unsup, s)
  end.

Definition list_items (r : nat) (s : state) : option (list value) :=
  match nth_error (heap s) r with Some (OList items) => Some items | _ => None end.

(** * Operators *)
Definition as_int (v : value) : option Z :=
  match v with
  | PInt z => Some z
  | PBool b => Some (if b then 1 else 0)%Z
  | _ => None
  end.

Fixpoint veq (n : nat) (h : list obj) (a b : value) : option bool :=
  match n with
  | O => None
  | S n' =>
      match a, b with
      | PRef i, PRef j =>
          if Nat.eqb i j then Some true
          else match nth_error h i, nth_error h j with
               | Some (OList xs), Some (OList ys) =>
                   (fix go (xs ys : list value) : option bool :=
                      match xs, ys with
                      | [], [] => Some true
                      | x :: xr, y :: yr =>
                          match veq n' h x y with Some true => go xr yr | r => r end
                      | _, _ => Some false
                      end) xs ys
               | Some _, Some _ => Some false
               | _, _ => None
               end
      | PNone, PNone => Some true
      | PStr s, PStr t => Some (String.eqb s t)
      | PNative s, PNative t => Some (String.eqb s t)
      | PModule s, PModule t => Some (String.eqb s t)
      | _, _ =>
          match as_int a, as_int b with
          | Some x, Some y => Some (Z.eqb x y)
          | _, _ => Some false
          end
      end
  end.

Definition str_ltb (s t : string) : bool :=
  match String.compare s t with Lt => true | _ => false end.

Definition EQ_FUEL : nat := 40.

Definition bin_add (a b : value) : M value :=
  match a, b with
  | PStr s, PStr t => ret (PStr (s ++ t))
  | PRef i, PRef j => fun s =>
      match list_items i s, list_items j s with
      | Some xs, Some ys => (do r <~ alloc (OList (xs ++ ys)) ;; ret (PRef r)) s
      | _, _ => (Err "TypeError" "", s)
      end
  | _, _ =>
      match as_int a, as_int b with
      | Some x, Some y => ret (PInt (x + y))
      | _, _ => raise "TypeError" ""
      end
  end.

Definition do_binop (op : binop) (a b : value) : M value :=
  match op with
  | BAdd => bin_add a b
  | BEq => fun s => match veq EQ_FUEL (heap s) a b with
                    | Some r => (Ok (PBool r), s)
                    | None => (Unsup, s)
                    end
  | BLt =>
      match a, b with
      | PStr s, PStr t => ret (PBool (str_ltb s t))
      | PRef i, PRef j => fun s =>
          match list_items i s, list_items j s with
          | Some _, Some _ => (Unsup, s)          (* list ordering: outside the fragment *)
          | _, _ => (Err "TypeError" "", s)
          end
      | _, _ =>
          match as_int a, as_int b with
          | Some x, Some y => ret (PBool (x <? y)%Z)
          | _, _ => raise "TypeError" ""
          end
      end
  end.

(** [x += e]: lists are extended in place (list.__iadd__) and the same object is rebound *)
Definition inplace_add (a b : value) : M value :=
  match a, b with
  | PRef i, PRef j => fun s =>
      match list_items i s, list_items j s with
      | Some _, Some ys => (do _ <~ heap_extend i ys ;; ret (PRef i)) s
      | Some _, None => (Err "TypeError" "", s)
      | None, _ => (Err "TypeError" "", s)
      end
  | PRef i, PStr _ => fun s =>
      match list_items i s with Some _ => (Unsup, s) | None => (Err "TypeError" "", s) end
  | _, _ => bin_add a b
  end.

(** * Native callables of the fragment *)
Fixpoint sum_ints (vs : list value) (acc : Z) : option Z :=
  match vs with
  | [] => Some acc
  | v :: r => match as_int v with Some z => sum_ints r (acc + z)%Z | None => None end
  end.

Fixpoint gcd_ints (vs : list value) (acc : Z) : option Z :=
  match vs with
  | [] => Some acc
  | v :: r => match as_int v with Some z => gcd_ints r (Z.gcd acc z) | None => None end
  end.

Definition call_native (name : string) (vs : list value) : M value :=
  if String.eqb name "len" then
    match vs with
    | [PStr s] => ret (PInt (Z.of_nat (String.length s)))
    | [PRef r] => fun s => match list_items r s with
                           | Some items => (Ok (PInt (Z.of_nat (length items))), s)
                           | None => (Err "TypeError" "", s)
                           end
    | _ => raise "TypeError" ""
    end
  else if String.eqb name "abs" then
    match vs with
    | [v] => match as_int v with Some z => ret (PInt (Z.abs z)) | None => raise "TypeError" "" end
    | _ => raise "TypeError" ""
    end
  else if String.eqb name "list" then
    match vs with
    | [] => do r <~ alloc (OList []) ;; ret (PRef r)
    | [PRef i] => fun s => match list_items i s with
                           | Some items => (do r <~ alloc (OList items) ;; ret (PRef r)) s
                           | None => (Err "TypeError" "", s)
                           end
    | [PStr _] => unsup
    | _ => raise "TypeError" ""
    end
  else if String.eqb name "sum" then
    match vs with
    | [PRef i] => fun s => match list_items i s with
                           | Some items => match sum_ints items 0%Z with
                                           | Some z => (Ok (PInt z), s)
                                           | None => (Err "TypeError" "", s)
                                           end
                           | None => (Err "TypeError" "", s)
                           end
    | [PStr s] => if String.eqb s "" then ret (PInt 0) else raise "TypeError" ""
    | [_; _] => unsup
    | _ => raise "TypeError" ""
    end
  else if String.eqb name "math.gcd" then
    match gcd_ints vs 0%Z with Some z => ret (PInt z) | None => raise "TypeError" "" end
  else if String.eqb name "c14_run.peek" then
    (* a live view of the context held by a context value: lambda k: context.get(k) *)
    match vs with
    | [PStr k] => fun s => (Ok (match ns_get k (ctx s) with Some v => v | None => PNone end), s)
    | _ => unsup
    end
  else if String.eqb name "<builtins>" then raise "TypeError" ""
  else unsup.

(** * Compile-time scope classification *)

(** targets of [:=] that bind in the function (or module) scope directly containing [e]:
    comprehensions are looked into (PEP 572), lambda bodies are not *)
Fixpoint wtargets (e : expr) : list string :=
  match e with
  | XWalrus x e1 => x :: wtargets e1
  | XBin _ a b => wtargets a ++ wtargets b
  | XList es => flat_map wtargets es
  | XLam _ _ args => flat_map wtargets args
  | XComp elt cl => wtargets elt ++ flat_map (fun c => match c with (_, it) => wtargets it end) cl
  | XCall f args => wtargets f ++ flat_map wtargets args
  | XAttr e1 _ => wtargets e1
  | XAppend l x => wtargets l ++ wtargets x
  | _ => []
  end.

(** names the symbol table marks global-explicit at module level: [:=] targets inside
    comprehensions that are not inside a lambda *)
Fixpoint gexs (e : expr) : list string :=
  match e with
  | XWalrus _ e1 => gexs e1
  | XBin _ a b => gexs a ++ gexs b
  | XList es => flat_map gexs es
  | XLam _ _ args => flat_map gexs args
  | XComp elt cl => wtargets elt ++ flat_map (fun c => match c with (_, it) => (wtargets it ++ gexs it)%list end) cl
  | XCall f args => gexs f ++ flat_map gexs args
  | XAttr e1 _ => gexs e1
  | XAppend l x => gexs l ++ gexs x
  | _ => []
  end.

(** iteration variables of the comprehensions that sit directly in a function scope, and the names
    read inside nested lambdas that are not themselves inside a comprehension.  CPython 3.12.1
    (PEP 709 inlining) turns such a shared name into an unbound cell of the function — a quirk the
    model does not reproduce: those programs are outside the fragment. *)
Fixpoint ctargets (e : expr) : list string :=
  match e with
  | XBin _ a b => ctargets a ++ ctargets b
  | XList es => flat_map ctargets es
  | XLam _ _ args => flat_map ctargets args
  | XComp elt cl => map fst cl ++ ctargets elt ++ flat_map (fun c => match c with (_, it) => ctargets it end) cl
  | XWalrus _ e1 => ctargets e1
  | XCall f args => ctargets f ++ flat_map ctargets args
  | XAttr e1 _ => ctargets e1
  | XAppend l x => ctargets l ++ ctargets x
  | _ => []
  end.

Fixpoint all_names (e : expr) : list string :=
  match e with
  | XName x => [x]
  | XBin _ a b => all_names a ++ all_names b
  | XList es => flat_map all_names es
  | XLam _ body args => all_names body ++ flat_map all_names args
  | XComp elt cl => all_names elt ++ flat_map (fun c => match c with (_, it) => all_names it end) cl
  | XWalrus _ e1 => all_names e1
  | XCall f args => all_names f ++ flat_map all_names args
  | XAttr e1 _ => all_names e1
  | XAppend l x => all_names l ++ all_names x
  | _ => []
  end.

Fixpoint lnames (e : expr) : list string :=
  match e with
  | XBin _ a b => lnames a ++ lnames b
  | XList es => flat_map lnames es
  | XLam _ body args => all_names body ++ flat_map lnames args
  | XComp _ cl => match cl with (_, it1) :: _ => lnames it1 | [] => [] end
  | XWalrus _ e1 => lnames e1
  | XCall f args => lnames f ++ flat_map lnames args
  | XAttr e1 _ => lnames e1
  | XAppend l x => lnames l ++ lnames x
  | _ => []
  end.

(** names read directly in a function scope (not inside nested lambda bodies) outside the
    comprehension that binds them *)
Fixpoint fnames (bound : list string) (e : expr) : list string :=
  match e with
  | XName x => if mem x bound then [] else [x]
  | XBin _ a b => fnames bound a ++ fnames bound b
  | XList es => flat_map (fnames bound) es
  | XLam _ _ args => flat_map (fnames bound) args
  | XComp elt cl =>
      let inner := (map fst cl ++ bound)%list in
      match cl with
      | [] => []
      | (_, it1) :: rest =>
          fnames bound it1 ++ flat_map (fun c => match c with (_, it) => fnames inner it end) rest
      end ++ fnames inner elt
  | XWalrus _ e1 => fnames bound e1
  | XCall f args => fnames bound f ++ flat_map (fnames bound) args
  | XAttr e1 _ => fnames bound e1
  | XAppend l x => fnames bound l ++ fnames bound x
  | _ => []
  end.

(** PEP 709 quirks of CPython 3.12.1, outside the model: in a function body, the iteration variable
    of an inlined comprehension becomes a local (or cell) of the whole function, so
    (a) a nested lambda outside the comprehension that reads the name finds an unbound cell
        (NameError: cannot access free variable), and
    (b) a read of the name elsewhere in the function body — unless it is a parameter or a [:=]
        target, i.e. a genuine local — no longer reaches the globals (UnboundLocalError). *)
Definition inlining_quirk (ps : list string) (body : expr) : bool :=
  existsb (fun x => mem x (lnames body)
                    || (mem x (fnames [] body) && negb (mem x ps) && negb (mem x (wtargets body))))
          (ctargets body).

Fixpoint nodup_str (l : list string) : bool :=
  match l with [] => true | x :: r => negb (mem x r) && nodup_str r end.

(** programs CPython rejects at compile time (or that touch [__builtins__]) are outside the model:
    [:=] in a comprehension iterable, [:=] rebinding an iteration variable, [:=] in a
    comprehension in a class body, duplicate parameters *)
Fixpoint wf_expr (iters : list string) (in_iter in_cls : bool) (e : expr) : bool :=
  match e with
  | XName x => negb (String.eqb x "__builtins__")
  | XWalrus x e1 => negb in_iter && negb (mem x iters) && negb (String.eqb x "__builtins__")
                    && wf_expr iters in_iter in_cls e1
  | XBin _ a b => wf_expr iters in_iter in_cls a && wf_expr iters in_iter in_cls b
  | XList es => forallb (wf_expr iters in_iter in_cls) es
  | XLam ps body args =>
      nodup_str ps && negb (mem "__builtins__" ps) && negb (inlining_quirk ps body)
      && forallb (wf_expr iters in_iter in_cls) args && wf_expr [] in_iter false body
  | XComp elt cl =>
      let its := (map fst cl ++ iters)%list in
      negb (mem "__builtins__" (map fst cl))
      && negb (in_cls && negb (is_nil (wtargets e)))
      && match cl with
         | [] => false
         | (_, it1) :: rest =>
             wf_expr iters true in_cls it1
             && forallb (fun c => match c with (_, it) => wf_expr its true in_cls it end) rest
         end
      && wf_expr its in_iter in_cls elt
  | XCall f args => wf_expr iters in_iter in_cls f && forallb (wf_expr iters in_iter in_cls) args
  | XAttr e1 _ => wf_expr iters in_iter in_cls e1
  | XAppend l x => wf_expr iters in_iter in_cls l && wf_expr iters in_iter in_cls x
  | _ => true
  end.

(** * Expression evaluation *)
Fixpoint eval_list (ev1 : expr -> M value) (es : list expr) : M (list value) :=
  match es with
  | [] => ret []
  | e :: r => do v <~ ev1 e ;; do vs <~ eval_list ev1 r ;; ret (v :: vs)
  end.

Definition fn_frame (ps : list string) (vs : list value) (body : expr) : frame :=
  mk_frame true (combine ps (map Some vs)
                 ++ map (fun x => (x, None)) (filter (fun x => negb (mem x ps)) (wtargets body))).

(** (lambda ps: body)(vs): a new function scope whose lexical parent is the current one *)
Definition call_lambda (ev : env -> expr -> M value) (E : env) (ps : list string) (body : expr)
           (vs : list value) : M value :=
  if negb (Nat.eqb (length ps) (length vs)) then raise "TypeError" ""
  else
    do _ <~ modify (fun s => set_frames (fn_frame ps vs body :: frames s) s) ;;
    do v <~ ev (in_function E) body ;;
    do _ <~ modify (fun s => set_frames (tl (frames s)) s) ;;
    ret v.

(** f(vs) for a module-level [def]: no enclosing function scopes, whoever the caller is *)
Definition call_def (ev : env -> expr -> M value) (E : env) (ps : list string) (body : expr)
           (vs : list value) : M value :=
  if negb (Nat.eqb (length ps) (length vs)) then raise "TypeError" ""
  else
    do s0 <~ get_st ;;
    do _ <~ modify (set_frames [fn_frame ps vs body]) ;;
    do v <~ ev (in_function E) body ;;
    do _ <~ modify (set_frames (frames s0)) ;;
    ret v.

Definition apply_value (ev : env -> expr -> M value) (E : env) (fv : value) (vs : list value) : M value :=
  match fv with
  | PNative n => call_native n vs
  | PRef r => fun s =>
      match nth_error (heap s) r with
      | Some (OFunc _ ps body) => call_def ev E ps body vs s
      | Some (OList _) => (Err "TypeError" "", s)
      | _ => (Unsup, s)
      end
  | _ => raise "TypeError" ""
  end.

Definition bind_local (x : string) (v : value) : M unit := fun s =>
  match set_local x v (frames s) with
  | Some fs => (Ok tt, set_frames fs s)
  | None => (Unsup, s)
  end.

(** FOR_ITER over a list object: by index against the live object *)
Fixpoint loop_list (n : nat) (r idx : nat) (body : value -> M unit) : M unit :=
  match n with
  | O => unsup
  | S n' => fun s =>
      match list_items r s with
      | Some items =>
          match nth_error items idx with
          | Some v => (do _ <~ body v ;; loop_list n' r (S idx) body) s
          | None => (Ok tt, s)
          end
      | None => (Unsup, s)
      end
  end.

Definition iterate (lb : nat) (v : value) (body : value -> M unit) : M unit :=
  match v with
  | PRef r => fun s =>
      match nth_error (heap s) r with
      | Some (OList _) => loop_list lb r 0 body s
      | Some _ => (Err "TypeError" "", s)
      | None => (Unsup, s)
      end
  | PStr _ => unsup
  | _ => raise "TypeError" ""
  end.

Fixpoint comp_rest (ev1 : expr -> M value) (lb : nat) (cl : list (string * expr)) (emit : M unit) : M unit :=
  match cl with
  | [] => emit
  | (x, it) :: r =>
      do v <~ ev1 it ;;
      iterate lb v (fun item => do _ <~ bind_local x item ;; comp_rest ev1 lb r emit)
  end.

(** [elt for x1 in it1 for x2 in it2 ...]: the first iterable is evaluated in the enclosing scope;
    the targets are locals of the comprehension; in a class body the comprehension is a real
    function scope (free names skip the class namespace) *)
Definition eval_comp (ev : env -> expr -> M value) (lb : nat) (E : env) (elt : expr)
           (cl : list (string * expr)) : M value :=
  match cl with
  | [] => unsup
  | (x1, it1) :: rest =>
      do v1 <~ ev E it1 ;;
      do r <~ alloc (OList []) ;;
      let E' := if cls E then in_function E else E in
      do _ <~ modify (fun s => set_frames (mk_frame (cls E) (map (fun c => (fst c, None)) cl) :: frames s) s) ;;
      do _ <~ iterate lb v1 (fun item =>
             do _ <~ bind_local x1 item ;;
             comp_rest (ev E') lb rest (do v <~ ev E' elt ;; heap_extend r [v])) ;;
      do _ <~ modify (fun s => set_frames (tl (frames s)) s) ;;
      ret (PRef r)
  end.

Fixpoint mod_get (m : string) (t : list (string * ns)) : option ns :=
  match t with
  | [] => None
  | (m', a) :: r => if String.eqb m m' then Some a else mod_get m r
  end.

(** ** Modules and the import system (CPython's, which pypyr's ImportVisitor and a py block both use)

    The module table is keyed by dotted import name.  Importing [a.b.c] imports [a], [a.b],
    [a.b.c] in turn; each newly imported submodule becomes an attribute of its package.  A table
    entry may carry the pseudo attribute ["<self>"]: the module object that import name stands for
    (os.path is posixpath). *)
Fixpoint prefixes_from (acc : string) (parts : list string) : list string :=
  match parts with
  | [] => []
  | p :: r => let cur := if String.eqb acc "" then p else acc ++ "." ++ p in cur :: prefixes_from cur r
  end.

Definition mod_prefixes (m : string) : list string := prefixes_from "" (split_on "."%char m "").

Definition mod_value (mt : list (string * ns)) (m : string) : value :=
  match mod_get m mt with
  | Some attrs => match ns_get "<self>" attrs with Some v => v | None => PModule m end
  | None => PModule m
  end.

(** import the chain; stops at the first name the table does not know (ModuleNotFoundError),
    keeping what was imported before it *)
Fixpoint load_chain (mt : list (string * ns)) (ms : list string) (ld : list string) : bool * list string :=
  match ms with
  | [] => (true, ld)
  | m :: r => match mod_get m mt with
              | Some _ => load_chain mt r (if mem m ld then ld else (ld ++ [m])%list)
              | None => (false, ld)
              end
  end.

(** getattr(module, a): a real attribute, else an imported submodule *)
Definition mod_attr (mt : list (string * ns)) (ld : list string) (m a : string) : option value :=
  match mod_get m mt with
  | None => None
  | Some attrs =>
      if String.eqb a "<self>" then None
      else match ns_get a attrs with
           | Some v => Some v
           | None => let sub := m ++ "." ++ a in
                     match mod_get sub mt with
                     | Some _ => if mem sub ld then Some (mod_value mt sub) else None
                     | None => None
                     end
           end
  end.

Definition mod_key (v : value) (dflt : string) : string := match v with PModule c => c | _ => dflt end.

(** importlib._handle_fromlist: names of the from-list that are not attributes of the package yet
    are tried as sub-modules, before any name is bound *)
Definition preload_fromlist (mt : list (string * ns)) (m key : string) (names : list (string * string))
           (ld : list string) : list string :=
  fold_left (fun l na =>
               match mod_attr mt l key (fst na) with
               | Some _ => l
               | None => let sub := m ++ "." ++ fst na in
                         match mod_get sub mt with
                         | Some _ => if mem sub l then l else (l ++ [sub])%list
                         | None => l
                         end
               end) names ld.

(** every name of the from-list is looked up on the SAME module object, the one named by the statement *)
Fixpoint from_binds (mt : list (string * ns)) (ld : list string) (key : string) (names : list (string * string))
  : option (list (string * value)) :=
  match names with
  | [] => Some []
  | (n, a) :: r => match mod_attr mt ld key n, from_binds mt ld key r with
                   | Some v, Some bs => Some ((a, v) :: bs)
                   | _, _ => None
                   end
  end.

(** one import statement: the (name, object) pairs it binds, in order, or the error; and the new sys.modules *)
Definition import_effect (mt : list (string * ns)) (ld : list string) (st : stmt)
  : res (list (string * value)) * list string :=
  match st with
  | SImport m =>
      match load_chain mt (mod_prefixes m) ld with
      | (true, ld') => match mod_prefixes m with
                       | top :: _ => (Ok [(top, mod_value mt top)], ld')
                       | [] => (Unsup, ld')
                       end
      | (false, ld') => (Err "ModuleNotFoundError" "", ld')
      end
  | SImportAs m a =>
      match load_chain mt (mod_prefixes m) ld with
      | (true, ld') => (Ok [(a, mod_value mt m)], ld')
      | (false, ld') => (Err "ModuleNotFoundError" "", ld')
      end
  | SFrom m n a =>
      match load_chain mt (mod_prefixes m) ld with
      | (true, ld') =>
          match mod_attr mt ld' (mod_key (mod_value mt m) m) n with
          | Some v => (Ok [(a, v)], ld')
          | None =>
              let sub := m ++ "." ++ n in
              match mod_get sub mt with
              | Some _ => (Ok [(a, mod_value mt sub)], if mem sub ld' then ld' else (ld' ++ [sub])%list)
              | None => (Err "ImportError" "", ld')
              end
          end
      | (false, ld') => (Err "ModuleNotFoundError" "", ld')
      end
  | SFromN m names =>
      match load_chain mt (mod_prefixes m) ld with
      | (true, ld1) =>
          let key := mod_key (mod_value mt m) m in
          let ld2 := preload_fromlist mt m key names ld1 in
          match from_binds mt ld2 key names with
          | Some bs => (Ok bs, ld2)
          | None => (Err "ImportError" "", ld2)
          end
      | (false, ld') => (Err "ModuleNotFoundError" "", ld')
      end
  | _ => (Unsup, ld)
  end.

Definition get_attr (E : env) (v : value) (a : string) : M value :=
  match v with
  | PModule m => fun s =>
      match mod_get m (mods E) with
      | Some _ => match mod_attr (mods E) (loaded s) m a with
                  | Some x => (Ok x, s)
                  | None => (Err "AttributeError" "", s)
                  end
      | None => (Unsup, s)
      end
  | PRef r => fun s =>
      match nth_error (heap s) r with
      | Some (OClass _ attrs) => match ns_get a attrs with
                                 | Some x => (Ok x, s)
                                 | None => (Err "AttributeError" "", s)
                                 end
      | Some (OFunc _ _ _) => (Err "AttributeError" "", s)
      | Some (OList _) => if String.eqb a "append" then (Unsup, s) else (Err "AttributeError" "", s)
      | None => (Unsup, s)
      end
  | PNative n => if String.eqb n "list" && String.eqb a "append" then unsup else raise "AttributeError" ""
  | _ => raise "AttributeError" ""
  end.

(** l.append(x): the attribute is loaded before the argument is evaluated *)
Definition check_list (v : value) : M nat :=
  match v with
  | PRef r => fun s =>
      match nth_error (heap s) r with
      | Some (OList _) => (Ok r, s)
      | Some (OFunc _ _ _) => (Err "AttributeError" "", s)
      | _ => (Unsup, s)
      end
  | PNative n => if String.eqb n "list" then unsup else raise "AttributeError" ""
  | _ => raise "AttributeError" ""
  end.

Fixpoint eval (fuel : nat) (E : env) (e : expr) {struct fuel} : M value :=
  match fuel with
  | O => unsup
  | S f =>
      let ev := eval f in
      match e with
      | XNone => ret PNone
      | XBool b => ret (PBool b)
      | XInt z => ret (PInt z)
      | XStr s => ret (PStr s)
      | XName x => load_var E x
      | XBin op a b => do va <~ ev E a ;; do vb <~ ev E b ;; do_binop op va vb
      | XList es => do vs <~ eval_list (ev E) es ;; do r <~ alloc (OList vs) ;; ret (PRef r)
      | XLam ps body args => do vs <~ eval_list (ev E) args ;; call_lambda ev E ps body vs
      | XComp elt cl => eval_comp ev f E elt cl
      | XWalrus x e1 => do v <~ ev E e1 ;; do _ <~ store_var E x v ;; ret v
      | XCall fe args => do fv <~ ev E fe ;; do vs <~ eval_list (ev E) args ;; apply_value ev E fv vs
      | XAttr e1 a => do v <~ ev E e1 ;; get_attr E v a
      | XAppend l x => do lv <~ ev E l ;; do r <~ check_list lv ;; do xv <~ ev E x ;;
                       do _ <~ heap_extend r [xv] ;; ret PNone
      end
  end.

(** * Statements (module level of a pypyr.steps.py block) *)
Definition save_error (x : string) : string :=
  "Trying to save '" ++ x ++ "', but can't find it in the py step scope. Remember it should be save('key'), not save(key) - mind the quotes.".

(** d[arg] = namespace[arg] for each positional argument, in order *)
Fixpoint collect_saved (names : list string) (gl : ns) (d : ns) : string + ns :=
  match names with
  | [] => inr d
  | x :: r => match ns_get x gl with
              | Some v => collect_saved r gl (ns_set x v d)
              | None => inl x
              end
  end.

(** the save closure of pypyr.steps.py: d from the exec namespace, d.update(kwargs), context.update(d) *)
Definition do_save (names : list string) (kvs : ns) : M unit := fun s =>
  match collect_saved names (g s) [] with
  | inl x => (Err "KeyError" (save_error x), s)
  | inr d => let d' := ns_update d kvs in
             (Ok tt, set_ctx_saves (ns_update (ctx s) d') (saves s ++ [d']) s)
  end.

Fixpoint eval_kws (ev1 : expr -> M value) (kws : list (string * expr)) : M ns :=
  match kws with
  | [] => ret []
  | (k, e) :: r => do v <~ ev1 e ;; do vs <~ eval_kws ev1 r ;; ret ((k, v) :: vs)
  end.

Fixpoint class_body (ev1 : expr -> M value) (attrs : list (string * expr)) : M unit :=
  match attrs with
  | [] => ret tt
  | (a, e) :: r => do v <~ ev1 e ;; do _ <~ modify (fun s => set_cns (ns_set a v (cns s)) s) ;; class_body ev1 r
  end.

Fixpoint store_all (E : env) (bs : list (string * value)) : M unit :=
  match bs with
  | [] => ret tt
  | (x, v) :: r => do _ <~ store_var E x v ;; store_all E r
  end.

Definition exec_stmt (fuel : nat) (E : env) (st : stmt) : M unit :=
  match st with
  | SAssign x e => do v <~ eval fuel E e ;; store_var E x v
  | SAug x e => do old <~ load_var E x ;; do v <~ eval fuel E e ;; do r <~ inplace_add old v ;; store_var E x r
  | SImport _ | SImportAs _ _ | SFrom _ _ _ | SFromN _ _ =>
      do bs <~ (fun s => match import_effect (mods E) (loaded s) st with
                         | (Ok xv, ld) => (Ok xv, set_loaded ld s)
                         | (Err n m, ld) => (Err n m, set_loaded ld s)
                         | (Unsup, ld) => (Unsup, s)
                         end) ;;
      store_all E bs
  | SDef f ps body => do r <~ alloc (OFunc f ps body) ;; store_var E f (PRef r)
  | SClass c attrs =>
      do _ <~ modify (set_cns []) ;;
      do _ <~ class_body (eval fuel (in_class E)) attrs ;;
      do s1 <~ get_st ;;
      do r <~ alloc (OClass c (cns s1)) ;;
      store_var E c (PRef r)
  | SSave names kws =>
      do fv <~ load_var E "save" ;;
      do kvs <~ eval_kws (eval fuel E) kws ;;
      match fv with
      | PNative n => if String.eqb n "<save>" then do_save names kvs
                     else if String.eqb n "<builtins>" then raise "TypeError" "" else unsup
      | PRef _ => unsup
      | _ => raise "TypeError" ""
      end
  | SExpr e => do _ <~ eval fuel E e ;; ret tt
  | SDel x => fun s =>
      match gk E with
      | GPlain => match ns_get x (g s) with
                  | Some _ => (Ok tt, set_g (ns_del x (g s)) s)
                  | None => (Err "NameError" (name_error x), s)
                  end
      | GChain => (Unsup, s)
      end
  end.

Fixpoint exec_block (fuel : nat) (E : env) (b : list stmt) : M unit :=
  match b with
  | [] => ret tt
  | st :: r => do _ <~ exec_stmt fuel E st ;; exec_block fuel E r
  end.

(** * pypyr's part: how the namespaces are built *)

(** a Context with imports [i] between evaluations: no scratch map, no dict part *)
Definition eval_state (c i : ns) (h : list obj) : state := mk_state [] c i [] [] [] [] h [] [].
Definition eval_env (mt : list (string * ns)) (b : ns) (e : expr) : env :=
  mk_env GChain (gexs e) false false mt b.

(** pypyr.steps.py: globals = context.copy(); globals['__builtins__'] = ...; globals['save'] = save *)
Definition exec_globals (c : ns) : ns :=
  ns_set "save" (PNative "<save>") (ns_set "__builtins__" (PNative "<builtins>") c).
Definition exec_state (c : ns) (h : list obj) : state := mk_state [] c [] [] (exec_globals c) [] [] h [] [].
Definition exec_env (mt : list (string * ns)) (b : ns) : env := mk_env GPlain [] false false mt b.

Definition FUEL : nat := 80.

(** the namespace object of one evaluation: _ChainMapPretendDict({}, context, imports) *)
Definition fresh_namespace (s : state) : state := set_scr [] (set_nsd [] (set_frames [] s)).

(** Context.get_eval_string(src) on a context in state [s]: the namespace object is built for this
    call and dropped after it *)
Definition run_eval (mt : list (string * ns)) (b : ns) (e : expr) (s : state) : res value * state :=
  if wf_expr [] false false e
  then let '(r, s') := eval FUEL (eval_env mt b e) e (fresh_namespace s) in (r, fresh_namespace s')
  else (Unsup, s).

Definition wf_stmt (st : stmt) : bool :=
  match st with
  | SAssign x e | SAug x e => negb (String.eqb x "__builtins__") && wf_expr [] false false e
  | SImport m => negb (String.eqb m "__builtins__")
  | SImportAs _ a => negb (String.eqb a "__builtins__")
  | SFrom _ _ a => negb (String.eqb a "__builtins__")
  | SFromN _ names => negb (mem "__builtins__" (map snd names)) && negb (is_nil names)
  | SDef f ps body => negb (String.eqb f "__builtins__") && nodup_str ps && negb (mem "__builtins__" ps)
                      && negb (inlining_quirk ps body)
                      && wf_expr [] false false body
  | SClass c attrs => negb (String.eqb c "__builtins__")
                      && forallb (fun ae => match ae with (_, e) => wf_expr [] false true e end) attrs
  | SSave names kws => negb (mem "__builtins__" names) && negb (mem "save" names) && nodup_str (map fst kws)
                       && forallb (fun ke => match ke with (_, e) => wf_expr [] false false e end) kws
  | SExpr e => wf_expr [] false false e
  | SDel x => negb (String.eqb x "__builtins__")
  end.

(** pypyr.steps.py.run_step on a context [c] (which holds the source under 'py') *)
Definition run_exec (mt : list (string * ns)) (b : ns) (blk : list stmt) (c : ns) (h : list obj)
  : res unit * state :=
  if forallb wf_stmt blk
  then exec_block FUEL (exec_env mt b) blk (exec_state c h)
  else (Unsup, exec_state c h).

(** pypyr.steps.pyimport: the import statements are resolved into a dict that is merged into
    Context._pystring_globals — never into the context *)
Fixpoint pyimport_ns (mt : list (string * ns)) (b : list stmt) (acc : ns) (ld : list string)
  : option (ns * list string) :=
  match b with
  | [] => Some (acc, ld)
  | st :: r => match import_effect mt ld st with
               | (Ok bs, ld') => pyimport_ns mt r (ns_update acc bs) ld'
               | _ => None
               end
  end.

(** * Canonical observations (what the harness sees of the real objects):
    values by structure, heap objects numbered — pre-existing ones by their given index, new
    ones from 1000 in first-seen order; an object met again is a back reference. *)
Inductive cval : Type :=
| CNone | CBool (b : bool) | CInt (z : Z) | CStr (s : string)
| CNative (s : string) | CMod (s : string)
| CList (id : nat) (items : list cval)
| CBack (id : nat)
| CFunc (id : nat) (name : string)
| CClass (id : nat) (name : string) (attrs : list (string * cval)).

Record cst := mk_cst { c_map : list (nat * nat); c_done : list nat; c_next : nat }.

Fixpoint nat_assoc (k : nat) (l : list (nat * nat)) : option nat :=
  match l with [] => None | (a, b) :: r => if Nat.eqb k a then Some b else nat_assoc k r end.
Fixpoint nat_mem (k : nat) (l : list nat) : bool :=
  match l with [] => false | a :: r => Nat.eqb k a || nat_mem k r end.

Definition canon_id (n0 : nat) (i : nat) (cs : cst) : nat * cst :=
  if Nat.ltb i n0 then (i, cs)
  else match nat_assoc i (c_map cs) with
       | Some c => (c, cs)
       | None => (c_next cs, mk_cst ((i, c_next cs) :: c_map cs) (c_done cs) (S (c_next cs)))
       end.

Fixpoint canon (fuel : nat) (n0 : nat) (h : list obj) (v : value) (cs : cst) : option (cval * cst) :=
  match fuel with
  | O => None
  | S f =>
      match v with
      | PNone => Some (CNone, cs)
      | PBool b => Some (CBool b, cs)
      | PInt z => Some (CInt z, cs)
      | PStr s => Some (CStr s, cs)
      | PNative s => Some (CNative s, cs)
      | PModule s => Some (CMod s, cs)
      | PRef i =>
          let '(c, cs1) := canon_id n0 i cs in
          match nth_error h i with
          | None => None
          | Some (OFunc name _ _) => Some (CFunc c name, cs1)
          | Some o =>
              if nat_mem c (c_done cs1) then Some (CBack c, cs1)
              else
                let cs2 := mk_cst (c_map cs1) (c :: c_done cs1) (c_next cs1) in
                match o with
                | OList items =>
                    match (fix go (l : list value) (cs : cst) : option (list cval * cst) :=
                             match l with
                             | [] => Some ([], cs)
                             | x :: r => match canon f n0 h x cs with
                                         | Some (cx, cs') =>
                                             match go r cs' with
                                             | Some (cr, cs'') => Some (cx :: cr, cs'')
                                             | None => None
                                             end
                                         | None => None
                                         end
                             end) items cs2 with
                    | Some (ci, cs3) => Some (CList c ci, cs3)
                    | None => None
                    end
                | OClass name attrs =>
                    match (fix go (l : ns) (cs : cst) : option (list (string * cval) * cst) :=
                             match l with
                             | [] => Some ([], cs)
                             | (k, x) :: r => match canon f n0 h x cs with
                                              | Some (cx, cs') =>
                                                  match go r cs' with
                                                  | Some (cr, cs'') => Some ((k, cx) :: cr, cs'')
                                                  | None => None
                                                  end
                                              | None => None
                                              end
                             end) attrs cs2 with
                    | Some (ca, cs3) => Some (CClass c name ca, cs3)
                    | None => None
                    end
                | OFunc name _ _ => Some (CFunc c name, cs1)
                end
          end
      end
  end.

Definition CANON_FUEL : nat := 30.

Fixpoint canon_ns (n0 : nat) (h : list obj) (d : ns) (cs : cst) : option (list (string * cval) * cst) :=
  match d with
  | [] => Some ([], cs)
  | (k, v) :: r =>
      match canon CANON_FUEL n0 h v cs with
      | Some (cv, cs') => match canon_ns n0 h r cs' with
                          | Some (cr, cs'') => Some ((k, cv) :: cr, cs'')
                          | None => None
                          end
      | None => None
      end
  end.

Fixpoint canon_results (n0 : nat) (h : list obj) (rs : list (res value)) (cs : cst)
  : option (list (res cval) * cst) :=
  match rs with
  | [] => Some ([], cs)
  | r :: rest =>
      match (match r with
             | Ok v => match canon CANON_FUEL n0 h v cs with
                       | Some (cv, cs') => Some (Ok cv, cs')
                       | None => None
                       end
             | Err n m => Some (Err n m, cs)
             | Unsup => None
             end) with
      | Some (cr, cs') => match canon_results n0 h rest cs' with
                          | Some (crs, cs'') => Some (cr :: crs, cs'')
                          | None => None
                          end
      | None => None
      end
  end.

Record obs := mk_obs { o_res : list (res cval); o_ctx : list (string * cval);
                       o_imps : list (string * cval); o_nsd : list (string * cval) }.

Definition observe (n0 : nat) (rs : list (res value)) (s : state) : option obs :=
  match canon_results n0 (heap s) rs (mk_cst [] [] 1000) with
  | Some (crs, cs1) =>
      match canon_ns n0 (heap s) (ctx s) cs1 with
      | Some (cc, cs2) =>
          match canon_ns n0 (heap s) (imps s) cs2 with
          | Some (ci, cs3) =>
              match canon_ns n0 (heap s) (nsd s) cs3 with
              | Some (cd, _) => Some (mk_obs crs cc ci cd)
              | None => None
              end
          | None => None
          end
      | None => None
      end
  | None => None
  end.

(** equality of observations *)
Fixpoint cval_eqb (a b : cval) : bool :=
  let fix go (l1 l2 : list cval) : bool :=
    match l1, l2 with
    | [], [] => true
    | x :: xs, y :: ys => cval_eqb x y && go xs ys
    | _, _ => false
    end in
  let fix goa (l1 l2 : list (string * cval)) : bool :=
    match l1, l2 with
    | [], [] => true
    | (k1, x) :: xs, (k2, y) :: ys => String.eqb k1 k2 && cval_eqb x y && goa xs ys
    | _, _ => false
    end in
  match a, b with
  | CNone, CNone => true
  | CBool x, CBool y => Bool.eqb x y
  | CInt x, CInt y => Z.eqb x y
  | CStr x, CStr y => String.eqb x y
  | CNative x, CNative y => String.eqb x y
  | CMod x, CMod y => String.eqb x y
  | CList i x, CList j y => Nat.eqb i j && go x y
  | CBack i, CBack j => Nat.eqb i j
  | CFunc i x, CFunc j y => Nat.eqb i j && String.eqb x y
  | CClass i n x, CClass j m y => Nat.eqb i j && String.eqb n m && goa x y
  | _, _ => false
  end.

Definition cns_eqb (a b : list (string * cval)) : bool :=
  list_eqb (fun p q => String.eqb (fst p) (fst q) && cval_eqb (snd p) (snd q)) a b.

Definition obs_eqb (a b : obs) : bool :=
  list_eqb (res_eqb cval_eqb) (o_res a) (o_res b)
  && cns_eqb (o_ctx a) (o_ctx b) && cns_eqb (o_imps a) (o_imps b) && cns_eqb (o_nsd a) (o_nsd b).

(** * Whole cases, as the harness runs them *)

(** several !py expressions evaluated one after the other on the same Context; an error in one
    does not stop the next *)
Fixpoint run_evals (mt : list (string * ns)) (b : ns) (es : list expr) (s : state)
  : option (list (res value) * state) :=
  match es with
  | [] => Some ([], s)
  | e :: r =>
      match run_eval mt b e s with
      | (Unsup, _) => None
      | (x, s') => match run_evals mt b r s' with
                   | Some (xs, s'') => Some (x :: xs, s'')
                   | None => None
                   end
      end
  end.

Definition eval_case_ld (mt : list (string * ns)) (b : ns) (ld0 : list string) (n0 : nat) (h : list obj)
           (c : ns) (imports : list stmt) (es : list expr) : option obs :=
  match pyimport_ns mt imports [] ld0 with
  | None => None
  | Some (i, ld) =>
      match run_evals mt b es (set_loaded ld (eval_state c i h)) with
      | Some (rs, s) => observe n0 rs s
      | None => None
      end
  end.
Definition eval_case mt b := eval_case_ld mt b [].

(** a pipeline fragment on one Context: pyimport steps and !py evaluations in any order.
    pypyr.steps.pyimport: the step's import statements build a namespace dict, which is merged into
    Context._pystring_globals with dict.update — a name imported again is re-bound (last wins). *)
Inductive action :=
| AImport (b : list stmt)       (* a pypyr.steps.pyimport step *)
| AEval (e : expr)              (* a !py string *)
| ADrop (k : string).           (* the context loses key k (contextclear, pop, an in-arg going out of scope) *)

Fixpoint run_session (mt : list (string * ns)) (b : ns) (acts : list action) (s : state)
  : option (list (res value) * state) :=
  match acts with
  | [] => Some ([], s)
  | AImport blk :: r =>
      match pyimport_ns mt blk [] (loaded s) with
      | Some (stepns, ld) => run_session mt b r (set_loaded ld (set_imps (ns_update (imps s) stepns) s))
      | None => None
      end
  | ADrop k :: r => run_session mt b r (set_ctx (ns_del k (ctx s)) s)
  | AEval e :: r =>
      match run_eval mt b e s with
      | (Unsup, _) => None
      | (x, s') => match run_session mt b r s' with
                   | Some (xs, s'') => Some (x :: xs, s'')
                   | None => None
                   end
      end
  end.

Definition session_case_ld (mt : list (string * ns)) (b : ns) (ld0 : list string) (n0 : nat) (h : list obj)
           (c : ns) (acts : list action) : option obs :=
  match run_session mt b acts (set_loaded ld0 (eval_state c [] h)) with
  | Some (rs, s) => observe n0 rs s
  | None => None
  end.

Definition run_exec_ld (mt : list (string * ns)) (b : ns) (ld0 : list string) (blk : list stmt) (c : ns)
           (h : list obj) : res unit * state :=
  if forallb wf_stmt blk
  then exec_block FUEL (exec_env mt b) blk (set_loaded ld0 (exec_state c h))
  else (Unsup, exec_state c h).

Definition exec_case_ld (mt : list (string * ns)) (b : ns) (ld0 : list string) (n0 : nat) (h : list obj)
           (c : ns) (blk : list stmt) : option obs :=
  match run_exec_ld mt b ld0 blk c h with
  | (Unsup, _) => None
  | (Ok _, s) => observe n0 [Ok PNone] s
  | (Err n m, s) => observe n0 [Err n m] s
  end.
Definition exec_case mt b := exec_case_ld mt b [].

Definition check_obs (model : option obs) (seen : obs) : nat :=
  match model with
  | None => 2%nat
  | Some o => if obs_eqb o seen then 0%nat else 1%nat
  end.

(** the builtins and modules of the fragment (what the harness' name pool can reach) *)
Definition std_builtins : ns :=
  [("len", PNative "len"); ("abs", PNative "abs"); ("list", PNative "list");
   ("sum", PNative "sum"); ("id", PNative "id")].
Definition std_mods : list (string * ns) :=
  [("math", [("gcd", PNative "math.gcd")]);
   ("c14_mod", [("K", PInt 7); ("S", PStr "seven")])].
