(** Model/PyScope.v — placeholder, to be written. *)
