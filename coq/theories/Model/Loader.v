(** Model/Loader.v — pipeline look-up order of the default file loader, the parent / loader
    cascade of [pypyr.steps.pype.get_arguments], the per-loader pipeline cache and
    [add_sys_path].  One definition per Python function, same order of effects.

    Anchors (pinned tree):
      pypyr/loaders/file.py    get_pipeline_path, find_pipeline, load_pipeline_from_file
      pypyr/steps/pype.py      get_arguments (loader / resolveFromParent / parent)
      pypyr/pipeline.py        Pipeline.load_and_run_pipeline
      pypyr/cache/loadercache.py  Loader.get_pipeline (the [(parent, name)] cache key)
      pypyr/moduleloader.py    add_sys_path
      pypyr/pipedef.py         PipelineInfo / PipelineFileInfo

    Paths are strings.  [Path.resolve()] is modelled lexically (no symlinks): collapse empty,
    [.] and [..] segments of an absolute path.  [Path.samefile] is string equality of resolved
    paths.  The file system is two predicates: [e_is_file] and [e_exists]. *)
From PV Require Export PyVal.
Open Scope string_scope.

(** * Paths *)
Definition SLASH : ascii := "/"%char.
Definition nl : string := String (ascii_of_nat 10) EmptyString.

Definition is_abs (s : string) : bool := startswith "/" s.

Definition segs (s : string) : list string := split_on SLASH s EmptyString.

Definition dot_seg (x : string) : bool := (x =? "") || (x =? ".").

(** segments of a resolved path; [acc] is reversed *)
Fixpoint norm_segs (l acc : list string) : list string :=
  match l with
  | [] => rev acc
  | x :: r => if dot_seg x then norm_segs r acc
              else if x =? ".." then norm_segs r (tl acc)
              else norm_segs r (x :: acc)
  end.

Definition abs_of_segs (l : list string) : string := "/" ++ join "/" l.

(** [os.path.realpath] of an absolute path in a tree without symlinks *)
Definition norm_abs (s : string) : string := abs_of_segs (norm_segs (segs s) []).

(** [Path.joinpath]: an absolute right operand replaces the left one *)
Definition joinpath (d f : string) : string :=
  if is_abs f then f else if d =? "/" then "/" ++ f else d ++ "/" ++ f.

(** [Path(s).resolve()] in a process whose working directory is [cwd] *)
Definition resolve (cwd s : string) : string :=
  if is_abs s then norm_abs s else norm_abs (joinpath cwd s).

(** [path.parent] / [path.name] of a resolved path *)
Definition dirname (p : string) : string := abs_of_segs (removelast (norm_segs (segs p) [])).
Definition basename (p : string) : string := last (norm_segs (segs p) []) "".

(** names the harness may generate: relative or absolute, no empty / [.] / [..] segment.
    Anything else is outside the modelled fragment (the look-up itself would still run). *)
Definition name_ok (name : string) : bool :=
  let l := segs name in
  let l' := match l with "" :: r => r | _ => l end in
  negb (is_nil l') && forallb (fun x => negb (dot_seg x || (x =? ".."))) l'.

(** * The [parent] argument: Python [None], a [str] (from pype's yaml) or a [Path] (set by
    the file loader).  Truthiness: [None] and [''] are falsy, every [Path] is truthy. *)
Inductive pyparent := PNone | PStr (s : string) | PPath (s : string).

Definition p_truthy (p : pyparent) : bool :=
  match p with PNone => false | PStr s => negb (s =? "") | PPath _ => true end.

(** [str(parent)] / [f'{parent}'] *)
Definition p_str (p : pyparent) : string :=
  match p with PNone => "None" | PStr s => s | PPath s => s end.

(** Python [==] between such objects: a [Path] never equals a [str] *)
Definition pp_eqb (a b : pyparent) : bool :=
  match a, b with
  | PNone, PNone => true
  | PStr x, PStr y => x =? y
  | PPath x, PPath y => x =? y
  | _, _ => false
  end.

(** * Environment: what [pypyr.config] / module globals / the file system supply *)
Record env := {
  e_cwd : string;          (* config.cwd, frozen at import; resolved *)
  e_subdir : string;       (* config.pipelines_subdir when pypyr.loaders.file is imported *)
  e_builtin : string;      (* builtin_pipelines_dir = {pypyr package}/pipelines *)
  e_is_file : string -> bool;
  e_exists : string -> bool
}.

Definition cwd_pipelines (e : env) : string := joinpath (e_cwd e) (e_subdir e).

(** * pypyr.loaders.file.get_pipeline_path *)

(** step 2: the parent directory is a search location iff given (truthy), it exists, and it
    is not the same file as cwd *)
Definition parent_locs (e : env) (parent : pyparent) : list string :=
  if p_truthy parent then
    let p := resolve (e_cwd e) (p_str parent) in
    if e_exists e p then (if p =? e_cwd e then [] else [p]) else []
  else [].

Definition search_locations (e : env) (parent : pyparent) : list string :=
  (parent_locs e parent ++ [e_cwd e; cwd_pipelines e; e_builtin e])%list.

(** find_pipeline: first directory whose [dir/file_name] is a file *)
Fixpoint find_first (is_file : string -> bool) (fname : string) (dirs : list string)
  : option string :=
  match dirs with
  | [] => None
  | d :: r => let p := joinpath d fname in
              if is_file p then Some p else find_first is_file fname r
  end.

Definition PNF : string := "pypyr.errors.PipelineNotFoundError".

Definition not_found_msg (fname : string) (dirs : list string) : string :=
  fname ++ " not found in any of the following:" ++ nl ++ join nl dirs.

Definition abs_missing_msg (fname : string) : string := fname ++ " does not exist.".

Definition get_pipeline_path (e : env) (name : string) (parent : pyparent) : res string :=
  let fname := name ++ ".yaml" in
  if is_abs fname then
    if e_is_file e fname then Ok (resolve (e_cwd e) fname) else Err PNF (abs_missing_msg fname)
  else
    let dirs := search_locations e parent in
    match find_first (e_is_file e) fname dirs with
    | Some p => Ok (resolve (e_cwd e) p)
    | None => Err PNF (not_found_msg fname dirs)
    end.

(** The order the documentation promises: parent (whenever one is given), cwd,
    cwd/pipelines, built-in.  [Proofs/LoaderProofs.v] shows the code's list gives the same
    answer on every well-formed file system. *)
Definition documented_order (e : env) (parent : pyparent) : list string :=
  ((if p_truthy parent then [resolve (e_cwd e) (p_str parent)] else [])
   ++ [e_cwd e; cwd_pipelines e; e_builtin e])%list.

(** * pypyr.moduleloader.add_sys_path *)
Record sysst := {
  known : list pyparent;     (* _known_dirs: the objects themselves (Path or str) *)
  syspath : list string      (* the part of sys.path pypyr appended *)
}.

Definition sys0 : sysst := {| known := []; syspath := [] |}.

Definition add_sys_path (e : env) (st : sysst) (p : pyparent) : sysst :=
  if existsb (pp_eqb p) (known st) then st
  else
    let s := p_str p in
    if negb (e_exists e (resolve (e_cwd e) s)) then
      {| known := p :: known st; syspath := syspath st |}
    else
      {| known := p :: known st;
         syspath := if str_in s (syspath st) then syspath st else (syspath st ++ [s])%list |}.

(** * PipelineInfo and loaders *)
Record pinfo := {
  i_name : string;
  i_loader : string;
  i_parent : pyparent;
  i_lcasc : bool;       (* is_loader_cascading *)
  i_pcasc : bool        (* is_parent_cascading *)
}.

Record pdef := { d_file : string; d_is_file_info : bool; d_info : pinfo }.

Definition FILE_LOADER : string := "pypyr.loaders.file".

(** the loaders the harness knows: the default file loader and three custom loaders
    (harness/c19_loader*.py) that reuse [get_pipeline_path] but return, respectively, a bare
    mapping (pypyr wraps it in a cascading [PipelineInfo] holding the parent AS PASSED), a
    [PipelineInfo] with [is_parent_cascading=False], and one with [is_loader_cascading=False] *)
Inductive lkind := LFile | LBare | LNoParentCasc | LNoLoaderCasc.

Definition loader_kind (l : string) : option lkind :=
  if l =? FILE_LOADER then Some LFile
  else if l =? "c19_loader" then Some LBare
  else if l =? "c19_loader_np" then Some LNoParentCasc
  else if l =? "c19_loader_nl" then Some LNoLoaderCasc
  else None.

(** load_pipeline_from_file (for [LFile]): [add_sys_path(path.parent)], then
    [PipelineFileInfo(pipeline_name=path.name, parent=path.parent, loader=__name__, path)].
    [file_cache] (keyed by the resolved path) is not modelled: the definition is a function
    of the path and [add_sys_path] is idempotent (proved), so a hit changes nothing. *)
Definition file_info (path : string) : pinfo :=
  {| i_name := basename path; i_loader := FILE_LOADER; i_parent := PPath (dirname path);
     i_lcasc := true; i_pcasc := true |}.

Definition load_pipeline (e : env) (st : sysst) (lname : string) (k : lkind)
           (name : string) (parent : pyparent) : res (sysst * pdef) :=
  let* path := get_pipeline_path e name parent in
  match k with
  | LFile =>
      Ok (add_sys_path e st (PPath (dirname path)),
          {| d_file := path; d_is_file_info := true; d_info := file_info path |})
  | LBare =>
      Ok (st, {| d_file := path; d_is_file_info := false;
                 d_info := {| i_name := name; i_loader := lname; i_parent := parent;
                              i_lcasc := true; i_pcasc := true |} |})
  | LNoParentCasc =>
      Ok (st, {| d_file := path; d_is_file_info := false;
                 d_info := {| i_name := name; i_loader := lname; i_parent := parent;
                              i_lcasc := true; i_pcasc := false |} |})
  | LNoLoaderCasc =>
      Ok (st, {| d_file := path; d_is_file_info := false;
                 d_info := {| i_name := name; i_loader := lname; i_parent := parent;
                              i_lcasc := false; i_pcasc := true |} |})
  end.

(** * pypyr.steps.pype.get_arguments: loader / resolveFromParent / parent *)

(** [dict.get(key, default)]: key absent -> default; present with yaml null -> None *)
Inductive optkey (A : Type) := Absent | Null | Given (a : A).
Arguments Absent {A}.
Arguments Null {A}.
Arguments Given {A} a.

Record pype_opts := {
  o_loader : optkey string;     (* pype.loader *)
  o_resolve : option bool;      (* pype.resolveFromParent *)
  o_parent : optkey string;     (* pype.parent *)
  o_pydir : option string       (* pype.pyDir *)
}.

Definition default_opts : pype_opts :=
  {| o_loader := Absent; o_resolve := None; o_parent := Absent; o_pydir := None |}.

(** [loader = pype.get('loader', parent_loader if is_loader_cascading else None)] *)
Definition child_loader (info : pinfo) (o : pype_opts) : option string :=
  match o_loader o with
  | Absent => if i_lcasc info then Some (i_loader info) else None
  | Null => None
  | Given l => Some l
  end.

(** [parent_default = info.parent if is_resolve_from_parent and loader == parent_loader
     else None];  [parent = pype.get('parent', parent_default)] *)
Definition child_parent (info : pinfo) (o : pype_opts) : pyparent :=
  let rfp := match o_resolve o with None => i_pcasc info | Some b => b end in
  let same := match child_loader info o with Some l => l =? i_loader info | None => false end in
  let dflt := if rfp && same then i_parent info else PNone in
  match o_parent o with
  | Absent => dflt
  | Null => PNone
  | Given s => PStr s
  end.

(** * loadercache: [get_pype_loader] and [Loader.get_pipeline] *)

(** [if loader: ... else: loader = config.default_loader] *)
Definition effective_loader (l : option string) : string :=
  match l with Some s => if s =? "" then FILE_LOADER else s | None => FILE_LOADER end.

(** [normalized_name = (f'{parent}' if parent else None, name)] — the (parent, name) pair
    (repaired in /repo commit 0c7650b; before that the joined string [f'{parent}+{name}']) *)
Definition ckey := (option string * string)%type.

Definition cache_key (parent : pyparent) (name : string) : ckey :=
  (if p_truthy parent then Some (p_str parent) else None, name).

Definition ckey_eqb (a b : ckey) : bool :=
  match fst a, fst b with
  | Some x, Some y => x =? y
  | None, None => true
  | _, _ => false
  end && (snd a =? snd b).

Definition pcache := list (string * ckey * pdef).   (* loader name, key, definition *)

Fixpoint cache_find (l : string) (key : ckey) (c : pcache) : option pdef :=
  match c with
  | [] => None
  | (l', k', d) :: r => if (l =? l') && ckey_eqb key k' then Some d else cache_find l key r
  end.

Record state := { s_sys : sysst; s_cache : pcache }.
Definition state0 : state := {| s_sys := sys0; s_cache := [] |}.

(** Loader.get_pipeline: cached by key, else load and remember (failures are not stored) *)
Definition get_pipeline (e : env) (st : state) (lname : string) (k : lkind)
           (name : string) (parent : pyparent) : res (state * pdef) :=
  match cache_find lname (cache_key parent name) (s_cache st) with
  | Some d => Ok (st, d)
  | None =>
      let* (sys2, d) := load_pipeline e (s_sys st) lname k name parent in
      Ok ({| s_sys := sys2; s_cache := (lname, cache_key parent name, d) :: s_cache st |}, d)
  end.

(** Pipeline.load_and_run_pipeline, before the loader runs:
    [if self.py_dir: add_sys_path(self.py_dir)] *)
Definition pydir_sys (e : env) (sys : sysst) (pydir : option string) : sysst :=
  match pydir with
  | Some d => if d =? "" then sys else add_sys_path e sys (PStr d)
  | None => sys
  end.

(** * Running: generated pipelines are  probe ; [sibling custom step] ; pype calls *)
(** [c_swallow]: the step sets [raiseError: false] — pype logs and swallows every error of the
    child run (control-of-flow instructions excepted; none occur here) and the caller goes on *)
Record call := { c_name : string; c_opts : pype_opts; c_swallow : bool }.

Record pipe := {
  p_id : string;               (* marker written into the file: its own location *)
  p_silent : bool;             (* a real built-in pipeline: no probe inside *)
  p_mod : option string;       (* custom step module this pipeline uses *)
  p_calls : list call
}.

Record world := { w_env : env; w_content : string -> option pipe }.

Definition event := list string.
Inductive status := SDone | SRaised (name msg : string) | SUnsup.

Definition bstr (b : bool) : string := if b then "true" else "false".

Definition parent_kind (p : pyparent) : string :=
  match p with PNone => "N" | PStr _ => "S" | PPath _ => "P" end.
Definition parent_text (p : pyparent) : string :=
  match p with PNone => "" | PStr s => s | PPath s => s end.

Definition probe_event (p : pipe) (d : pdef) : event :=
  let i := d_info d in
  ["f"; p_id p; i_name i; i_loader i; parent_kind (i_parent i); parent_text (i_parent i);
   bstr (i_lcasc i);
   bstr (i_pcasc i); if d_is_file_info d then d_file d else ""].

(** Python's import of a top-level module: first sys.path entry holding [<mod>.py]
    (entries are only ever appended, so the first hit is stable; relative entries are
    relative to the working directory) *)
Definition find_module (e : env) (sp : list string) (m : string) : option string :=
  find_first (e_is_file e) (m ++ ".py")
             (map (fun d => if is_abs d then d else joinpath (e_cwd e) d) sp).

Definition PMNF : string := "pypyr.errors.PyModuleNotFoundError".

(** pypyr.moduleloader.get_module: one plain import attempt against the CURRENT sys.path, every
    time it is asked (nothing remembered about earlier failures); the harness canonicalises
    the long error text to the name of the missing module *)
Definition get_module (e : env) (sp : list string) (m : string) : res string :=
  match find_module e sp m with
  | Some mp => Ok mp
  | None => Err PMNF m
  end.

Definition rec_t := state -> option string -> option string -> string -> pyparent
                    -> state * list event * status.

Fixpoint run_calls (rec : rec_t) (st : state) (info : pinfo) (calls : list call)
  : state * list event * status :=
  match calls with
  | [] => (st, [], SDone)
  | c :: r =>
      let o := c_opts c in
      let '(st1, ev1, s1) :=
        rec st (child_loader info o) (o_pydir o) (c_name c) (child_parent info o) in
      match s1 with
      | SDone => let '(st2, ev2, s2) := run_calls rec st1 info r in (st2, (ev1 ++ ev2)%list, s2)
      | SRaised _ _ =>
          if c_swallow c
          then let '(st2, ev2, s2) := run_calls rec st1 info r in (st2, (ev1 ++ ev2)%list, s2)
          else (st1, ev1, s1)
      | SUnsup => (st1, ev1, s1)
      end
  end.

(** Pipeline.load_and_run_pipeline(context, parent) for a Pipeline(name, loader, py_dir) *)
Fixpoint run_pipeline (fuel : nat) (w : world) (st : state) (loader pydir : option string)
         (name : string) (parent : pyparent) : state * list event * status :=
  match fuel with
  | O => (st, [], SUnsup)
  | S f =>
      let e := w_env w in
      if negb (name_ok name) then (st, [], SUnsup) else
      let sys1 := pydir_sys e (s_sys st) pydir in
      let st1 := {| s_sys := sys1; s_cache := s_cache st |} in
      let lname := effective_loader loader in
      match loader_kind lname with
      | None => (st1, [], SUnsup)
      | Some k =>
          match get_pipeline e st1 lname k name parent with
          | Unsup => (st1, [], SUnsup)
          | Err n m => (st1, [], SRaised n m)
          | Ok (st2, d) =>
              match w_content w (d_file d) with
              | None => (st2, [], SUnsup)
              | Some p =>
                  let ev0 := if p_silent p then [] else [probe_event p d] in
                  match p_mod p with
                  | None =>
                      let '(st3, ev, s) := run_calls (run_pipeline f w) st2 (d_info d) (p_calls p) in
                      (st3, (ev0 ++ ev)%list, s)
                  | Some m =>
                      match get_module e (syspath (s_sys st2)) m with
                      | Unsup => (st2, ev0, SUnsup)
                      | Err n msg => (st2, ev0, SRaised n msg)
                      | Ok mp =>
                          let '(st3, ev, s) :=
                            run_calls (run_pipeline f w) st2 (d_info d) (p_calls p) in
                          (st3, (ev0 ++ ["m"; mp] :: ev)%list, s)
                      end
                  end
              end
          end
      end
  end.

(** * Case evaluation (correspondence run) *)
Definition FUEL : nat := 40.

Definition mk_env (cwd subdir builtin : string) (files existing : list string) : env :=
  {| e_cwd := cwd; e_subdir := subdir; e_builtin := builtin;
     e_is_file := fun p => str_in (norm_abs p) files;
     e_exists := fun p => str_in (norm_abs p) existing |}.

Fixpoint assoc_str {A} (k : string) (l : list (string * A)) : option A :=
  match l with
  | [] => None
  | (k', v) :: r => if k =? k' then Some v else assoc_str k r
  end.

(** [pipes]: pipeline files with their content; [others]: further regular files (modules);
    [dirs]: existing directories *)
Definition mk_world (cwd subdir builtin : string) (pipes : list (string * pipe))
           (others dirs : list string) : world :=
  let files := (map fst pipes ++ others)%list in
  {| w_env := mk_env cwd subdir builtin files (files ++ dirs)%list;
     w_content := fun p => assoc_str p pipes |}.

(** observation = probe / module events, then the outcome, then what pypyr appended to
    sys.path, then the import-time constants of the file loader *)
(** import-time default of [builtin_pipelines_dir]: [Path(__file__).parents[1] / 'pipelines']
    for pypyr/loaders/file.py inside the repository at [repo] *)
Definition default_builtin (repo : string) : string :=
  joinpath (joinpath repo "pypyr") "pipelines".

Definition env_event (w : world) (repo : string) : event :=
  ["env"; e_cwd (w_env w); cwd_pipelines (w_env w); default_builtin repo; FILE_LOADER].

(** [pre]: sys.path entries present before pypyr runs (the harness appends them itself);
    the observation lists only what pypyr added after them *)
Definition state_pre (pre : list string) : state :=
  {| s_sys := {| known := []; syspath := pre |}; s_cache := [] |}.

(** consecutive root runs in ONE process: sys.path, [_known_dirs] and the pipeline caches
    persist; each run but the last leaves a marker with its outcome *)
Definition invocation := (option string * option string * string)%type.   (* loader, py_dir, name *)

Definition run_marker (s : status) : event :=
  match s with SRaised n m => ["run-err"; n; m] | _ => ["run-ok"] end.

Fixpoint run_roots (fuel : nat) (w : world) (st : state) (invs : list invocation)
  : state * list event * status :=
  match invs with
  | [] => (st, [], SDone)
  | (l, pd, n) :: rest =>
      let '(st1, ev1, s1) := run_pipeline fuel w st l pd n PNone in
      match rest, s1 with
      | [], _ => (st1, ev1, s1)
      | _, SUnsup => (st1, ev1, SUnsup)
      | _, _ => let '(st2, ev2, s2) := run_roots fuel w st1 rest in
                (st2, (ev1 ++ run_marker s1 :: ev2)%list, s2)
      end
  end.

Definition run_case_pre (w : world) (repo : string) (pre : list string) (invs : list invocation)
  : res (list event) :=
  let '(st, ev, s) := run_roots FUEL w (state_pre pre) invs in
  let tail := ["syspath" :: skipn (length pre) (syspath (s_sys st)); env_event w repo] in
  match s with
  | SUnsup => Unsup
  | SDone => Ok (ev ++ ["ok"] :: tail)%list
  | SRaised n m => Ok (ev ++ ["err"; n; m] :: tail)%list
  end.

Definition run_case (w : world) (repo : string) (loader pydir : option string)
           (name : string) : res (list event) := run_case_pre w repo [] [(loader, pydir, name)].

Definition obs_eqb : list event -> list event -> bool := list_eqb (list_eqb String.eqb).

Definition check_case_pre (w : world) (repo : string) (pre : list string) (invs : list invocation)
           (obs : list event) : nat :=
  verdict obs_eqb (run_case_pre w repo pre invs) (Ok obs).

Definition mkopts l r p d : pype_opts :=
  {| o_loader := l; o_resolve := r; o_parent := p; o_pydir := d |}.
Definition mkcall n o : call := {| c_name := n; c_opts := o; c_swallow := false |}.
Definition mkcall_sw n o : call := {| c_name := n; c_opts := o; c_swallow := true |}.
Definition mkpipe i s m c : pipe := {| p_id := i; p_silent := s; p_mod := m; p_calls := c |}.
