(** Model/Loader.v — placeholder, to be written. *)
