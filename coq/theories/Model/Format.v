(** Model/Format.v — pypyr.formatting.RecursiveFormatter over the [val] universe.

    Mirrors, function by function:
      MarkupIterator (CPython)            -> [parse_fmt], [parse_field]
      FieldNameIterator / get_field       -> [split_first], [accessors], [get_field]
      Formatter._vformat (spec expansion) -> [vformat_std]
      RecursionSpec                       -> [rspec]
      RecursiveFormatter._format_keep_type-> [keep_type]
      RecursiveFormatter._get_formatted_iterable -> [fmt_iter]
      Context.get_formatted_value         -> [format_value]
      PyString/SicString/Jsonify.get_value-> [special_value]
    [Unsup] = outside the modelled fragment, or fuel exhausted. *)
From PV Require Export PyVal.
Open Scope string_scope.

(** * The tokenizer *)
Definition lbrace : ascii := "{"%char.
Definition rbrace : ascii := "}"%char.

(** One parse item, as yielded by [string.Formatter.parse]:
    (literal_text, None) or (literal_text, Some (field_name, format_spec, conversion)). *)
Definition field := (string * string * option ascii)%type.
Definition item := (string * option field)%type.

Fixpoint read_lit (s : string) : string * option (ascii * string) :=
  match s with
  | EmptyString => (EmptyString, None)
  | String c r =>
      if Ascii.eqb c lbrace || Ascii.eqb c rbrace then (EmptyString, Some (c, r))
      else let '(l, k) := read_lit r in (String c l, k)
  end.

(** Field name: up to [}], [:] or [!]; [[...]] shields; [{] is an error. *)
Fixpoint skip_bracket (s : string) : string * string :=
  (* returns (consumed-before-], rest starting at ] or empty) *)
  match s with
  | EmptyString => (EmptyString, EmptyString)
  | String c r =>
      if Ascii.eqb c "]"%char then (EmptyString, s)
      else let '(a, b) := skip_bracket r in (String c a, b)
  end.

Fixpoint read_name (fuel : nat) (s : string) : res (string * ascii * string) :=
  (* returns (name, terminator, rest-after-terminator) *)
  match fuel with
  | O => Unsup
  | S f =>
      match s with
      | EmptyString => Err "ValueError" "expected '}' before end of string"
      | String c r =>
          if Ascii.eqb c lbrace then Err "ValueError" "unexpected '{' in field name"
          else if Ascii.eqb c rbrace || Ascii.eqb c ":"%char || Ascii.eqb c "!"%char
          then Ok (EmptyString, c, r)
          else if Ascii.eqb c "["%char then
            let '(inside, rest) := skip_bracket r in
            let* (n, t, r') := read_name f rest in
            Ok (String c (inside ++ n), t, r')
          else
            let* (n, t, r') := read_name f r in Ok (String c n, t, r')
      end
  end.

Fixpoint read_spec (s : string) (count : nat) : res (string * string) :=
  match s with
  | EmptyString => Err "ValueError" "unmatched '{' in format spec"
  | String c r =>
      if Ascii.eqb c lbrace then
        let* (sp, rest) := read_spec r (S count) in Ok (String c sp, rest)
      else if Ascii.eqb c rbrace then
        match count with
        | O | 1%nat => Ok (EmptyString, r)
        | S n => let* (sp, rest) := read_spec r n in Ok (String c sp, rest)
        end
      else let* (sp, rest) := read_spec r count in Ok (String c sp, rest)
  end.

Definition parse_field (s : string) : res (field * string) :=
  let* (name, t, r) := read_name (S (String.length s)) s in
  if Ascii.eqb t rbrace then Ok ((name, EmptyString, None), r)
  else if Ascii.eqb t "!"%char then
    match r with
    | EmptyString => Err "ValueError" "end of string while looking for conversion specifier"
    | String cv r1 =>
        (* a non-ASCII conversion character spans several bytes of this byte-string model: outside it *)
        if Nat.leb 128 (nat_of_ascii cv) then Unsup else
        match r1 with
        | EmptyString => Err "ValueError" "unmatched '{' in format spec"
        | String c2 r2 =>
            if Ascii.eqb c2 rbrace then Ok ((name, EmptyString, Some cv), r2)
            else if Ascii.eqb c2 ":"%char then
              let* (sp, rest) := read_spec r2 1 in Ok ((name, sp, Some cv), rest)
            else Err "ValueError" "expected ':' after conversion specifier"
        end
    end
  else
    let* (sp, rest) := read_spec r 1 in Ok ((name, sp, None), rest).

(** [string.Formatter.parse] is a lazy generator: items before a syntax error are
    consumed (and their fields looked up) before the error is raised.  So the parse
    result is the list of items plus how the iteration ends. *)
Inductive ptail := PEnd | PErr (name msg : string) | PUnsup.

Definition tail_of_res {A} (r : res A) : ptail :=
  match r with Ok _ => PEnd | Err n m => PErr n m | Unsup => PUnsup end.

Fixpoint parse_fmt (fuel : nat) (s : string) : list item * ptail :=
  match fuel with
  | O => ([], PUnsup)
  | S f =>
      match s with
      | EmptyString => ([], PEnd)
      | _ =>
          let '(lit, k) := read_lit s in
          match k with
          | None => ([(lit, None)], PEnd)
          | Some (c, r) =>
              match r with
              | EmptyString =>
                  if Ascii.eqb c rbrace
                  then ([], PErr "ValueError" "Single '}' encountered in format string")
                  else ([], PErr "ValueError" "Single '{' encountered in format string")
              | String d r' =>
                  if Ascii.eqb c d then
                    let '(rest, t) := parse_fmt f r' in ((lit ++ String c EmptyString, None) :: rest, t)
                  else if Ascii.eqb c rbrace
                  then ([], PErr "ValueError" "Single '}' encountered in format string")
                  else
                    match parse_field r with
                    | Ok (fld, r2) =>
                        let '(rest, t) := parse_fmt f r2 in ((lit, Some fld) :: rest, t)
                    | Err n m => ([], PErr n m)
                    | Unsup => ([], PUnsup)
                    end
              end
          end
      end
  end.

Definition parse (s : string) : list item * ptail := parse_fmt (S (String.length s)) s.

Definition raise_tail {A} (t : ptail) (k : res A) : res A :=
  match t with PEnd => k | PErr n m => Err n m | PUnsup => Unsup end.

(** * Field names: [first(.attr|[idx])*] *)
Fixpoint split_first (s : string) : string * string :=
  match s with
  | EmptyString => (EmptyString, EmptyString)
  | String c r =>
      if Ascii.eqb c "."%char || Ascii.eqb c "["%char then (EmptyString, s)
      else let '(a, b) := split_first r in (String c a, b)
  end.

Fixpoint read_until_close (s : string) : option (string * string) :=
  match s with
  | EmptyString => None
  | String c r =>
      if Ascii.eqb c "]"%char then Some (EmptyString, r)
      else match read_until_close r with
           | Some (a, b) => Some (String c a, b)
           | None => None
           end
  end.

Definition key_of_name (s : string) : val :=
  if isdigit s then VInt (digits_to_Z s 0) else VStr s.

Definition type_name (v : val) : string :=
  match v with
  | VNone => "NoneType" | VBool _ => "bool" | VInt _ => "int" | VFloat _ => "float"
  | VStr _ => "str" | VBytes _ => "bytes" | VList _ => "list" | VTuple _ => "tuple"
  | VSet _ => "set" | VDict _ => "dict" | VPy _ _ => "PyString" | VSic _ => "SicString"
  | VJsonify _ => "Jsonify" | VObj _ => "object" | VExn n _ _ => n
  end.

Definition get_item (obj key : val) : res val :=
  match obj with
  | VDict d =>
      match dict_get key d with
      | Some v => Ok v
      | None => match py_repr key with
                | Some r => Err "KeyError" r
                | None => Unsup
                end
      end
  | VList l | VTuple l =>
      match key with
      | VInt i =>
          match nth_error l (Z.to_nat i) with
          | Some v => Ok v
          | None => Err "IndexError" (type_name obj ++ " index out of range")
          end
      | _ => Err "TypeError" (type_name obj ++ " indices must be integers or slices, not str")
      end
  | _ => Unsup
  end.

Fixpoint accessors (fuel : nat) (obj : val) (rest : string) : res val :=
  match fuel with
  | O => Unsup
  | S f =>
      match rest with
      | EmptyString => Ok obj
      | String c r =>
          if Ascii.eqb c "."%char then
            let '(nm, _) := split_first r in
            match nm with
            | EmptyString => Err "ValueError" "Empty attribute in format string"
            | _ => Unsup      (* getattr on Python objects: not modelled *)
            end
          else if Ascii.eqb c "["%char then
            match read_until_close r with
            | None => Err "ValueError" "Missing ']' in format string"
            | Some (nm, r') =>
                match nm with
                | EmptyString => Err "ValueError" "Empty attribute in format string"
                | _ =>
                    let* v := get_item obj (key_of_name nm) in
                    accessors f v r'
                end
            end
          else Err "ValueError" "Only '.' or '[' may follow ']' in format field specifier"
      end
  end.

Definition key_missing {A} (k : string) : res A :=
  Err "pypyr.errors.KeyNotInContextError" (k ++ " not found in the pypyr context.").

Definition get_field (ctx : dict) (name : string) : res val :=
  let '(first, rest) := split_first name in
  if isdigit first then Err "TypeError" "'NoneType' object is not subscriptable"
  else
    match sget first ctx with
    | None => key_missing first
    | Some v => accessors (S (String.length rest)) v rest
    end.

(** * conversion and format_field *)
Definition res_of_opt {A} (o : option A) : res A :=
  match o with Some a => Ok a | None => Unsup end.

Definition convert_field (v : val) (conv : option ascii) : res val :=
  match conv with
  | None => Ok v
  | Some c =>
      if Ascii.eqb c "s"%char then let* s := res_of_opt (py_str v) in Ok (VStr s)
      else if Ascii.eqb c "r"%char then let* s := res_of_opt (py_repr v) in Ok (VStr s)
      else if Ascii.eqb c "a"%char then Unsup
      else Err "ValueError" ("Unknown conversion specifier " ++ String c EmptyString)
  end.

(** code points of a UTF-8 byte string *)
Fixpoint py_len (s : string) : nat :=
  match s with
  | EmptyString => O
  | String c r =>
      let n := nat_of_ascii c in
      (if Nat.ltb n 128 || Nat.leb 192 n then 1 else 0) + py_len r
  end.

Definition is_align (c : ascii) : bool :=
  Ascii.eqb c "<"%char || Ascii.eqb c ">"%char || Ascii.eqb c "^"%char.

(** [[fill]align][width] — the only non-empty specs modelled, for str and int. *)
Definition parse_simple_spec (spec : string) : option (ascii * option ascii * nat) :=
  (* (fill, align, width) *)
  let finish (fill : ascii) (al : option ascii) (w : string) :=
    match w with
    | EmptyString => match al with Some _ => Some (fill, al, O) | None => None end
    | String d _ =>
        if all_digits w && negb (Ascii.eqb d "0"%char) && Nat.leb (String.length w) 3
        then Some (fill, al, Z.to_nat (digits_to_Z w 0)) else None
    end in
  match spec with
  | String f (String a w) =>
      if is_align a && Nat.ltb (nat_of_ascii f) 128 then finish f (Some a) w
      else match spec with
           | String a' w' => if is_align a' then finish " "%char (Some a') w'
                             else finish " "%char None spec
           | _ => None
           end
  | String a' w' => if is_align a' then finish " "%char (Some a') w' else finish " "%char None spec
  | EmptyString => None
  end.

Definition pad (s : string) (fill : ascii) (al : ascii) (w : nat) : string :=
  let n := py_len s in
  if Nat.leb w n then s
  else
    let k := (w - n)%nat in
    if Ascii.eqb al "<"%char then s ++ repeat_char fill k
    else if Ascii.eqb al ">"%char then repeat_char fill k ++ s
    else repeat_char fill (k / 2) ++ s ++ repeat_char fill (k - k / 2).

Definition format_field (v : val) (spec : string) : res string :=
  match spec with
  | EmptyString => res_of_opt (py_str v)
  | _ =>
      match v, parse_simple_spec spec with
      | VStr s, Some (fill, al, w) =>
          Ok (pad s fill (match al with Some a => a | None => "<"%char end) w)
      | VInt z, Some (fill, al, w) =>
          Ok (pad (str_of_Z z) fill (match al with Some a => a | None => ">"%char end) w)
      | VBool b, Some (fill, al, w) =>          (* bool is an int: formats as 1 / 0 *)
          Ok (pad (if b then "1" else "0") fill (match al with Some a => a | None => ">"%char end) w)
      (* object.__format__ rejects every non-empty spec *)
      | VNone, _ | VList _, _ | VTuple _, _ | VSet _, _ | VDict _, _ | VPy _ _, _ | VSic _, _
      | VJsonify _, _ | VBytes _, _ =>
          Err "TypeError" ("unsupported format string passed to " ++ type_name v ++ ".__format__")
      | _, _ => Unsup
      end
  end.

(** * RecursionSpec *)
Record rspec := { r_recursive : bool; r_flat : bool; r_spec : string }.

Definition mk_rspec (spec : string) : rspec :=
  match spec with
  | String "r" (String "f" rest) => {| r_recursive := true; r_flat := false; r_spec := rest |}
  | String "f" (String "f" rest) => {| r_recursive := false; r_flat := true; r_spec := rest |}
  | _ => {| r_recursive := false; r_flat := false; r_spec := spec |}
  end.

(** * !py expressions (pure fragment) *)
Definition z_cmp (op : cmpop) (a b : Q) : bool :=
  match op with
  | CEq => Qeq_bool a b
  | CNe => negb (Qeq_bool a b)
  | CLt => negb (Qle_bool b a)
  | CLe => Qle_bool a b
  | CGt => negb (Qle_bool a b)
  | CGe => Qle_bool b a
  end.

Definition str_cmp (op : cmpop) (a b : string) : bool :=
  match op with
  | CEq => String.eqb a b
  | CNe => negb (String.eqb a b)
  | CLt => String.ltb a b
  | CLe => String.leb a b
  | CGt => String.ltb b a
  | CGe => String.leb b a
  end.

Definition num_result (a b : val) (fq : Q -> Q -> Q) (fz : Z -> Z -> Z) : res val :=
  match a, b with
  | VInt x, VInt y => Ok (VInt (fz x y))
  | VBool x, VInt y => Ok (VInt (fz (if x then 1 else 0)%Z y))
  | VInt x, VBool y => Ok (VInt (fz x (if y then 1 else 0)%Z))
  | VFloat x, VInt y => Ok (VFloat (Qred (fq x (inject_Z y))))
  | VInt x, VFloat y => Ok (VFloat (Qred (fq (inject_Z x) y)))
  | VFloat x, VFloat y => Ok (VFloat (Qred (fq x y)))
  | _, _ => Unsup
  end.

Fixpoint eval_py (fuel : nat) (ctx : dict) (e : pyexpr) : res val :=
  match fuel with
  | O => Unsup
  | S f =>
      match e with
      | ENone => Ok VNone
      | EBool b => Ok (VBool b)
      | EInt z => Ok (VInt z)
      | EStr s => Ok (VStr s)
      | EName x =>
          match sget x ctx with
          | Some v => Ok v
          | None => Err "NameError" ("name '" ++ x ++ "' is not defined")
          end
      | EList l => let* vs := mapM (eval_py f ctx) l in Ok (VList vs)
      | ETuple l => let* vs := mapM (eval_py f ctx) l in Ok (VTuple vs)
      | ECmp op a b =>
          let* x := eval_py f ctx a in
          let* y := eval_py f ctx b in
          match op with
          | CEq => Ok (VBool (py_eq x y))
          | CNe => Ok (VBool (negb (py_eq x y)))
          | _ =>
              match as_num x, as_num y with
              | Some p, Some q => Ok (VBool (z_cmp op p q))
              | _, _ =>
                  match x, y with
                  | VStr s, VStr t => Ok (VBool (str_cmp op s t))
                  | _, _ => Unsup
                  end
              end
          end
      | EAnd a b =>
          let* x := eval_py f ctx a in
          if py_truth x then eval_py f ctx b else Ok x
      | EOr a b =>
          let* x := eval_py f ctx a in
          if py_truth x then Ok x else eval_py f ctx b
      | ENot a => let* x := eval_py f ctx a in Ok (VBool (negb (py_truth x)))
      | EAdd a b =>
          let* x := eval_py f ctx a in
          let* y := eval_py f ctx b in
          match x, y with
          | VStr s, VStr t => Ok (VStr (s ++ t))
          | VList s, VList t => Ok (VList (s ++ t)%list)
          | _, _ => num_result x y Qplus Z.add
          end
      | ESub a b =>
          let* x := eval_py f ctx a in
          let* y := eval_py f ctx b in num_result x y Qminus Z.sub
      | EMul a b =>
          let* x := eval_py f ctx a in
          let* y := eval_py f ctx b in num_result x y Qmult Z.mul
      | ELen a =>
          let* x := eval_py f ctx a in
          match x with
          | VList l | VTuple l | VSet l => Ok (VInt (Z.of_nat (List.length l)))
          | VDict l => Ok (VInt (Z.of_nat (List.length l)))
          | VStr s => Ok (VInt (Z.of_nat (py_len s)))
          | _ => Unsup
          end
      | EIn a b =>
          let* x := eval_py f ctx a in
          let* y := eval_py f ctx b in
          match y with
          | VList l | VTuple l | VSet l => Ok (VBool (py_in x l))
          | VDict l => Ok (VBool (py_in x (map fst l)))
          | _ => Unsup
          end
      | EIndex a b =>
          let* x := eval_py f ctx a in
          let* y := eval_py f ctx b in
          match x, y with
          | VDict d, _ => match dict_get y d with Some v => Ok v | None => Unsup end
          | VList l, VInt i | VTuple l, VInt i =>
              if (i <? 0)%Z then Unsup else
              match nth_error l (Z.to_nat i) with Some v => Ok v | None => Unsup end
          | _, _ => Unsup
          end
      | EWalrus _ _ | ELambdaCall _ _ _ | EListComp _ _ _ => Unsup  (* see Model/PyScope.v *)
      end
  end.

Fixpoint pyexpr_size (e : pyexpr) : nat :=
  let fix sizes (l : list pyexpr) : nat :=
    match l with [] => O | x :: r => (pyexpr_size x + sizes r)%nat end in
  S (match e with
     | EList l | ETuple l => sizes l
     | ECmp _ a b | EAnd a b | EOr a b | EAdd a b | ESub a b | EMul a b | EIn a b | EIndex a b
     | ELambdaCall _ a b | EListComp a _ b => (pyexpr_size a + pyexpr_size b)%nat
     | ENot a | ELen a | EWalrus _ a => pyexpr_size a
     | _ => O
     end).

Definition eval_pystring (ctx : dict) (src : string) (e : pyexpr) : res val :=
  match src with
  | EmptyString =>
      Err "ValueError" "!py string expression is empty. It must be a valid python expression instead."
  | _ => eval_py (S (pyexpr_size e)) ctx e
  end.

(** * The recursive formatter *)
Section Formatter.
  Variable ctx : dict.

  Definition lookup_field (name : string) : res val :=
    match name with
    | EmptyString => Err "TypeError" "'NoneType' object is not subscriptable"
    | _ => get_field ctx name
    end.

  (** Base-class [_vformat]: spec expansion, string-producing, bounded recursion depth.
      [depth] is Python's [recursion_depth] shifted by one: 0 here = Python's -1. *)
  Fixpoint vformat_std (depth : nat) (s : string) : res string :=
    match depth with
    | O => Err "ValueError" "Max string recursion exceeded"
    | S d =>
        let '(items, tl) := parse s in
        let fix go (items : list item) : res string :=
          match items with
          | [] => raise_tail tl (Ok EmptyString)
          | (lit, None) :: r => let* rest := go r in Ok (lit ++ rest)
          | (lit, Some (name, spec, conv)) :: r =>
              let* obj := lookup_field name in
              let* obj := convert_field obj conv in
              let* spec' := vformat_std d spec in
              let* out := format_field obj spec' in
              let* rest := go r in
              Ok (lit ++ out ++ rest)
          end in
        go items
    end.

  (** entries of [_format_keep_type]'s [result] list *)
  Inductive entry := ELit (s : string) | EObj (v : val) (rs : rspec) (recursed : bool).

  (** Everything below is written OPEN in [rec], the recursive call to
      [_get_formatted_iterable]; the knot is tied on fuel at the end.  Lemmas about the
      open functions hold for every behaviour of the nested formatting. *)
  Section Open.
    Variable rec : val -> bool -> res val.

    (** one field of [_format_keep_type]'s loop *)
    Definition field_entry (is_rec : bool) (fld : field) : res entry :=
      let '(name, spec, conv) := fld in
      let* obj := lookup_field name in
      let* spec' := vformat_std 2 spec in
      let rs := mk_rspec spec' in
      let go_rec := r_recursive rs || (is_rec && negb (r_flat rs)) in
      let* obj := (if go_rec then rec obj true else Ok obj) in
      let* obj := convert_field obj conv in
      Ok (EObj obj rs go_rec).

    Fixpoint build (is_rec : bool) (items : list item) (tl : ptail) : res (list entry) :=
      match items with
      | [] => raise_tail tl (Ok [])
      | (lit, fo) :: r =>
          let* mid := (match fo with
                       | None => Ok []
                       | Some fld => let* e := field_entry is_rec fld in Ok [e]
                       end) in
          let* rest := build is_rec r tl in
          Ok ((match lit with EmptyString => [] | _ => [ELit lit] end) ++ mid ++ rest)%list
      end.

    Fixpoint render (es : list entry) : res string :=
      match es with
      | [] => Ok EmptyString
      | ELit l :: r => let* rest := render r in Ok (l ++ rest)
      | EObj obj rs _ :: r =>
          let* out := format_field obj (r_spec rs) in
          let* rest := render r in Ok (out ++ rest)
      end.

    (** the tail of [_format_keep_type]: single-entry rule vs. join *)
    Definition finish (entries : list entry) : res val :=
      match entries with
      | [ELit l] => Ok (VStr l)
      | [EObj obj rs recursed] =>
          let* obj := (if recursed || r_flat rs then Ok obj else rec obj (r_recursive rs)) in
          match r_spec rs with
          | EmptyString => Ok obj
          | sp => let* out := format_field obj sp in Ok (VStr out)
          end
      | _ => let* out := render entries in Ok (VStr out)
      end.

    Definition keep_items (is_rec : bool) (items : list item) (tl : ptail) : res val :=
      let* entries := build is_rec items tl in finish entries.

    Definition keep_type (s : string) (is_rec : bool) : res val :=
      let '(items, tl) := parse s in keep_items is_rec items tl.

    Definition rebuild_dict (l : list (val * val)) : dict :=
      fold_left (fun acc kv => dict_set (fst kv) (snd kv) acc) l [].

    (** [_get_formatted_iterable] *)
    Definition iter_body (v : val) (is_rec : bool) : res val :=
      match v with
      | VPy src e => eval_pystring ctx src e
      | VSic s => Ok (VStr s)
      | VJsonify x =>
          let* y := rec x false in
          let* s := res_of_opt (json_dumps y) in Ok (VStr s)
      | VStr s => keep_type s is_rec
      | VBytes _ => Ok v
      | VDict l =>
          let* l' := mapM (fun kv =>
                             let* k := rec (fst kv) is_rec in
                             let* x := rec (snd kv) is_rec in Ok (k, x)) l in
          Ok (VDict (rebuild_dict l'))
      | VList l => let* l' := mapM (fun x => rec x is_rec) l in Ok (VList l')
      | VTuple l => let* l' := mapM (fun x => rec x is_rec) l in Ok (VTuple l')
      | VSet l =>
          let* l' := mapM (fun x => rec x is_rec) l in
          let* s := res_of_opt (set_of_list l') in Ok (VSet s)
      | _ => Ok v
      end.
  End Open.

  Fixpoint fmt_iter (fuel : nat) (v : val) (is_rec : bool) {struct fuel} : res val :=
    match fuel with
    | O => Unsup
    | S f => iter_body (fmt_iter f) v is_rec
    end.
End Formatter.

(** [Context.get_formatted_value(v)] *)
Definition format_value (fuel : nat) (ctx : dict) (v : val) : res val := fmt_iter ctx fuel v false.

(** Default fuel used by the correspondence checks: deeper than any generated reference chain. *)
Definition FUEL : nat := 60.
