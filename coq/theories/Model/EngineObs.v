(** Model/EngineObs.v — comparing a model run with a canonical observation of the real run.
    Exception identity is compared as a first-seen pattern over (runErrors entries ++ the
    propagated error), everything else structurally with identities zeroed. *)
From PV Require Export Engine.
Open Scope string_scope.

Inductive eobs := EOk | EErr (name msg : string).

Fixpoint strip_eid (v : val) : val :=
  let fix go (l : list val) : list val :=
    match l with [] => [] | x :: r => strip_eid x :: go r end in
  let fix god (l : list (val * val)) : list (val * val) :=
    match l with [] => [] | (k, x) :: r => (strip_eid k, strip_eid x) :: god r end in
  match v with
  | VList l => VList (go l)
  | VTuple l => VTuple (go l)
  | VSet l => VSet (go l)
  | VDict l => VDict (god l)
  | VJsonify x => VJsonify (strip_eid x)
  | VExn n m _ => VExn n m 0
  | _ => v
  end.

Definition strip_dict (d : dict) : dict :=
  map (fun kv => (strip_eid (fst kv), strip_eid (snd kv))) d.

Definition run_error_eids (c : dict) : list Z :=
  match sget "runErrors" c with
  | Some (VList l) =>
      flat_map (fun e => match e with
                         | VDict d => match sget "exception" d with
                                      | Some (VExn _ _ i) => [i]
                                      | _ => []
                                      end
                         | _ => []
                         end) l
  | _ => []
  end.

Fixpoint index_of (x : Z) (l : list Z) (n : nat) : nat :=
  match l with
  | [] => n
  | y :: r => if Z.eqb x y then n else index_of x r (S n)
  end.

(** first-seen numbering: [7;9;7] -> [0;1;0] *)
Fixpoint pattern_aux (l : list Z) (seen : list Z) : list nat :=
  match l with
  | [] => []
  | x :: r =>
      if existsb (Z.eqb x) seen then index_of x seen 0 :: pattern_aux r seen
      else List.length seen :: pattern_aux r (seen ++ [x])
  end.
Definition pattern (l : list Z) : list nat := pattern_aux l [].

Definition check_run (r : R) (o : eobs) (tr : list val) (sl : list Q) (fctx : dict)
           (pat : list nat) : nat :=
  let '(oc, s) := r in
  match oc with
  | OUnsup => 2%nat
  | _ =>
      let oc_ok := match oc, o with
                   | OOk, EOk => true
                   | ORaise (RExn n m _), EErr n' m' => String.eqb n n' && String.eqb m m'
                   | _, _ => false
                   end in
      let final_eid := match oc with ORaise (RExn _ _ i) => [i] | _ => [] end in
      if oc_ok
         && list_eqb val_eqb (map strip_eid (trace s)) tr
         && list_eqb Qeq_bool (sleeps s) sl
         && dict_eqb (strip_dict (ctx s)) fctx
         && list_eqb Nat.eqb (pattern (run_error_eids (ctx s) ++ final_eid)) pat
      then 0%nat else 1%nat
  end.

(** what the replay files show *)
Definition show_run (r : R) :=
  let '(oc, s) := r in (oc, map strip_eid (trace s), sleeps s, strip_dict (ctx s),
                        pattern (run_error_eids (ctx s))).
