(** Model/Engine.v — pypyr's step interpreter: dsl.Step / RetryDecorator / WhileDecorator,
    utils.poll.while_until_true, retries, stepsrunner.StepsRunner, pipeline.Pipeline,
    steps.pype and the control-of-flow steps.  One Gallina function per Python method,
    same names, same order of effects.  Python exceptions are outcomes; the recursive
    entry points (run_step_groups, load_and_run_pipeline) are parameters ([rg], [rp]) of
    everything else, and the knot is tied on fuel at the end of the file. *)
From PV Require Export Format.
Require PV.Model.Merge.
Open Scope string_scope.

(** * Outcomes *)
Record cof := mkcof {
  c_groups : list val;          (* group names as they came out of the formatted config *)
  c_success : option string;
  c_failure : option string;
  c_key : string;               (* 'call' / 'jump' / 'switch' *)
  c_orig : val                  (* the caller's original config object *)
}.

Inductive signal :=
| SStop | SStopPipeline | SStopStepGroup      (* errors.Stop and its two subclasses *)
| SCall (c : cof) | SJump (c : cof).          (* errors.ControlOfFlowInstruction *)

Inductive raised :=
| RExn (name msg : string) (eid : Z)          (* an ordinary exception object *)
| RSig (s : signal).

Inductive outcome :=
| OOk
| ORaise (r : raised)
| OHandled (cause : raised)                   (* errors.HandledError raised from [cause] *)
| OUnsup.                                     (* outside the model / out of fuel *)

(** * Programs *)
Inductive body :=
| BProbe | BFail | BIncr
| BStop | BStopPipeline | BStopStepGroup
| BCall | BJump | BSwitch
| BSet | BClear | BClearAll
| BMerge | BDefault            (* pypyr.steps.contextmerge / default, through Model/Merge.v *)
| BPype.

Record wcfg := mkw { w_max : option val; w_stop : option val; w_sleep : val; w_eom : val }.
Record rcfg := mkr { r_max : option val; r_sleep : val; r_backoff : option val;
                     r_args : option val; r_jrc : val; r_sleepmax : option val;
                     r_stopon : option val; r_retryon : option val }.

Record step := mkstep {
  s_name : string;
  s_body : body;
  s_in : option dict;
  s_foreach : option val;
  s_while : option wcfg;
  s_retry : option rcfg;
  s_run : val; s_skip : val; s_swallow : val;
  s_onerror : option val;
  s_pos : option (Z * Z);       (* yaml line, col; None for a bare-string step *)
  s_desc : option val           (* description: formatted (and run / skip evaluated) once, up front, for the log *)
}.

Definition pipeline := list (string * option (list step)).   (* group -> steps (None = null) *)
Definition library := list (string * pipeline).

(** * State *)
Record st := mkst {
  ctx : dict;
  stack : list string;          (* Context._stack: pipeline names, innermost first *)
  trace : list val;             (* probe events *)
  sleeps : list Q;              (* every time.sleep argument, in order *)
  next_eid : Z;
  jit : Q                       (* what random.random() returns (harness-controlled) *)
}.

Definition R := (outcome * st)%type.

Definition set_ctx (s : st) (c : dict) : st :=
  mkst c (stack s) (trace s) (sleeps s) (next_eid s) (jit s).
Definition set_stack (s : st) (k : list string) : st :=
  mkst (ctx s) k (trace s) (sleeps s) (next_eid s) (jit s).
Definition add_trace (s : st) (e : val) : st :=
  mkst (ctx s) (stack s) (trace s ++ [e]) (sleeps s) (next_eid s) (jit s).
Definition add_sleep (s : st) (q : Q) : st :=
  mkst (ctx s) (stack s) (trace s) (sleeps s ++ [q]) (next_eid s) (jit s).

Definition raise_new (name msg : string) (s : st) : R :=
  (ORaise (RExn name msg (next_eid s)),
   mkst (ctx s) (stack s) (trace s) (sleeps s) (next_eid s + 1) (jit s)).

Definition lift {A} (r : res A) (s : st) (k : A -> R) : R :=
  match r with
  | Ok a => k a
  | Err n m => raise_new n m s
  | Unsup => (OUnsup, s)
  end.

Definition andthen (r : R) (k : st -> R) : R :=
  match r with (OOk, s) => k s | _ => r end.

(** [dict.pop(k, None)]: on a well-formed dict (unique keys) removing every binding of [k]
    is the same as removing the first; the all-occurrences form has simpler laws. *)
Definition dict_pop (k : val) (d : dict) : dict :=
  filter (fun kv => negb (val_eqb k (fst kv))) d.
Definition spop (k : string) (d : dict) : dict := dict_pop (VStr k) d.

(** * Formatting helpers over the current context *)
Definition fmt (s : st) (v : val) : res val := format_value FUEL (ctx s) v.

Definition cast_str_to_bool (x : string) : bool := str_in (lower x) ["true"; "1"; "1.0"].

(** [Context.get_formatted_as_type(value, out_type=bool)] *)
Definition as_bool (s : st) (v : val) : res bool :=
  match v with
  | VPy _ _ | VSic _ | VJsonify _ =>
      let* r := fmt s v in Ok (py_truth r)
  | VStr _ =>
      let* r := fmt s v in
      match r with
      | VBool b => Ok b
      | VStr x => Ok (cast_str_to_bool x)
      | _ => Ok (py_truth r)
      end
  | _ => Ok (py_truth v)
  end.

Definition int_of (r : val) : res Z :=
  match r with
  | VInt z => Ok z
  | VBool b => Ok (if b then 1 else 0)%Z
  | VFloat q => Ok (Z.quot (Qnum q) (Zpos (Qden q)))
  | VStr x => if isdigit x then Ok (digits_to_Z x 0) else Unsup
  | _ => Unsup
  end.

(** [get_formatted_as_type(value, out_type=int)] *)
Definition as_int (s : st) (v : val) : res Z :=
  match v with
  | VPy _ _ | VSic _ | VJsonify _ | VStr _ => let* r := fmt s v in int_of r
  | _ => int_of v
  end.

Definition q_of (r : val) : res Q :=
  match r with
  | VInt z => Ok (inject_Z z)
  | VBool b => Ok (if b then 1 else 0)%Q
  | VFloat q => Ok q
  | _ => Unsup
  end.

(** [get_formatted_as_type(value, out_type=float)] *)
Definition as_float (s : st) (v : val) : res Q :=
  match v with
  | VPy _ _ | VSic _ | VJsonify _ | VStr _ => let* r := fmt s v in q_of r
  | _ => q_of v
  end.

(** [Context.get_formatted(key)] *)
Definition get_formatted (s : st) (key : string) : res val :=
  match sget key (ctx s) with
  | None => key_missing key
  | Some v =>
      match fmt s v with
      | Err "pypyr.errors.KeyNotInContextError" m =>
          match py_str v with
          | Some sv => Err "pypyr.errors.KeyNotInContextError"
                           ("Unable to format '" ++ sv ++ "' at context['" ++ key ++ "'], because " ++ m)
          | None => Unsup
          end
      | r => r
      end
  end.

(** [asserts.assert_key_has_value(context, key, caller)] *)
Definition assert_key_has_value (s : st) (key caller : string) : res val :=
  match sget key (ctx s) with
  | None => Err "pypyr.errors.KeyNotInContextError"
                ("context['" ++ key ++ "'] doesn't exist. It must exist for " ++ caller ++ ".")
  | Some VNone => Err "pypyr.errors.KeyInContextHasNoValueError"
                      ("context['" ++ key ++ "'] must have a value for " ++ caller ++ ".")
  | Some v => Ok v
  end.

Definition opt_str (v : option val) : res (option string) :=
  match v with
  | None | Some VNone => Ok None
  | Some (VStr x) => Ok (Some x)
  | _ => Unsup
  end.

(** * Control-of-flow steps (steps/dsl/cof.py) *)
Definition instruction_from_dict (config : val) (key : string) (orig : val) : res cof :=
  match config with
  | VStr g => Ok (mkcof [VStr g] None None key orig)
  | VList gs => Ok (mkcof gs None None key orig)
  | VDict d =>
      match sget "groups" d with
      | None => Unsup
      | Some g =>
          if negb (py_truth g) then Unsup else
          let gs := match g with VStr x => Some [VStr x] | VList l => Some l | _ => None end in
          match gs with
          | None => Unsup
          | Some gs =>
              let* su := opt_str (sget "success" d) in
              let* fa := opt_str (sget "failure" d) in
              Ok (mkcof gs su fa key orig)
          end
      end
  | _ => Unsup
  end.

Definition cof_step (mk : cof -> signal) (key caller : string) (s : st) : R :=
  lift (assert_key_has_value s key caller) s (fun orig =>
  lift (get_formatted s key) s (fun config =>
  lift (instruction_from_dict config key orig) s (fun c =>
  (ORaise (RSig (mk c)), s)))).

(** [cof.switch]: first case whose expression is true, else a trailing default *)
Fixpoint switch_select (s : st) (cases : list val) (idx : nat) (last : nat) : res (option val) :=
  match cases with
  | [] => Ok None
  | VDict c :: rest =>
      let dflt := if Nat.eqb idx last then
                    match sget "default" c with Some VNone | None => None | Some d => Some d end
                  else None in
      match dflt with
      | Some d => Ok (Some d)
      | None =>
          match sget "case" c, sget "call" c with
          | Some e, Some call =>
              if negb (py_truth call) then Unsup else
              let* b := as_bool s e in
              if b then Ok (Some call) else switch_select s rest (S idx) last
          | _, _ => Unsup
          end
      end
  | _ => Unsup
  end.

Definition switch_step (s : st) : R :=
  lift (assert_key_has_value s "switch" "pypyr.steps.switch") s (fun cfg =>
  match cfg with
  | VList cases =>
      lift (switch_select s cases 0 (List.length cases - 1)) s (fun sel =>
      match sel with
      | None => (OOk, s)
      | Some raw =>
          lift (fmt s raw) s (fun call =>
          lift (instruction_from_dict call "switch" cfg) s (fun c =>
          (ORaise (RSig (SCall c)), s)))
      end)
  | _ => (OUnsup, s)
  end).

(** * Plain step bodies *)
Definition MISSING : val := VObj (-1).
Definition getm (k : string) (s : st) : val :=
  match sget k (ctx s) with Some v => v | None => MISSING end.

Definition current_pipe (s : st) : string :=
  match stack s with p :: _ => p | [] => "" end.

(** the probe step: records tag, loop counters, stack depth, current pipeline and the
    values of the keys listed under [pwatch] *)
Definition probe_step (s : st) : R :=
  let watch := match sget "pwatch" (ctx s) with
               | Some (VList ks) =>
                   map (fun k => match k with VStr x => getm x s | _ => MISSING end) ks
               | _ => []
               end in
  (OOk, add_trace s (VList [getm "ptag" s; getm "i" s; getm "whileCounter" s;
                            getm "retryCounter" s; VInt (Z.of_nat (List.length (stack s)));
                            VStr (current_pipe s); VList watch])).

(** the fail step: raises [err](msg) when [when] is absent or true; with [cached: k] the error is
    a pre-built object raised again by every failure *)
Definition fail_step (s : st) : R :=
  match sget "vfail" (ctx s) with
  | Some (VDict c) =>
      lift (match sget "when" c with None => Ok true | Some w => as_bool s w end) s (fun b =>
      if b then
        match sget "err" c, sget "msg" c with
        | Some (VStr e), Some m =>
            match sget "cached" c with
            | None =>
                lift (fmt s m) s (fun m' =>
                match m' with VStr ms => raise_new e ms s | _ => (OUnsup, s) end)
            | Some (VInt k) =>
                (* ONE pre-built exception object per k (identity -k-1, never a fresh one),
                   message as given: every failure raises that same object again *)
                match m with VStr ms => (ORaise (RExn e ms (- k - 1)), s) | _ => (OUnsup, s) end
            | Some _ => (OUnsup, s)
            end
        | _, _ => (OUnsup, s)
        end
      else (OOk, s))
  | _ => (OUnsup, s)
  end.

Definition incr_step (s : st) : R :=
  match sget "vincr" (ctx s) with
  | Some (VStr k) =>
      match sget k (ctx s) with
      | None => (OOk, set_ctx s (sset k (VInt 1) (ctx s)))
      | Some (VInt z) => (OOk, set_ctx s (sset k (VInt (z + 1)) (ctx s)))
      | _ => (OUnsup, s)
      end
  | _ => (OUnsup, s)
  end.

(** pypyr.steps.set: pop 'set', then assign formatted key := formatted value, one by one *)
Fixpoint set_items (items : list (val * val)) (s : st) : R :=
  match items with
  | [] => (OOk, s)
  | (k, v) :: rest =>
      lift (fmt s k) s (fun k' =>
      lift (fmt s v) s (fun v' =>
      set_items rest (set_ctx s (dict_set k' v' (ctx s)))))
  end.

Definition set_step (s : st) : R :=
  lift (assert_key_has_value s "set" "pypyr.steps.set") s (fun cfg =>
  match cfg with
  | VDict items => set_items items (set_ctx s (spop "set" (ctx s)))
  | _ => (OUnsup, s)
  end).

Definition clear_step (s : st) : R :=
  lift (assert_key_has_value s "contextClear" "pypyr.steps.contextclear") s (fun cfg =>
  match cfg with
  | VList ks => (OOk, set_ctx s (fold_left (fun c k => dict_pop k c) ks (ctx s)))
  | _ => (OUnsup, s)
  end).

(** pypyr.steps.contextmerge / pypyr.steps.default: the merge model of C10 run on the
    whole context (the incoming mapping lives inside it) *)
Definition merge_step (is_merge : bool) (s : st) : R :=
  let key := if is_merge then "contextMerge" else "defaults" in
  let caller := if is_merge then "pypyr.steps.contextmerge" else "pypyr.steps.default" in
  lift (assert_key_has_value s key caller) s (fun _ =>
  match Merge.step_run is_merge FUEL FUEL (ctx s) with
  | (Merge.SOk, m) => (OOk, set_ctx s (Merge.s_root m))
  | (Merge.SErr n e, m) => raise_new n e (set_ctx s (Merge.s_root m))
  | (Merge.SUnsup, _) => (OUnsup, s)
  end).

(** [shlex.split] for the plain case: words of printable non-blank characters separated
    by single spaces, no quotes or escapes (anything else = outside the model) *)
Fixpoint plain_word_chars (s : string) : bool :=
  match s with
  | EmptyString => true
  | String c r =>
      let n := nat_of_ascii c in
      negb (Nat.leb n 32 || Nat.eqb n 34 || Nat.eqb n 39 || Nat.eqb n 92 || Nat.eqb n 35 || Nat.leb 127 n)
      && plain_word_chars r
  end.

Definition simple_split (s : string) : option (list string) :=
  let ws := split_on " "%char s EmptyString in
  if forallb (fun w => negb (String.eqb w "") && plain_word_chars w) ws then Some ws else None.

(** the harness context parser [vparser.get_parsed_context(args)] *)
Definition vparse (args : list string) : res (option dict) :=
  match args with
  | "fail" :: _ => Err "ValueError" "parser boom"
  | "none" :: _ => Ok None
  | _ => Ok (Some [(VStr "parsed", VList (map VStr args)); (VStr "pflag", VBool true)])
  end.

Definition has_parser (pl : list (string * option (list step))) : bool :=
  existsb (fun g => String.eqb (fst g) "context_parser") pl.

(** * pype arguments (steps/pype.py get_arguments) *)
Record pype_args := mkpa {
  pa_name : string; pa_args : option dict; pa_out : option val; pa_use_parent : bool;
  pa_raise : bool; pa_groups : option (list val); pa_success : option string;
  pa_failure : option string;
  pa_parse : option (list string)        (* Some args = run the child's context parser on args *) }.

Definition get_bool (d : dict) (k : string) (dflt : bool) : bool :=
  match sget k d with Some v => py_truth v | None => dflt end.

Definition get_arguments (s : st) : res pype_args :=
  let* _ := assert_key_has_value s "pype" "pypyr.steps.pype" in
  let* p := get_formatted s "pype" in
  match p with
  | VDict d =>
      match sget "name" d with
      | Some (VStr name) =>
          let* args := (match sget "args" d with
                        | None | Some VNone => Ok None
                        | Some (VDict a) => Ok (Some a)
                        | _ => Err "pypyr.errors.ContextError"
                                   "pypyr.steps.pype 'args' in the 'pype' context item must be a dict."
                        end) in
          let has_args := match args with Some (_ :: _) => true | _ => false end in
          let pipe_arg := match sget "pipeArg" d with Some v => py_truth v | None => false end in
          let* pipe_args := (match sget "pipeArg" d with
                             | Some (VStr x) => if pipe_arg then res_of_opt (simple_split x) else Ok []
                             | Some v => if py_truth v then Unsup else Ok []
                             | None => Ok []
                             end) in
          let skip_parse := if pipe_arg && negb (shas "skipParse" d) then false
                            else get_bool d "skipParse" true in
          let use_parent := if (has_args || pipe_arg) && negb (shas "useParentContext" d) then false
                            else get_bool d "useParentContext" true in
          let out := match sget "out" d with Some VNone | None => None | Some o => Some o end in
          if (match out with Some o => py_truth o | None => false end) && use_parent then
            Err "pypyr.errors.ContextError"
                "pypyr.steps.pype pype.out is only relevant if useParentContext = False. If you're using the parent context, no need to have out args since their values will already be in context. If you're NOT using parent context and you've specified pype.args, just leave off the useParentContext key and it'll default to False under the hood, or set it to False yourself if you keep it in."
          else
          let* groups := (match sget "groups" d with
                          | None | Some VNone => Ok None
                          | Some (VStr g) => Ok (Some [VStr g])
                          | Some (VList l) => Ok (Some l)
                          | _ => Unsup
                          end) in
          let* su := opt_str (sget "success" d) in
          let* fa := opt_str (sget "failure" d) in
          Ok (mkpa name args out use_parent (get_bool d "raiseError" true) groups su fa
                   (if skip_parse then None else Some pipe_args))
      | _ => Unsup
      end
  | _ => Unsup
  end.

(** [write_child_context_to_parent] *)
Fixpoint write_out (pairs : list (val * val)) (child parent : st) : R :=
  match pairs with
  | [] => (OOk, parent)
  | (pk, VStr ck) :: rest =>
      (* errors raised here carry the parent's exception counter *)
      match get_formatted child ck with
      | Ok v => write_out rest child (set_ctx parent (dict_set pk v (ctx parent)))
      | Err n m => raise_new n m parent
      | Unsup => (OUnsup, parent)
      end
  | _ => (OUnsup, parent)
  end.

Definition out_pairs (out : val) : option (list (val * val)) :=
  match out with
  | VStr k => Some [(VStr k, VStr k)]
  | VList ks => Some (map (fun k => (k, k)) ks)
  | VDict d => Some d
  | _ => None
  end.

(** * Back-off strategies (retries.py), over exact rationals *)
Definition qmin_opt (x : Q) (mx : option Q) : Q :=
  match mx with
  | Some m => if Qeq_bool m 0 then x else if Qle_bool x m then x else m
  | None => x
  end.

Fixpoint qpow (b : Q) (n : nat) : Q :=
  match n with O => 1%Q | S m => (b * qpow b m)%Q end.

Definition jitter_q (jrc r d : Q) : Q := (d * jrc + (d - d * jrc) * r)%Q.

(** duration before attempt [n]+1, i.e. [backoff_callable(n)], n >= 1 *)
Definition backoff (name : string) (sleep : val) (mx : option Q) (jrc r : Q) (base : Q)
           (n : nat) : option Q :=
  let fixed :=
      match sleep with
      | VList l =>
          match l with
          | [] => None
          | _ => match nth_error l (n - 1) with
                 | Some v => match q_of v with Ok q => Some (qmin_opt q mx) | _ => None end
                 | None => match q_of (last l VNone) with Ok q => Some (qmin_opt q mx) | _ => None end
                 end
          end
      | _ => match q_of sleep with Ok q => Some (qmin_opt q mx) | _ => None end
      end in
  let scalar := match q_of sleep with Ok q => Some q | _ => None end in
  let lin := match scalar with Some q => Some (qmin_opt (inject_Z (Z.of_nat n) * q) mx) | None => None end in
  let expo := match scalar with Some q => Some (qmin_opt (qpow base n * q) mx) | None => None end in
  let jitter (o : option Q) := match o with Some d => Some (jitter_q jrc r d) | None => None end in
  if String.eqb name "fixed" then fixed
  else if String.eqb name "jitter" then jitter fixed
  else if String.eqb name "linear" then lin
  else if String.eqb name "linearjitter" then jitter lin
  else if String.eqb name "exponential" then expo
  else if String.eqb name "exponentialjitter" then jitter expo
  else None.

(** [backoff_cache.get_backoff(name)(sleep=, max_sleep=, jrc=, kwargs=)]: the back-off callable
    ([r]: what random.random() returns); [None] = a construction outside the model *)
Definition backoff_base (args : val) : Q :=
  match args with
  | VDict d => match sget "base" d with
               | Some b => match q_of b with Ok q => q | _ => 2%Q end
               | None => 2%Q
               end
  | _ => 2%Q
  end.
Definition mk_interval (r : Q) (bname sleep : val) (mx : option Q) (jrcv args : val)
  : option (nat -> option Q) :=
  match bname, q_of jrcv with
  | VStr bn, Ok jrc => Some (backoff bn sleep mx jrc r (backoff_base args))
  | _, _ => None
  end.

(** * [utils.poll.while_until_true] *)
Inductive iter_result := IDone (b : bool) | IRaise (o : outcome).

Fixpoint poll (fuel : nat) (iter : Z -> st -> iter_result * st) (interval : nat -> option Q)
         (max : option Z) (i : Z) (s : st) : (iter_result * st) :=
  match fuel with
  | O => (IRaise OUnsup, s)
  | S f =>
      let i' := (i + 1)%Z in
      match iter i' s with
      | (IRaise o, s1) => (IRaise o, s1)
      | (IDone true, s1) => (IDone true, s1)
      | (IDone false, s1) =>
          match interval (Z.to_nat i') with
          | None => (IRaise OUnsup, s1)
          | Some d =>
              match max with
              | Some m =>
                  if Z.eqb m 0 then poll f iter interval max i' (add_sleep s1 d)
                  else if (i' <? m)%Z then poll f iter interval max i' (add_sleep s1 d)
                  else (IDone false, s1)
              | None => poll f iter interval max i' (add_sleep s1 d)
              end
          end
      end
  end.

Definition LOOPFUEL : nat := 64.

(** the calling step's own loop position (kept on the Step / decorator objects) *)
Record counters := mkcnt { k_while : option Z; k_for : option val; k_retry : option Z }.
Definition no_counters := mkcnt None None None.

Definition opt_truth (o : option val) : bool :=
  match o with Some v => py_truth v | None => false end.

Definition has_foreach (sp : step) : bool := opt_truth (s_foreach sp).

Definition error_name (r : raised) : string :=
  match r with
  | RExn n _ _ => n
  | RSig SStop => "pypyr.errors.Stop"
  | RSig SStopPipeline => "pypyr.errors.StopPipeline"
  | RSig SStopStepGroup => "pypyr.errors.StopStepGroup"
  | RSig (SCall _) => "pypyr.errors.Call"
  | RSig (SJump _) => "pypyr.errors.Jump"
  end.

Definition names_of (l : list val) : option (list string) :=
  opt_mapM (fun v => match v with VStr x => Some x | _ => None end) l.

Section Engine.
  Variable lib : library.
  (** [StepsRunner.run_step_groups] of the CURRENT pipeline (re-entered by call and jump) *)
  Variable rg : list val -> option string -> option string -> st -> R.
  (** [Pipeline.load_and_run_pipeline] (re-entered by pype) *)
  Variable rp : string -> option (list string) -> option (list val) -> option string -> option string -> st -> R.

  (** ** pypyr.steps.pype.run_step *)
  Definition pype_step (s : st) : R :=
    lift (get_arguments s) s (fun pa =>
    let guard (r : R) : R :=
        (* except (ControlOfFlowInstruction, Stop): raise / except Exception: raise_error? *)
        match r with
        | (ORaise (RExn _ _ _), s') | (OHandled _, s') =>
            if pa_raise pa then r else (OOk, s')
        | _ => r
        end in
    if pa_use_parent pa then
      let s1 := match pa_args pa with
                | Some ((_ :: _) as a) => set_ctx s (dict_update (ctx s) a)
                | _ => s
                end in
      guard (rp (pa_name pa) (pa_parse pa) (pa_groups pa) (pa_success pa) (pa_failure pa) s1)
    else
      let child0 := mkst (match pa_args pa with Some a => a | None => [] end) []
                         (trace s) (sleeps s) (next_eid s) (jit s) in
      let '(o, child) := rp (pa_name pa) (pa_parse pa) (pa_groups pa) (pa_success pa) (pa_failure pa) child0 in
      let parent := mkst (ctx s) (stack s) (trace child) (sleeps child) (next_eid child) (jit s) in
      guard (match o with
             | OOk =>
                 match pa_out pa with
                 | Some out =>
                     if py_truth out then
                       match out_pairs out with
                       | Some pairs => write_out pairs child parent
                       | None => (OUnsup, parent)
                       end
                     else (OOk, parent)
                 | None => (OOk, parent)
                 end
             | _ => (o, parent)
             end)).

  (** ** the step body: [self.run_step_function(context)] *)
  Definition run_body (sp : step) (s : st) : R :=
    match s_body sp with
    | BProbe => probe_step s
    | BFail => fail_step s
    | BIncr => incr_step s
    | BStop => (ORaise (RSig SStop), s)
    | BStopPipeline => (ORaise (RSig SStopPipeline), s)
    | BStopStepGroup => (ORaise (RSig SStopStepGroup), s)
    | BCall => cof_step SCall "call" "pypyr.steps.call" s
    | BJump => cof_step SJump "jump" "pypyr.steps.jump" s
    | BSwitch => switch_step s
    | BSet => set_step s
    | BClear => clear_step s
    | BClearAll => (OOk, set_ctx s [])
    | BMerge => merge_step true s
    | BDefault => merge_step false s
    | BPype => pype_step s
    end.

  (** ** [Step.reset_context_counters] *)
  Definition reset_counters (sp : step) (k : counters) (c : cof) (s : st) : st :=
    let c1 := match s_while sp, k_while k with
              | Some _, Some n => sset "whileCounter" (VInt n) (ctx s)
              | _, _ => ctx s
              end in
    let c2 := if has_foreach sp then
                match k_for k with Some v => sset "i" v c1 | None => c1 end
              else c1 in
    let c3 := match s_retry sp, k_retry k with
              | Some _, Some n => sset "retryCounter" (VInt n) c2
              | _, _ => c2
              end in
    set_ctx s (sset (c_key c) (c_orig c) c3).

  (** ** [Step.invoke_step] *)
  Definition invoke (sp : step) (k : counters) (s : st) : R :=
    match run_body sp s with
    | (ORaise (RSig (SCall c)), s1) =>
        let '(o, s2) := rg (c_groups c) (c_success c) (c_failure c) s1 in
        let s3 := reset_counters sp k c s2 in
        match o with
        | OOk => (OOk, s3)
        | ORaise (RSig sg) => (ORaise (RSig sg), s3)     (* instructions pass through *)
        | ORaise r => (OHandled r, s3)                   (* raise HandledError from ex_info *)
        | OHandled _ => (OUnsup, s3)                     (* never escapes a step *)
        | OUnsup => (OUnsup, s3)
        end
    | r => r
    end.

  (** ** [Step.save_error] *)
  Definition save_error (sp : step) (name msg : string) (eid : Z) (swallowed : bool)
             (s : st) : R :=
    lift (match s_onerror sp with
          | Some oe => if py_truth oe then fmt s oe else Ok (VDict [])
          | None => Ok (VDict [])
          end) s (fun custom =>
    let pos v := match s_pos sp with Some p => VInt (v p) | None => VNone end in
    let failure := VDict [(VStr "name", VStr name); (VStr "description", VStr msg);
                          (VStr "customError", custom); (VStr "line", pos fst);
                          (VStr "col", pos snd); (VStr "step", VStr (s_name sp));
                          (VStr "exception", VExn name msg eid);
                          (VStr "swallowed", VBool swallowed)] in
    match sget "runErrors" (ctx s) with
    | None => (OOk, set_ctx s (sset "runErrors" (VList [failure]) (ctx s)))
    | Some (VList l) => (OOk, set_ctx s (sset "runErrors" (VList (l ++ [failure])) (ctx s)))
    | Some _ => (OUnsup, s)
    end).

  (** ** [RetryDecorator.exec_iteration] and [retry_loop] *)
  Definition in_names (nm : string) (l : val) : res bool :=
    match l with
    | VList xs | VTuple xs => Ok (py_in (VStr nm) xs)
    | VStr x => Unsup
    | _ => Unsup
    end.

  Definition retry_iter (rc : rcfg) (sp : step) (k : counters) (max : option Z)
             (n : Z) (s : st) : iter_result * st :=
    let s0 := set_ctx s (sset "retryCounter" (VInt n) (ctx s)) in
    let k' := mkcnt (k_while k) (k_for k) (Some n) in
    match invoke sp k' s0 with
    | (OOk, s1) => (IDone true, s1)
    | (ORaise (RSig sg), s1) => (IRaise (ORaise (RSig sg)), s1)
    | (OUnsup, s1) => (IRaise OUnsup, s1)
    | (o, s1) =>
        let at_max := match max with
                      | Some m => negb (Z.eqb m 0) && Z.eqb n m
                      | None => false
                      end in
        if at_max then (IRaise o, s1)
        else
          let cause := match o with OHandled c => c | ORaise r => r | _ => RSig SStop end in
          let nm := error_name cause in
          let check_stop :=
              if opt_truth (r_stopon rc) then
                match r_stopon rc with
                | Some l => let* fl := fmt s1 l in in_names nm fl
                | None => Ok false
                end
              else Ok false in
          match check_stop with
          | Err en em => let '(o', s2) := raise_new en em s1 in (IRaise o', s2)
          | Unsup => (IRaise OUnsup, s1)
          | Ok true => (IRaise o, s1)
          | Ok false =>
              let check_retry :=
                  if opt_truth (r_retryon rc) then
                    match r_retryon rc with
                    | Some l => let* fl := fmt s1 l in let* b := in_names nm fl in Ok (negb b)
                    | None => Ok false
                    end
                  else Ok false in
              match check_retry with
              | Err en em => let '(o', s2) := raise_new en em s1 in (IRaise o', s2)
              | Unsup => (IRaise OUnsup, s1)
              | Ok true => (IRaise o, s1)
              | Ok false => (IDone false, s1)
              end
          end
    end.

  Definition retry_loop (rc : rcfg) (sp : step) (k : counters) (s : st) : R :=
    let s0 := set_ctx s (sset "retryCounter" (VInt 0) (ctx s)) in
    lift (fmt s0 (r_sleep rc)) s0 (fun sleep =>
    lift (if opt_truth (r_backoff rc)
          then match r_backoff rc with Some b => fmt s0 b | None => Ok (VStr "fixed") end
          else Ok (VStr "fixed")) s0 (fun bname =>
    lift (if opt_truth (r_sleepmax rc)
          then match r_sleepmax rc with
               | Some m => let* q := as_float s0 m in Ok (Some q)
               | None => Ok None
               end
          else Ok None) s0 (fun mx =>
    lift (fmt s0 (r_jrc rc)) s0 (fun jrcv =>
    lift (match r_args rc with Some a => fmt s0 a | None => Ok VNone end) s0 (fun args =>
    (* the back-off callable is built before [max] is read *)
    match mk_interval (jit s0) bname sleep mx jrcv args with
    | None => (OUnsup, s0)
    | Some interval =>
        lift (if opt_truth (r_max rc)
              then match r_max rc with
                   | Some m => let* z := as_int s0 m in Ok (Some z)
                   | None => Ok None
                   end
              else Ok None) s0 (fun max =>
        match poll LOOPFUEL (retry_iter rc sp k max) interval max 0 s0 with
        | (IDone true, s1) => (OOk, s1)
        | (IDone false, s1) => raise_new "AssertionError" "" s1
        | (IRaise o, s1) => (o, s1)
        end)
    end))))).

  (** ** [Step.run_conditional_decorators] *)
  Definition cond (sp : step) (k : counters) (s : st) : R :=
    lift (as_bool s (s_run sp)) s (fun run_me =>
    if negb run_me then (OOk, s) else
    lift (as_bool s (s_skip sp)) s (fun skip_me =>
    if skip_me then (OOk, s) else
    let r := match s_retry sp with
             | Some rc => retry_loop rc sp k s
             | None => invoke sp k s
             end in
    match r with
    | (ORaise (RExn name msg eid), s1) =>
        lift (as_bool s1 (s_swallow sp)) s1 (fun swallow =>
        andthen (save_error sp name msg eid swallow s1) (fun s2 =>
        if swallow then (OOk, s2) else (ORaise (RExn name msg eid), s2)))
    | (OHandled cause, s1) =>
        lift (as_bool s1 (s_swallow sp)) s1 (fun swallow =>
        if swallow then (OOk, s1) else (ORaise cause, s1))
    | _ => r      (* OOk, instructions (re-raised untouched), OUnsup *)
    end)).

  (** ** [Step.foreach_loop] *)
  Fixpoint foreach_items (sp : step) (k : counters) (items : list val) (s : st) : R :=
    match items with
    | [] => (OOk, s)
    | it :: rest =>
        let s1 := set_ctx s (sset "i" it (ctx s)) in
        andthen (cond sp (mkcnt (k_while k) (Some it) (k_retry k)) s1)
                (foreach_items sp k rest)
    end.

  Definition iter_items (v : val) : res (list val) :=
    match v with
    | VList l | VTuple l => Ok l
    | VDict d => Ok (map fst d)
    | VNone | VBool _ | VInt _ | VFloat _ =>
        Err "TypeError" ("'" ++ type_name v ++ "' object is not iterable")
    | _ => Unsup
    end.

  Definition foreach_loop (sp : step) (k : counters) (s : st) : R :=
    let fe := match s_foreach sp with Some fe => fe | None => VNone end in
    lift (fmt s fe) s (fun v => lift (iter_items v) s (fun items => foreach_items sp k items s)).

  (** ** [Step.run_foreach_or_conditional] *)
  Definition foreach_or_cond (sp : step) (k : counters) (s : st) : R :=
    if has_foreach sp then foreach_loop sp k s else cond sp k s.

  (** ** [WhileDecorator.exec_iteration] and [while_loop] *)
  Definition while_iter (w : wcfg) (sp : step) (n : Z) (s : st) : iter_result * st :=
    let s0 := set_ctx s (sset "whileCounter" (VInt n) (ctx s)) in
    match foreach_or_cond sp (mkcnt (Some n) None None) s0 with
    | (OOk, s1) =>
        if opt_truth (w_stop w) then
          match w_stop w with
          | Some e =>
              match as_bool s1 e with
              | Ok b => (IDone b, s1)
              | Err en em => let '(o, s2) := raise_new en em s1 in (IRaise o, s2)
              | Unsup => (IRaise OUnsup, s1)
              end
          | None => (IDone false, s1)
          end
        else (IDone false, s1)
    | (o, s1) => (IRaise o, s1)
    end.

  Definition while_loop (w : wcfg) (sp : step) (s : st) : R :=
    let s0 := set_ctx s (sset "whileCounter" (VInt 0) (ctx s)) in
    match w_stop w, w_max w with
    | None, None =>
        raise_new "pypyr.errors.PipelineDefinitionError"
                  "the while decorator must have either max or stop, or both. But not neither." s0
    | _, _ =>
    lift (as_bool s0 (w_eom w)) s0 (fun eom =>
    lift (as_float s0 (w_sleep w)) s0 (fun sleep =>
    lift (match w_max w with
          | Some m => let* z := as_int s0 m in Ok (Some z)
          | None => Ok None
          end) s0 (fun max =>
    if (match max with Some m => (m <? 1)%Z | None => false end) then (OOk, s0) else
    match poll LOOPFUEL (while_iter w sp) (fun _ => Some sleep) max 0 s0 with
    | (IDone true, s1) => (OOk, s1)
    | (IRaise o, s1) => (o, s1)
    | (IDone false, s1) =>
        if eom then
          match max with
          | Some m =>
              if opt_truth (w_stop w) then
                match w_stop w with
                | Some e =>
                    match py_str e with
                    | Some es => raise_new "pypyr.errors.LoopMaxExhaustedError"
                                   ("while loop reached " ++ str_of_Z m ++ " and " ++ es
                                    ++ " never evaluated to True.") s1
                    | None => (OUnsup, s1)
                    end
                | None => (OUnsup, s1)
                end
              else raise_new "pypyr.errors.LoopMaxExhaustedError"
                             ("while loop reached " ++ str_of_Z m ++ ".") s1
          | None =>      (* never reached: an unbounded poll does not end false *)
              raise_new "pypyr.errors.LoopMaxExhaustedError" "while loop reached None." s1
          end
        else (OOk, s1)
    end)))
    end.

  (** ** [Step.run_step] *)
  Definition set_step_input (sp : step) (s : st) : st :=
    match s_in sp with
    | Some ((_ :: _) as d) => set_ctx s (dict_update (ctx s) d)
    | _ => s
    end.

  Definition unset_step_input (sp : step) (s : st) : st :=
    match s_in sp with
    | Some d => set_ctx s (fold_left (fun c kv => dict_pop (fst kv) c) d (ctx s))
    | None => s
    end.

  (** what [Step.run_step] does after the in-arguments are set and the description was logged *)
  Definition run_step_core (sp : step) (s1 : st) : R :=
    let r := match s_while sp with
             | Some w => while_loop w sp s1
             | None => foreach_or_cond sp no_counters s1
             end in
    andthen r (fun s2 => (OOk, unset_step_input sp s2)).

  (** a step WITH a description first formats it and evaluates run (and, when run is true, skip) once
      — only to word the log line; whatever those evaluations raise ends the step there: outside the
      decorator layer (not recorded, not swallowed, not retried) and with the in-arguments still set *)
  Definition describe (sp : step) (s1 : st) (k : st -> R) : R :=
    match s_desc sp with
    | Some d =>
        if py_truth d then
          lift (fmt s1 d) s1 (fun _ =>
          lift (as_bool s1 (s_run sp)) s1 (fun run_me =>
          if run_me then lift (as_bool s1 (s_skip sp)) s1 (fun _ => k s1) else k s1))
        else k s1
    | None => k s1
    end.

  Definition run_step (sp : step) (s : st) : R :=
    let s1 := set_step_input sp s in
    describe sp s1 (run_step_core sp).

  (** ** [StepsRunner.run_pipeline_steps] *)
  Fixpoint run_steps (steps : list step) (s : st) : R :=
    match steps with
    | [] => (OOk, s)
    | sp :: rest => andthen (run_step sp s) (run_steps rest)
    end.

  Definition get_steps (group : string) (s : st) : list step :=
    match find (fun p => String.eqb (fst p) (current_pipe s)) lib with
    | Some (_, pl) =>
        match find (fun g => String.eqb (fst g) group) pl with
        | Some (_, Some steps) => steps
        | _ => []
        end
    | None => []
    end.

  (** ** [StepsRunner.run_step_group] *)
  Definition run_group (group : string) (raise_stop : bool) (s : st) : R :=
    match run_steps (get_steps group s) s with
    | (ORaise (RSig (SJump c)), s1) => rg (c_groups c) (c_success c) (c_failure c) s1
    | (ORaise (RSig SStopStepGroup), s1) =>
        if raise_stop then (ORaise (RSig SStopStepGroup), s1) else (OOk, s1)
    | r => r
    end.

  Fixpoint run_group_seq (groups : list string) (s : st) : R :=
    match groups with
    | [] => (OOk, s)
    | g :: rest => andthen (run_group g false s) (run_group_seq rest)
    end.

  (** ** [StepsRunner.run_failure_step_group] *)
  Definition run_failure (group : string) (s : st) : R :=
    match run_group group true s with
    | (ORaise (RSig (SCall _)), s1) | (ORaise (RSig (SJump _)), s1)   (* not Stops: plain Exceptions here *)
    | (ORaise (RExn _ _ _), s1) | (OHandled _, s1) => (OOk, s1)   (* except Exception: swallowed *)
    | r => r                                                (* except Stop: raise; OOk; OUnsup *)
    end.

  (** ** [StepsRunner.run_step_groups] *)
  Definition is_signal (o : outcome) : bool :=
    match o with ORaise (RSig _) => true | _ => false end.

  (** what [except Exception] catches here: ordinary errors, and HandledError (which in fact never
      leaves a step: [Step.run_conditional_decorators] unwraps it) *)
  Definition is_error (o : outcome) : bool :=
    match o with ORaise (RExn _ _ _) | OHandled _ => true | _ => false end.

  Definition groups_body (groups : list val) (success failure : option string) (s : st) : R :=
    match groups with
    | [] => raise_new "ValueError"
              "you must specify which step-groups you want to run. groups is None." s
    | _ =>
        match names_of groups with
        | None => (OUnsup, s)
        | Some names =>
            let main := andthen (run_group_seq names s) (fun s1 =>
                        match success with
                        | Some sg => match sg with "" => (OOk, s1) | _ => run_group sg false s1 end
                        | None => (OOk, s1)
                        end) in
            let (o, s1) := main in
            if is_error o then                                  (* except Exception: *)
              match failure with
              | Some fg =>
                  match fg with
                  | "" => main
                  | _ =>
                      match run_failure fg s1 with
                      | (ORaise (RSig SStopStepGroup), s2) => (OOk, s2)      (* do_raise = False *)
                      | (OOk, s2) => (o, s2)                               (* the original *)
                      | r => r        (* Stop / StopPipeline from the handler, or OUnsup *)
                      end
                  end
              | None => main
              end
            else main
        end
    end.
End Engine.

(** * Pipelines *)
Section Pipelines.
  Variable lib : library.
  Variable rg : list val -> option string -> option string -> st -> R.
  (** [StepsRunner.run_failure_step_group] of the pipeline being started *)
  Variable rfail : string -> st -> R.

  (** [Pipeline._prepare_context]: run the pipeline's context parser when asked to *)
  Definition prepare_context (parser : bool) (parse : option (list string)) (s : st) : R :=
    match parse with
    | Some args =>
        if parser then
          lift (vparse args) s (fun parsed =>
          match parsed with
          | Some ((_ :: _) as d) => (OOk, set_ctx s (dict_update (ctx s) d))
          | _ => (OOk, s)
          end)
        else (OOk, s)
    | None => (OOk, s)
    end.

  (** [Pipeline._run_pipeline] *)
  Definition run_pipeline_inner (parser : bool) (parse : option (list string))
             (groups : option (list val)) (success failure : option string) (s : st) : R :=
    let no_groups := match groups with None | Some [] => true | _ => false end in
    let none_or_empty (o : option string) := match o with None | Some "" => true | _ => false end in
    let gs := if no_groups then [VStr "steps"] else match groups with Some g => g | None => [] end in
    let dflt := no_groups && none_or_empty success && none_or_empty failure in
    let su := if dflt then Some "on_success" else success in
    let fa := if dflt then Some "on_failure" else failure in
    match prepare_context parser parse s with
    | (OOk, s0) =>
        match rg gs su fa s0 with
        | (ORaise (RSig SStopPipeline), s1) => (OOk, s1)
        | r => r
        end
    | (ORaise (RExn n m e), s0) =>
        (* the parser failed: failure group once, StopStepGroup absorbed, original re-raised;
           this is OUTSIDE the StopPipeline handler *)
        match fa with
        | Some (String _ _ as fg) =>
            match rfail fg s0 with
            | (ORaise (RSig SStopStepGroup), s1) | (OOk, s1) => (ORaise (RExn n m e), s1)
            | (ORaise (RSig SStopPipeline), s1) => (OOk, s1)     (* ends this pipeline only *)
            | r => r
            end
        | _ => (ORaise (RExn n m e), s0)
        end
    | r => r
    end.

  (** [Pipeline.load_and_run_pipeline]: push on the call stack, run, pop in finally *)
  Definition load_and_run (name : string) (parse : option (list string))
             (groups : option (list val)) (success failure : option string) (s : st) : R :=
    match find (fun p => String.eqb (fst p) name) lib with
    | None => (OUnsup, s)
    | Some (_, pl) =>
        let '(o, s1) := run_pipeline_inner (has_parser pl) parse groups success failure
                                           (set_stack s (name :: stack s)) in
        (o, set_stack s1 (tl (stack s1)))
    end.
End Pipelines.

Fixpoint run_groups (fuel : nat) (lib : library) (groups : list val)
         (success failure : option string) (s : st) {struct fuel} : R :=
  match fuel with
  | O => (OUnsup, s)
  | S f => groups_body lib (run_groups f lib) (run_pipe f lib) groups success failure s
  end
with run_pipe (fuel : nat) (lib : library) (name : string) (parse : option (list string))
              (groups : option (list val)) (success failure : option string) (s : st)
              {struct fuel} : R :=
  match fuel with
  | O => (OUnsup, s)
  | S f => load_and_run lib (run_groups f lib)
                        (run_failure lib (run_groups f lib) (run_pipe f lib))
                        name parse groups success failure s
  end.

Definition run_pipeline (fuel : nat) (lib : library) := run_pipe (S fuel) lib.

(** [Pipeline.run] + [pipelinerunner.run]: Stop of any kind is caught at the root.
    [args_in]/[dict_none] decide parse_input as [Pipeline._get_parse_input] does. *)
Definition api_parse (args_in : option (list string)) (dict_none : bool) : option (list string) :=
  let args := match args_in with Some a => a | None => [] end in
  if negb (is_nil args) || dict_none then Some args else None.

Definition api_run_args (fuel : nat) (lib : library) (name : string) (args_in : option (list string))
           (dict_none : bool) (dict_in : dict)
           (groups : option (list val)) (success failure : option string) (jitter : Q) : R :=
  let s0 := mkst dict_in [] [] [] 0 jitter in
  match run_pipeline fuel lib name (api_parse args_in dict_none) groups success failure s0 with
  | (ORaise (RSig SStop), s1) | (ORaise (RSig SStopPipeline), s1)
  | (ORaise (RSig SStopStepGroup), s1) => (OOk, s1)
  | r => r
  end.

(** the common case: a dict is supplied, no arguments: the parser is not run *)
Definition api_run (fuel : nat) (lib : library) (name : string) (dict_in : dict)
           (groups : option (list val)) (success failure : option string) (jitter : Q) : R :=
  api_run_args fuel lib name None false dict_in groups success failure jitter.

Definition EFUEL : nat := 24.
