(** Model/Engine.v — placeholder, to be written. *)
